"""C01 - RDM estimators equal their formula on condition means, correctly labelled (DESIGN 4/C01)

Bounded exhaustive exploration of calc_rdm / calc_rdm_movie: every assignment of observations
to condition labels (all set partitions) x label namings x descriptor containers x data dtype x
extra descriptors x methods x options x row permutations, for a single dataset, a one-element
list, lists of two datasets (equal / overlapping / disjoint condition sets, with and without a
condition descriptor) and RDM movies with every partition of the time points into bins.  Every
returned value is judged per unordered pair of *returned labels* against mc.ref.c01_ref.

Case kinds (run_case dispatches on case['kind']):
  single  one Dataset, form 'single' (calc_rdm(ds)) or 'list1' (calc_rdm([ds]))
  values  like single, but the measurement matrix is the `mat`-th matrix over {0,1,2}^(n x P)
  pair    calc_rdm([ds1, ds2], descriptor='cond')            (from_partials path)
  stack   calc_rdm([ds1, ds2]) without descriptor            (concat path)
  movie   calc_rdm_movie(TemporalDataset, bins=...)
  sequence  several calc_rdm / calc_rdm_movie calls on ONE Dataset / TemporalDataset object (and one
            shared precision matrix): every result judged against the ORIGINAL data, inputs must
            stay bit-identical after every call
"""
import itertools
import sys
import traceback

import numpy as np

from mc import combi
from mc import runner as _runner
from mc.ref import c01_ref as ref
from mc.util import close, reldev, rng_for, spd

PROPERTY = 'C01'
LEVEL = 'exploration'
RULE = ('Every set partition of n observations into condition labels x label naming (ascending / '
        'descending ints, strings, all k! int namings for k<=3) x descriptor container (list / '
        'ndarray) x data dtype (float / int64) x extra obs descriptor (constant / varying within '
        'conditions) x row permutation (all for n<=4, identity+reversal+adjacent swaps above) x '
        'method configuration (euclidean, correlation, mahalanobis with precision None / I / '
        'diagonal / full SPD [/ one per dataset], poisson with two prior settings; each with '
        'remove_mean off and on) x input form (single dataset, one-element list, list of two '
        'datasets with equal / overlapping / disjoint condition sets, with and without condition '
        'descriptor); all matrices over {0,1,2}^(n x P) for small n, P (every tie / zero pattern); '
        'movies: every partition of the time points into bins (both bin orders) and no binning, '
        'ascending and descending time values; a menu of 8 time axes (affine images of one axis: '
        'small floats, ints, fractions, negative, 250000+k, unix-like 1.6963e9+0.5k, -1e6+0.25k, 1e-9 '
        'steps) x storage order (ascending, descending, scrambled) x every binning, and the same '
        'menu cycled through the main movie sweep; sequences on ONE dataset object: every ordered pair '
        'of method configurations (first call as single dataset / one-element list / same object '
        'twice in a list; movies likewise) and chains of all configurations, each result judged '
        'against the originally supplied data and the inputs required bit-identical after every '
        'call; calc_rdm_movie on LISTS of 1-2 temporal datasets x precision None / shared / per-dataset '
        'list / dict keyed by position x every binning x priors x a time descriptor selected by name, '
        'and unbalanced=True movies (frame == calc_rdm_unbalanced of that time point); '
        'the structures re-run with measurements x1e-5 / x1e4 and precisions x1e-8 / x1e6 '
        '(relative tolerance); condition labels 100000+k, 1696300000.0+0.5k and strings that are '
        'prefixes of / differ by a blank from each other, as list and ndarray, through single, '
        'list, stacked and movie input.  After EVERY call all caller-owned arguments (dataset '
        'measurements, every descriptor dict, precision(s), bins) must be bit-identical.  '
        'One evaluation = one real calc_rdm / '
        'calc_rdm_movie call whose every returned entry, label and descriptor was judged; '
        'non-trivial = at least one pair value was defined and compared; distinct = distinct '
        'case descriptor (generator parameters).')
ASSUMPTIONS = [
    'reference formulas in mc/ref/c01_ref.py are the statement\'s formulas (plain loops, no numpy)',
    'remove_mean=True means: subtract from every condition-mean pattern its mean over channels '
    '(documented no-op for correlation and poisson)',
    'poisson rates are (mean + prior_lambda*prior_weight)/(1+prior_weight)',
    'real values outside the {0,1,2} alphabet are represented by fixed generic fills from VERIF_SEED',
    'pairs whose statement value is undefined (correlation with a constant mean pattern or one '
    'channel) are excluded and counted',
    'a pattern descriptor other than the condition descriptor is only required to be right when '
    'present, not required to be present; dataset descriptors are required on the right RDM',
    'calc_rdm / calc_rdm_movie must leave the dataset(s), precision(s) and bins they are given '
    'bit-identical incl. dtypes, keys and container types (otherwise the values of later calls on '
    'the same objects no longer equal the formula on the supplied data); checked after every call',
    'no absolute tolerance floor anywhere in the scaled / homogeneity judgements (values of 1e-24 are '
    'judged like values of 1); the reference\'s constant-pattern test is relative too',
    'scaled data: a correct evaluation may err by a small multiple of 1e-16 times the magnitude of '
    'the terms it sums (ref.magnitude); allowed 1e-9*|value| + 1e-12*magnitude',
    'dataset-descriptor menus: a key the source dataset lacks may come back as None or be absent; any '
    'other value (in particular that of another dataset) is a violation',
    'unbalanced=True movies: only the stacking is judged (each frame == calc_rdm_unbalanced of the data '
    'at that time point); the unbalanced estimator itself belongs to another property',
    'a dict of precisions is only passed where it works as a per-dataset container (keyed by the '
    'position in the list); _check_noise\'s dict branch is reachable only through crossnobis (C02)',
    'lists of datasets without condition descriptor are only generated with identical obs '
    'descriptors or with all-distinct labels (then the returned labels define the alignment)',
]
TOL = 1e-9
TOL_MAG = 1e-12
TOLERANCES = {'value': TOL, 'time-label (relative)': 1e-12,
              'scaled data: |got-want| <=': '1e-9*|want| + 1e-12*magnitude of the summed terms'}
BOUNDS = {
    'quick': {'n_obs': '1..5, every set partition (75); row permutations: all for n<=4, 4 for n=5',
              'n_channel x (container,dtype,extra) slots': 8, 'n_channel': [1, 2, 3], 'fills': 1,
              'method_configurations': 16,
              'one_element_list': 'n_obs 1..4, all method configurations, descriptor and None',
              'list_of_two': 'n_obs 1..3 each, every pair of partitions x {same, shifted, disjoint} names x 3 '
                             'namings; 6 core method configurations everywhere, all 18 on every 4th structure',
              'list_of_two_no_descriptor': 'n_obs 1..4: identical descriptors (every partition) and distinct '
                                           'labels in every row order',
              'tierA': '{0,1,2}^(n x P): (2,1..3) (3,1..2) (4,1), every partition, 6 method configurations',
              'movie': {'n_time': [1, 3], 'n_obs': [1, 3], 'n_channel': [1, 2, 3],
                        'binnings': 'none + every partition of the time points, both bin orders'},
              'dataset_descriptor_menus': 'lists of 2-3 datasets x 11 / 7 menus of dataset-level descriptor dicts '
                                          '(same keys, key missing first / middle / last, disjoint keys, mixed '
                                          'types, empty) x calc_rdm with / without descriptor, calc_rdm_movie, '
                                          'unbalanced movie; RDMs identified by their values',
              'extreme_scales': 'measurements x1e-9, x1e-12, x1e8 (euclidean, correlation, mahalanobis; poisson '
                                'only at 1e8) through the same oracle, purely relative tolerance; homogeneity '
                                'law calc_rdm(c*data) == c^2 (c^0 for correlation) * calc_rdm(data) for the '
                                'same c, two real calls',
              'scales': 'measurements x1e-5, x1e4; precision x1e-8, x1e6 and two mixed; n_obs 1..3 (+5 of n=4), '
                        'all 16 method configurations, single/one-element list/list of two/movie',
              'labels': '100000+k, 1696300000.0+0.5k, prefix strings; list and ndarray; every partition n<=4, '
                        'every pair of partitions n<=3, every row order n<=4 (stack), movies n_time 2',
              'movie_lists': '1-2 datasets x n_time 1..3 x every binning x every partition n<=3 x 10 method '
                             'configurations (per-dataset precision as list and as dict); unbalanced movies '
                             'n_time 1..2, also through a one-element list',
              'time_axes': '8 axes x 3 storage orders x every binning of n_time 1..3 x 7 label structures x 4 '
                           'methods (row-per-observation movies on a quarter)',
              'sequences_on_one_object': 'n_obs 2..3, n_channel 2..3, float and int, descriptor and None: all '
                                         '16x16 ordered pairs of method configurations (x3 first-call forms on '
                                         'one structure), 8 chains of 16 calls; movies n_time 2: 8x8 pairs'},
    'thorough': {'n_obs': '1..6, every set partition (278); row permutations: all for n<=4, identity, '
                          'reversal and every adjacent swap above',
                 'n_channel': [1, 2, 3, 4], 'fills': 3, 'combos': 8, 'method_configurations': 16,
                 'one_element_list': 'n_obs 1..5', 'list_of_two': 'n_obs 1..4 each, all 18 method configurations',
                 'tierA': 'quick + (3,3) (4,2), 13 method configurations',
                 'movie': {'n_time': [1, 4], 'n_obs': [1, 4], 'n_channel': [1, 2, 3]},
                 'sequences_on_one_object': 'n_obs 2..4, n_channel 1..3, all first-call forms everywhere, 32 chains'},
}

TIMES = [0.0, 1.0, 3.0, 7.0]          # all subset means are distinct
# Menu of time axes: affine images offset + step * TIMES (so all subset means stay distinct), i.e.
# the same frames under different clocks.  'int' is an integer-typed descriptor.
TIME_AXES = {
    'small': (0.0, 1.0), 'int': (0, 1), 'frac': (0.0, 0.1), 'negative': (2.0, -1.5),
    'offset_ms': (250000.0, 1.0),        # sample clock in ms, 250 s into a recording
    'unix': (1696300000.0, 0.5),         # unix time stamps, half-second steps
    'large_neg': (-1000000.0, 0.25),
    'tiny': (0.0, 1e-9),                 # sub-nanosecond steps
}
AXIS_ORDER = ['small', 'offset_ms', 'int', 'unix', 'frac', 'tiny', 'negative', 'large_neg']
AXIS_CLASS = {'offset_ms': 'large-offset', 'unix': 'large-offset', 'large_neg': 'large-offset',
              'tiny': 'tiny-step'}
SCRAMBLE = {1: [0], 2: [1, 0], 3: [1, 2, 0], 4: [2, 0, 3, 1]}


def _time_axis(name, nt, order):
    """time stamps of the nt time points in storage order (Python numbers)"""
    off, step = TIME_AXES[name]
    vals = [off + step * (int(t) if name == 'int' else t) for t in TIMES[:nt]]
    if order == 'desc':
        vals = vals[::-1]
    elif order == 'scr':
        vals = [vals[i] for i in SCRAMBLE[nt]]
    return vals


def _same_time(a, b):
    """time labels agree to rounding (1e-12 relative; no absolute slack, steps may be tiny)"""
    a, b = float(a), float(b)
    return abs(a - b) <= 1e-12 * max(abs(a), abs(b))


# ----------------------------------------------------------------------------- generators
def _mconfs(listnoise=False, rm=True):
    out = []
    rms = (False, True) if rm else (False,)
    for r in rms:
        out.append({'method': 'euclidean', 'rm': r})
    for r in rms:
        out.append({'method': 'correlation', 'rm': r})
    for prec in ['none', 'eye', 'diag', 'full'] + (['perds', 'perdsdict'] if listnoise else []):
        for r in rms:
            out.append({'method': 'mahalanobis', 'prec': prec, 'rm': r})
    for prior in ([1, 0.1], [2, 0.5]):
        for r in rms:
            out.append({'method': 'poisson', 'prior': prior, 'rm': r})
    return out


_NAMING_CACHE = {}


PREFIX_POOL = ['stim10', 'stim1', 'stim1 ', 'stim100', 'stim01', 'stim', 'stim 1', 'Stim1', 'stim1.0',
               'stim11', ' stim1', 'stim1_']
LABEL_TAGS = ['big', 'unixf', 'prefix']      # labels that are large / close together / prefixes of each other


def _zigzag(k):
    """0..k-1 as k-1, 0, k-2, 1, ... (neither ascending nor descending)"""
    lo, hi, out = 0, k - 1, []
    while lo <= hi:
        out.append(hi)
        if lo < hi:
            out.append(lo)
        lo, hi = lo + 1, hi - 1
    return out


def _naming(k, tag):
    key = (k, tag)
    if key not in _NAMING_CACHE:
        if tag == 'big':            # six-digit ints next to each other
            _NAMING_CACHE[key] = [100000 + i for i in _zigzag(k)]
        elif tag == 'unixf':        # large floats half a unit apart
            _NAMING_CACHE[key] = [1696300000.0 + 0.5 * i for i in _zigzag(k)]
        elif tag == 'prefix':       # strings one of which is a prefix of / differs by a blank from another
            _NAMING_CACHE[key] = PREFIX_POOL[:k]
        else:
            for t, names in combi.namings(k):
                _NAMING_CACHE[(k, t)] = list(names)
    return _NAMING_CACHE[key]


def _naming_tags(k):
    return [t for t, _ in combi.namings(k)]


def _extra_of(label):
    """constant-within-condition extra descriptor: a function of the label itself"""
    if isinstance(label, str):
        return 'e%d' % (sum(ord(ch) for ch in label) % 2)
    return 'e%d' % (int(2 * label) % 2 if isinstance(label, float) else int(label) % 2)


_FILL_CACHE = {}


def _fill(seed, shape, dtype, fill, poisson, key=0, scale=None):
    k = (seed, tuple(shape), dtype, fill, bool(poisson), key, scale)
    hit = _FILL_CACHE.get(k)
    if hit is not None:
        return hit
    g = rng_for(seed, 'c01data', fill, key, 1 if dtype == 'int' else 0, *shape)
    if dtype == 'int':
        if fill % 3 == 0:
            x = g.integers(0, 4, size=shape)
        elif fill % 3 == 1:
            x = g.integers(-2, 4, size=shape)
        else:
            x = g.integers(0, 10, size=shape)
    else:
        if fill % 3 == 0:
            x = np.round(g.uniform(0.1, 4.0, size=shape), 3)
        elif fill % 3 == 1:
            x = np.round(g.normal(0.0, 1.5, size=shape), 3)
        else:
            x = np.round(g.uniform(5.0, 9.0, size=shape), 3)
    if poisson:
        x = np.abs(x)
    if scale:
        x = x * scale if dtype != 'int' else x * int(scale)
    x = x.tolist()
    if len(_FILL_CACHE) > 256:
        _FILL_CACHE.clear()
    _FILL_CACHE[k] = x
    return x


_PREC_CACHE = {}


def _precision(kind, n_ch, seed, which=0, nscale=None):
    """precision matrix of the given kind (a fresh copy each call; the library may keep it)"""
    if kind == 'none':
        return None
    if nscale:
        return _precision(kind, n_ch, seed, which) * nscale
    if kind == 'eye':
        return np.eye(n_ch)
    key = (kind, n_ch, seed, which)
    if key not in _PREC_CACHE:
        g = rng_for(seed, 'c01prec', n_ch, which)
        if kind == 'diag':
            _PREC_CACHE[key] = np.diag(np.round(g.uniform(0.5, 3.0, size=n_ch), 3))
        else:
            s = spd(g, n_ch)
            _PREC_CACHE[key] = np.round((s + s.T) / 2.0, 4)
    return _PREC_CACHE[key].copy()


def _mk(values, container):
    return list(values) if container == 'list' else np.array(values)


def _np_dtype(dtype):
    return np.int64 if dtype == 'int' else float


def _ref_opts(mconf, prec):
    m = mconf['method']
    if m == 'mahalanobis':
        return {'precision': None if prec is None else prec.tolist(), 'remove_mean': mconf['rm']}
    if m == 'poisson':
        return {'prior_lambda': mconf['prior'][0], 'prior_weight': mconf['prior'][1],
                'remove_mean': mconf['rm']}
    return {'remove_mean': mconf['rm']}


def _lib_kwargs(mconf, noise, with_rm=True):
    kw = {'method': mconf['method']}
    if mconf['method'] == 'mahalanobis':
        kw['noise'] = noise
    if mconf['method'] == 'poisson':
        kw['prior_lambda'] = mconf['prior'][0]
        kw['prior_weight'] = mconf['prior'][1]
    if with_rm:
        kw['remove_mean'] = mconf['rm']
    return kw


# ----------------------------------------------------------------------------- library calls
def _raise_site(tb):
    """name of the innermost function of the tree under test on the traceback"""
    src = _runner.SRC.rstrip('/') + '/'
    site = 'outside-library'
    for fs in traceback.extract_tb(tb):
        if fs.filename.startswith(src):
            site = fs.name
    return site


def _call(ctx, op, cls, case, fn):
    """run one library call; an exception becomes a violation `op|cls|raises:Type@function`"""
    try:
        return True, fn()
    except (_runner.HarnessError, KeyboardInterrupt, SystemExit, MemoryError):
        raise
    except Exception as e:  # noqa: BLE001
        tb = sys.exc_info()[2]
        ctx.fail('%s|%s|raises:%s@%s' % (op, cls, type(e).__name__, _raise_site(tb)), case,
                 '%s: %s\n%s' % (type(e).__name__, e, ''.join(traceback.format_tb(tb)[-4:])))
        return False, None


# ----------------------------------------------------------------------------- arguments stay untouched
def _freeze(v):
    """bit-level, type-sensitive image of one argument (cheap: tuples and bytes, compared by ==)"""
    if isinstance(v, np.ndarray):
        if v.dtype == object:
            return ('nd', 'O', v.shape, repr(v.tolist()))
        return ('nd', v.dtype.str, v.shape, v.tobytes())
    if isinstance(v, dict):
        return ('dict',) + tuple((k, _freeze(x)) for k, x in v.items())
    if isinstance(v, (list, tuple)):
        if v and isinstance(v[0], np.ndarray):
            return (type(v).__name__,) + tuple(_freeze(x) for x in v)
        return (type(v).__name__, repr(v))
    return (type(v).__name__, repr(v))


def _snapshot(datasets, **arrays):
    """[(argument name, frozen image)] of every caller-owned argument of one estimator call"""
    out = []
    for ds in datasets:
        out.append(('dataset.measurements', _freeze(ds.measurements)))
        out.append(('dataset.obs_descriptors', _freeze(ds.obs_descriptors)))
        out.append(('dataset.descriptors', _freeze(ds.descriptors)))
        out.append(('dataset.channel_descriptors', _freeze(ds.channel_descriptors)))
        if hasattr(ds, 'time_descriptors'):
            out.append(('dataset.time_descriptors', _freeze(ds.time_descriptors)))
    for name, val in arrays.items():
        if val is not None:
            out.append((name, _freeze(val)))
    return out


def _check_untouched(ctx, case, op, cls, before, datasets, **arrays):
    """after the call: every argument bit-identical (values, dtypes, keys, container types)"""
    after = _snapshot(datasets, **arrays)
    if after == before:
        return True
    seen = set()
    for (name, x), (_, y) in zip(before, after):
        if x != y and name not in seen:
            seen.add(name)
            ctx.fail('%s|%s|modifies-argument:%s' % (op, cls, name), case,
                     'the call changed its argument %s in place (values, dtype, keys or container type)' % name)
    if not seen:
        ctx.fail('%s|%s|modifies-argument:structure' % (op, cls), case, 'number of argument parts changed')
    return False


def _acls(op, form, case, mconf):
    """configuration class for argument findings: the value class of the judge"""
    if op == 'calc_rdm_movie':
        return ('list-input,' if form.startswith('list-input') else '') + _mtag(mconf)
    return '%s,%s' % (form.split('(')[0], _mtag(mconf))


# ----------------------------------------------------------------------------- the oracle
def _mtag(mconf):
    s = 'method=%s' % mconf['method']
    if mconf.get('rm'):
        s += ',remove_mean'
    return s


def _desc_value(rdms, name, r):
    """value of dataset descriptor `name` for RDM r: rdm_descriptors first, then descriptors"""
    rd = rdms.rdm_descriptors
    if rd is not None and name in rd and rd[name] is not None:
        try:
            return True, rd[name][r]
        except Exception:
            return False, None
    if name in rdms.descriptors:
        return True, rdms.descriptors[name]
    return False, None


def _judge(ctx, case, op, form, mconf, rdms, models, keymode, r_to_model=None):
    """judge one returned RDMs object.

    models   one dict per expected RDM source: rows, keys (condition key per row: the label, or
             the row position), labels, extra (or None), subj, sess
    keymode  'label'    -> returned condition i is identified by pattern_descriptors['cond'][i]
             'position' -> returned condition i is row i of every dataset
    r_to_model  list: model index of RDM r (None -> identify through rdm descriptor 'subj')
    returns number of pair values compared
    """
    scls = '%s,%s' % (form, 'descriptor' if keymode == 'label' and case.get('desc') else 'no-descriptor')
    vcls = '%s,%s' % (form.split('(')[0], _mtag(mconf))
    if op == 'calc_rdm_movie':
        scls, vcls = form, _mtag(mconf)
        if form.startswith('list-input'):
            vcls = 'list-input,' + vcls
        elif AXIS_CLASS.get(case.get('taxis')):
            vcls += ',time-axis=' + AXIS_CLASS[case['taxis']]
    if case.get('scale') or case.get('nscale'):
        vcls += ',scaled'
    scaled = bool(case.get('scale') or case.get('nscale'))
    method = mconf['method']

    def fail(kind, msg, value=False):
        ctx.fail('%s|%s|%s' % (op, vcls if value else scls, kind), case, msg)

    n_rdm = rdms.n_rdm
    diss = np.asarray(rdms.dissimilarities)
    if n_rdm != len(models) or diss.shape[0] != len(models):
        fail('n-rdm', 'got %d RDMs for %d expected' % (n_rdm, len(models)))
        return 0
    # ---- returned conditions
    if keymode == 'label':
        ret = rdms.pattern_descriptors.get('cond')
        if ret is None:
            fail('labels-missing', 'no pattern descriptor for the condition descriptor')
            return 0
        ret = list(ret)
        union = []
        for m in models:
            for lab in m['keys']:
                if ref.find_label(lab, union) is None:
                    union.append(lab)
        if rdms.n_cond != len(union) or len(ret) != len(union):
            fail('n-cond', '%d conditions / %d labels returned for %d distinct labels' % (
                rdms.n_cond, len(ret), len(union)))
            return 0
        hit = [ref.find_label(lab, union) for lab in ret]
        if None in hit or len(set(hit)) != len(union):
            fail('labels', 'returned labels %r are not the distinct labels %r' % (ret, union))
            return 0
    else:
        n_obs = len(models[0]['rows'])
        if rdms.n_cond != n_obs:
            fail('n-cond', '%d conditions returned for %d observations' % (rdms.n_cond, n_obs))
            return 0
        ret = list(range(n_obs))
    n_cond = len(ret)
    if diss.shape[1] != n_cond * (n_cond - 1) // 2:
        fail('n-cond', 'vector length %d for %d conditions' % (diss.shape[1], n_cond))
        return 0
    # ---- which dataset does RDM r come from; dataset descriptors on the right RDM
    if r_to_model is None:
        if len(models) == 1:
            r_to_model = [0]
        else:
            r_to_model = []
            subjs = [m['subj'] for m in models]
            for r in range(n_rdm):
                ok, val = _desc_value(rdms, 'subj', r)
                pos = ref.find_label(val, subjs) if ok else None
                r_to_model.append(pos)
            if None in r_to_model or sorted(r_to_model) != list(range(len(models))):
                # cannot identify by descriptor: reported below as missing/wrong; assume input order
                r_to_model = list(range(len(models)))
    for r in range(n_rdm):
        m = models[r_to_model[r]]
        for name in ('subj', 'sess'):
            ok, val = _desc_value(rdms, name, r)
            if not ok:
                fail('rdm-descriptor-missing', 'dataset descriptor %r not on RDM %d (rdm_descriptors=%r, '
                     'descriptors=%r)' % (name, r, rdms.rdm_descriptors, rdms.descriptors))
            else:
                try:
                    same = bool(val == m[name])
                except Exception:
                    same = False
                if not same:
                    fail('rdm-descriptor-wrong', 'dataset descriptor %r of RDM %d is %r, dataset has %r' % (
                        name, r, val, m[name]))
    # ---- values per unordered pair of returned conditions
    judged = 0
    pairs = [(i, j) for i in range(n_cond) for j in range(i + 1, n_cond)]
    for r in range(n_rdm):
        m = models[r_to_model[r]]
        order, table = ref.expected_table(m['rows'], m['keys'], method, **m['opts'])
        mags = ref.magnitude_table(m['rows'], m['keys'], method, **m['opts']) if scaled else None
        where = [ref.find_label(lab, order) for lab in ret]
        for k, (i, j) in enumerate(pairs):
            got = diss[r, k]
            a, b = where[i], where[j]
            if a is None or b is None:
                if not np.isnan(got):
                    fail('value-for-absent-condition', 'RDM %d pair (%r,%r): %r, but the dataset has no such '
                         'condition (expected NaN)' % (r, ret[i], ret[j], got), value=True)
                continue
            want = table[(a, b) if a < b else (b, a)]
            if want is None:
                ctx.exclude('%s undefined for the pair (constant pattern / one channel)' % method)
                continue
            judged += 1
            if scaled:
                # data / precision not of order one: relative tolerance plus the rounding floor of the
                # terms the formula adds up (mc.ref.c01_ref.magnitude)
                allowed = TOL * abs(want) + TOL_MAG * mags[(a, b) if a < b else (b, a)]
                err = abs(float(got) - want)
                ctx.dev('scaled:' + method + ' (error/allowed)', err / allowed if allowed > 0 else float(err > 0))
                good = err <= allowed
            else:
                ctx.dev(method, reldev(got, want))
                good = close(got, want, TOL)
            if not good:
                fail('value-mismatch', 'RDM %d pair (%r,%r): got %.12g, formula on condition means %.12g' % (
                    r, ret[i], ret[j], got, want), value=True)
        if r == 0 and table:
            ctx.outcome([None if v is None else round(v, 6) for v in list(table.values())[:4]])
    # ---- other pattern descriptors that are present must carry the value shared by the rows
    names = []
    if models[0].get('extra') is not None:
        names.append('extra')
    if keymode == 'position' or not case.get('desc'):
        names.append('labels')
    for name in names:
        pname = 'cond' if name == 'labels' else name
        if keymode == 'label' and pname == 'cond':
            continue
        pd = rdms.pattern_descriptors.get(pname)
        if pd is None:
            ctx.count('pattern_descriptor_absent:%s' % pname)
            continue
        pd = list(pd)
        if len(pd) != n_cond:
            fail('pattern-descriptor-wrong', '%r has %d entries for %d conditions' % (pname, len(pd), n_cond))
            continue
        for r in range(n_rdm):
            m = models[r_to_model[r]]
            for i, key in enumerate(ret):
                vals = [v for v, kk in zip(m[name], m['keys']) if ref.find_label(key, [kk]) is not None]
                if not vals:
                    continue
                shared = all(v == vals[0] for v in vals)
                try:
                    same = shared and bool(pd[i] == vals[0])
                except Exception:
                    same = False
                if not same:
                    fail('pattern-descriptor-wrong', 'pattern descriptor %r of condition %r is %r; rows of '
                         'that condition in dataset %d carry %r' % (pname, key, pd[i], r_to_model[r], vals))
    return judged


# ----------------------------------------------------------------------------- single / values
def _single_model(case, seed):
    n, n_ch = case['n'], case['P']
    part = case['part']
    k = max(part) + 1
    names = _naming(k, case['naming'])
    perm = case.get('perm') or list(range(n))
    poisson = case['method'] == 'poisson'
    if case['kind'] == 'values':
        digits = []
        x = case['mat']
        for _ in range(n * n_ch):
            digits.append(x % 3)
            x //= 3
        digits = digits[::-1]
        base = [digits[o * n_ch:(o + 1) * n_ch] for o in range(n)]
    else:
        base = _fill(seed, (n, n_ch), case['dtype'], case['fill'], poisson, scale=case.get('scale'))
    labels_o = [names[part[o]] for o in range(n)]
    if case['extra'] == 'const':
        extra_o = [_extra_of(lab) for lab in labels_o]
    elif case['extra'] == 'vary':
        extra_o = [100 + o for o in range(n)]
    else:
        extra_o = None
    rows = [base[o] for o in perm]
    labels = [labels_o[o] for o in perm]
    extra = None if extra_o is None else [extra_o[o] for o in perm]
    return rows, labels, extra


def _run_single(case, ctx):
    from rsatoolbox.data import Dataset
    from rsatoolbox.rdm import calc_rdm
    rows, labels, extra = _single_model(case, ctx.seed)
    n_ch = case['P']
    mconf = case
    prec = _precision(case.get('prec', 'none'), n_ch, ctx.seed, nscale=case.get('nscale')) \
        if case['method'] == 'mahalanobis' else None
    desc = case['desc']
    obs = {'cond': _mk(labels, case['container'])}
    if extra is not None:
        obs['extra'] = _mk(extra, case['container'])
    ds = Dataset(np.array(rows, dtype=_np_dtype(case['dtype'])),
                 descriptors={'subj': 's1', 'sess': 3}, obs_descriptors=obs)
    form = 'single' if case['form'] == 'single' else 'list-input(n=1)'
    noise = None if prec is None else prec.copy()
    if case['form'] == 'list1':
        arg = [ds]
        if case.get('noiselist'):
            noise = [noise]
    else:
        arg = ds
    kw = _lib_kwargs(mconf, noise)
    cls = '%s,%s' % (form, 'descriptor' if desc else 'no-descriptor')
    snap = _snapshot([ds], noise=noise)
    ok, rdms = _call(ctx, 'calc_rdm', cls, case, lambda: calc_rdm(arg, descriptor=desc, **kw))
    _check_untouched(ctx, case, 'calc_rdm', _acls('calc_rdm', form, case, mconf), snap, [ds], noise=noise)
    judged = 0
    if ok:
        model = {'rows': rows, 'labels': labels, 'extra': extra, 'subj': 's1', 'sess': 3,
                 'keys': labels if desc else list(range(len(rows))), 'opts': _ref_opts(mconf, prec)}
        judged = _judge(ctx, case, 'calc_rdm', form, mconf, rdms, [model],
                        'label' if desc else 'position')
    ctx.case(case, nontrivial=judged > 0)


# ----------------------------------------------------------------------------- list of two
def _pair_models(case, seed):
    n_ch = case['P']
    poisson = case['method'] == 'poisson'
    p1, p2 = case['part1'], case['part2']
    k1, k2 = max(p1) + 1, max(p2) + 1
    pool = _naming(k1 + k2 + 1, case['naming'])
    off = {'same': 0, 'shift': 1, 'disjoint': k1}[case['offset']]
    names1, names2 = pool[:k1], pool[off:off + k2]
    out = []
    for which, (part, names) in enumerate(((p1, names1), (p2, names2))):
        n = len(part)
        base = _fill(seed, (n, n_ch), case['dtype'], case['fill'], poisson, key=which + 1,
                     scale=case.get('scale'))
        order = list(range(n))
        if which == 1 and case.get('perm2') == 'rev':
            order = order[::-1]
        rows = [base[o] for o in order]
        labels = [names[part[o]] for o in order]
        extra = [_extra_of(lab) for lab in labels] if case['extra'] == 'const' else None
        out.append({'rows': rows, 'labels': labels, 'extra': extra, 'keys': labels,
                    'subj': 's%d' % (which + 1), 'sess': 3})
    return out


def _noise_for_list(case, n_ch, seed, n_ds):
    """-> (noise argument for the library, list of per-dataset precisions for the reference)"""
    if case['method'] != 'mahalanobis':
        return None, [None] * n_ds
    if case['prec'] in ('perds', 'perdsdict'):
        precs = [_precision('full' if w % 2 == 0 else 'diag', n_ch, seed, which=w + 1,
                            nscale=case.get('nscale')) for w in range(n_ds)]
        if case['prec'] == 'perdsdict':      # a dict keyed by the position of the dataset in the list
            return {w: p.copy() for w, p in enumerate(precs)}, precs
        return [p.copy() for p in precs], precs
    prec = _precision(case['prec'], n_ch, seed, nscale=case.get('nscale'))
    return (None if prec is None else prec.copy()), [prec] * n_ds


def _datasets(models, case):
    from rsatoolbox.data import Dataset
    out = []
    for m in models:
        obs = {'cond': _mk(m['labels'], case['container'])}
        if m['extra'] is not None:
            obs['extra'] = _mk(m['extra'], case['container'])
        out.append(Dataset(np.array(m['rows'], dtype=_np_dtype(case['dtype'])),
                           descriptors={'subj': m['subj'], 'sess': m['sess']}, obs_descriptors=obs))
    return out


def _relation(models):
    a = set(map(str, models[0]['labels']))
    b = set(map(str, models[1]['labels']))
    if a == b:
        return 'equal'
    if a & b:
        return 'overlapping'
    return 'disjoint'


def _run_pair(case, ctx):
    from rsatoolbox.rdm import calc_rdm
    models = _pair_models(case, ctx.seed)
    noise, precs = _noise_for_list(case, case['P'], ctx.seed, 2)
    for m, p in zip(models, precs):
        m['opts'] = _ref_opts(case, p)
    dss = _datasets(models, case)
    kw = _lib_kwargs(case, noise)
    snap = _snapshot(dss, noise=noise)
    ok, rdms = _call(ctx, 'calc_rdm', 'list-input(n=2),descriptor', case,
                     lambda: calc_rdm(dss, descriptor='cond', **kw))
    _check_untouched(ctx, case, 'calc_rdm', _acls('calc_rdm', 'list-input', case, case), snap, dss, noise=noise)
    judged = 0
    if ok:
        judged = _judge(ctx, case, 'calc_rdm', 'list-input(n=2)', case, rdms, models, 'label')
    ctx.count('pair_relation=%s' % _relation(models))
    ctx.case(case, nontrivial=judged > 0)


def _stack_models(case, seed):
    n, n_ch = case['n'], case['P']
    poisson = case['method'] == 'poisson'
    part = case['part']
    names = _naming(max(part) + 1, case['naming'])
    labels = [names[g] for g in part]
    out = []
    for which in range(2):
        base = _fill(seed, (n, n_ch), case['dtype'], case['fill'], poisson, key=which + 1,
                     scale=case.get('scale'))
        order = list(range(n))
        if which == 1 and case['mode'] == 'unique':
            order = list(case['perm2'])
        rows = [base[o] for o in order]
        labs = [labels[o] for o in order]
        extra = [_extra_of(lab) for lab in labs] if case['extra'] == 'const' else None
        out.append({'rows': rows, 'labels': labs, 'extra': extra,
                    'keys': labs if case['mode'] == 'unique' else list(range(n)),
                    'subj': 's%d' % (which + 1), 'sess': 3})
    return out


def _run_stack(case, ctx):
    from rsatoolbox.rdm import calc_rdm
    models = _stack_models(case, ctx.seed)
    noise, precs = _noise_for_list(case, case['P'], ctx.seed, 2)
    for m, p in zip(models, precs):
        m['opts'] = _ref_opts(case, p)
    dss = _datasets(models, case)
    kw = _lib_kwargs(case, noise)
    snap = _snapshot(dss, noise=noise)
    ok, rdms = _call(ctx, 'calc_rdm', 'list-input(n=2),no-descriptor', case,
                     lambda: calc_rdm(dss, **kw))
    _check_untouched(ctx, case, 'calc_rdm', _acls('calc_rdm', 'list-input', case, case), snap, dss, noise=noise)
    judged = 0
    if ok:
        judged = _judge(ctx, case, 'calc_rdm', 'list-input(n=2)', case, rdms, models,
                        'label' if case['mode'] == 'unique' else 'position')
    ctx.case(case, nontrivial=judged > 0)


# ----------------------------------------------------------------------------- movies
def _movie_cls(case):
    flags = []
    if case['P'] == 1:
        flags.append('single-channel')
    if case['n'] == 1:
        flags.append('single-observation')
    if case.get('tcont') == 'list':
        flags.append('time-descriptor=list')
    if case.get('bins') is not None and case.get('binrep') == 'lists':
        flags.append('bins=list-of-lists')
    if AXIS_CLASS.get(case.get('taxis')):
        flags.append('time-axis=' + AXIS_CLASS[case['taxis']])
    return ','.join(flags) or 'general'


def _run_movie(case, ctx):
    from rsatoolbox.data import TemporalDataset
    from rsatoolbox.rdm import calc_rdm_movie
    n, n_ch, nt = case['n'], case['P'], case['nt']
    poisson = case['method'] == 'poisson'
    part = case['part']
    names = _naming(max(part) + 1, case['naming'])
    labels = [names[g] for g in part]
    extra = [_extra_of(lab) for lab in labels] if case['extra'] == 'const' else None
    data = _fill(ctx.seed, (n, n_ch, nt), 'float', case['fill'], poisson, scale=case.get('scale'))
    times = _time_axis(case.get('taxis', 'small'), nt, case['torder'])
    groups = case['bins'] if case['bins'] is not None else [[t] for t in range(nt)]
    prec = _precision(case.get('prec', 'none'), n_ch, ctx.seed, nscale=case.get('nscale')) \
        if case['method'] == 'mahalanobis' else None
    opts = _ref_opts(dict(case, rm=False), prec)
    desc = case['desc']
    models = []
    for grp in groups:
        models.append({'rows': ref.time_slice(data, grp), 'labels': labels, 'extra': extra,
                       'keys': labels if desc else list(range(n)), 'subj': 's1', 'sess': 3,
                       'time': ref.bin_time_value(times, grp), 'opts': opts})
    obs = {'cond': _mk(labels, case['container'])}
    if extra is not None:
        obs['extra'] = _mk(extra, case['container'])
    tds = TemporalDataset(np.array(data, dtype=float), descriptors={'subj': 's1', 'sess': 3},
                          obs_descriptors=obs,
                          time_descriptors={'time': _mk(times, case.get('tcont', 'nd'))})
    bins = None
    if case['bins'] is not None:
        if case.get('binrep') == 'lists':
            bins = [[times[t] for t in grp] for grp in case['bins']]
        else:
            bins = [np.array([times[t] for t in grp]) for grp in case['bins']]
    noise = None if prec is None else prec.copy()
    kw = _lib_kwargs(dict(case, rm=False), noise, with_rm=False)
    cls = _movie_cls(case)
    snap = _snapshot([tds], noise=noise, bins=bins)
    ok, rdms = _call(ctx, 'calc_rdm_movie', cls, case,
                     lambda: calc_rdm_movie(tds, descriptor=desc, time_descriptor='time', bins=bins, **kw))
    _check_untouched(ctx, case, 'calc_rdm_movie', _acls('calc_rdm_movie', cls, case, dict(case, rm=False)),
                     snap, [tds], noise=noise, bins=bins)
    judged = 0
    if ok:
        # structural findings are classed by the number of (binned) time points only
        form = 'single-time-point' if len(models) == 1 else 'multiple-time-points'
        # which (binned) time point does RDM r claim to be
        r_to_model = None
        tvals = rdms.rdm_descriptors.get('time')
        if rdms.n_rdm != len(models):
            ctx.fail('calc_rdm_movie|%s|n-rdm' % form, case, '%d RDMs for %d (binned) time points' % (
                rdms.n_rdm, len(models)))
        elif tvals is None:
            ctx.fail('calc_rdm_movie|%s|rdm-time-label' % form, case, 'no rdm descriptor for the time points')
        else:
            r_to_model = []
            for r in range(rdms.n_rdm):
                hit = [i for i, m in enumerate(models) if _same_time(tvals[r], m['time'])]
                r_to_model.append(hit[0] if len(hit) == 1 else None)
            if None in r_to_model or sorted(r_to_model) != list(range(len(models))):
                ctx.fail('calc_rdm_movie|%s|rdm-time-label' % form, case,
                         'time labels %r of the RDMs are not the (binned) time points %r' % (
                             list(tvals), [m['time'] for m in models]))
                r_to_model = None
        if r_to_model is not None:
            judged = _judge(ctx, case, 'calc_rdm_movie', form, dict(case, rm=False), rdms, models,
                            'label' if desc else 'position', r_to_model=r_to_model)
    ctx.case(case, nontrivial=judged > 0)


# ----------------------------------------------------------------------------- sequences on one object
def _run_sequence(case, ctx):
    """case['steps'] = list of [method configuration, form]; all steps use the SAME dataset object.

    The reference is computed from the Python-side copy of the data that was supplied (never from
    the dataset object), so a call that alters its input makes every later result wrong here; in
    addition the dataset (measurements and all descriptors) and the shared precision matrix must
    be bit-identical after every call.
    """
    from rsatoolbox.data import Dataset, TemporalDataset
    from rsatoolbox.rdm import calc_rdm, calc_rdm_movie
    movie = case.get('nt') is not None
    n, n_ch = case['n'], case['P']
    desc = case['desc']
    names = _naming(max(case['part']) + 1, case['naming'])
    labels = [names[g] for g in case['part']]
    extra = [_extra_of(lab) for lab in labels] if case['extra'] == 'const' else None
    obs = {'cond': _mk(labels, case['container'])}
    if extra is not None:
        obs['extra'] = _mk(extra, case['container'])
    dsc = {'subj': 's1', 'sess': 3}
    if movie:
        nt = case['nt']
        data = _fill(ctx.seed, (n, n_ch, nt), case['dtype'], case['fill'], False)
        times = TIMES[:nt]
        ds = TemporalDataset(np.array(data, dtype=_np_dtype(case['dtype'])), descriptors=dsc,
                             obs_descriptors=obs, time_descriptors={'time': np.array(times)})
        groups = case['bins'] if case.get('bins') is not None else [[t] for t in range(nt)]
        bins = None if case.get('bins') is None else [np.array([times[t] for t in g]) for g in case['bins']]
    else:
        rows = _fill(ctx.seed, (n, n_ch), case['dtype'], case['fill'], False)
        ds = Dataset(np.array(rows, dtype=_np_dtype(case['dtype'])), descriptors=dsc, obs_descriptors=obs)
    keys = labels if desc else list(range(n))
    precs = {}
    history = []
    for si, (mconf, form) in enumerate(case['steps']):
        sub = dict(case, step=si)
        prec = None
        if mconf['method'] == 'mahalanobis' and mconf.get('prec', 'none') != 'none':
            if mconf['prec'] not in precs:        # one precision object per kind, shared by all steps
                precs[mconf['prec']] = (_precision(mconf['prec'], n_ch, ctx.seed),
                                        _precision(mconf['prec'], n_ch, ctx.seed))
            prec = precs[mconf['prec']][0]
        ref_prec = None if prec is None else precs[mconf['prec']][1]     # never handed to the library
        mm = dict(mconf, rm=bool(mconf.get('rm')) and not movie)
        opts = _ref_opts(mm, ref_prec)
        before = _snapshot([ds], noise=prec, bins=bins if movie else None)
        tag = _mtag(mm)
        if movie:
            kw = _lib_kwargs(mm, prec, with_rm=False)
            ok, rdms = _call(ctx, 'calc_rdm_movie', 'sequence-on-one-dataset', sub,
                             lambda: calc_rdm_movie(ds, descriptor=desc, time_descriptor='time', bins=bins, **kw))
            models = [{'rows': ref.time_slice(data, g), 'labels': labels, 'extra': extra, 'keys': keys,
                       'subj': 's1', 'sess': 3, 'time': ref.bin_time_value(times, g), 'opts': opts}
                      for g in groups]
        else:
            kw = _lib_kwargs(mm, prec)
            if form == 'single':
                arg, n_models = ds, 1
            elif form == 'list1':
                arg, n_models = [ds], 1
            else:                                   # 'twice': the same object two times in one list
                arg, n_models = [ds, ds], 2
            ok, rdms = _call(ctx, 'calc_rdm', 'sequence-on-one-dataset', sub,
                             lambda: calc_rdm(arg, descriptor=desc, **kw))
            models = [{'rows': rows, 'labels': labels, 'extra': extra, 'keys': keys, 'subj': 's1',
                       'sess': 3, 'opts': opts} for _ in range(n_models)]
        judged = 0
        if ok:
            r_to_model = None
            if movie:
                tvals = rdms.rdm_descriptors.get('time')
                if tvals is not None and rdms.n_rdm == len(models):
                    r_to_model = []
                    for r in range(rdms.n_rdm):
                        hit = [i for i, m in enumerate(models) if _same_time(tvals[r], m['time'])]
                        r_to_model.append(hit[0] if len(hit) == 1 else None)
                    if None in r_to_model or sorted(r_to_model) != list(range(len(models))):
                        r_to_model = None
                if r_to_model is None:
                    ctx.fail('calc_rdm_movie|sequence-on-one-dataset|rdm-time-label', sub,
                             'time labels %r after calls %r' % (tvals, history))
            elif n_models == 2:
                r_to_model = [0, 1]
            if not movie or r_to_model is not None:
                nfail = sum(f['count'] for f in ctx.fails.values())
                judged = _judge(ctx, dict(sub, history=list(history)), 'calc_rdm_movie' if movie else 'calc_rdm',
                                'sequence-on-one-dataset', mm, rdms, models, 'label' if desc else 'position',
                                r_to_model=r_to_model)
                if sum(f['count'] for f in ctx.fails.values()) > nfail:
                    ctx.count('sequence_step_failed_after:%s' % (history[-1] if history else 'nothing'))
        _check_untouched(ctx, dict(sub, history=list(history)), 'calc_rdm_movie' if movie else 'calc_rdm',
                         'sequence-on-one-dataset,%s' % tag, before, [ds], noise=prec,
                         bins=bins if movie else None)
        history.append('%s/%s' % (tag, form))
        ctx.case(dict(case, step=si), nontrivial=judged > 0)


# ----------------------------------------------------------------------------- movies of lists / unbalanced
def _run_movielist(case, ctx):
    """calc_rdm_movie on a LIST of 1-2 TemporalDatasets (same conditions): every frame of every
    dataset against the per-time-point formula, identified by the returned subj and time labels"""
    from rsatoolbox.data import TemporalDataset
    from rsatoolbox.rdm import calc_rdm_movie
    n, n_ch, nt, nds = case['n'], case['P'], case['nt'], case['nds']
    poisson = case['method'] == 'poisson'
    names = _naming(max(case['part']) + 1, case['naming'])
    labels = [names[g] for g in case['part']]
    desc = case['desc']
    tname = case.get('tname', 'time')
    times = _time_axis(case.get('taxis', 'small'), nt, case['torder'])
    alt = [10.0 * t + 5.0 for t in times]
    tused = times if tname == 'time' else alt
    groups = case['bins'] if case['bins'] is not None else [[t] for t in range(nt)]
    noise, precs = _noise_for_list(case, n_ch, ctx.seed, nds)
    dss, models = [], []
    for which in range(nds):
        data = _fill(ctx.seed, (n, n_ch, nt), 'float', case['fill'], poisson, key=which + 1)
        order = list(range(n))
        if which == 1 and case.get('perm2') == 'rev':
            order = order[::-1]
        data_o = [data[o] for o in order]
        labs = [labels[o] for o in order]
        extra = [_extra_of(lab) for lab in labs] if case['extra'] == 'const' else None
        obs = {'cond': _mk(labs, case['container'])}
        if extra is not None:
            obs['extra'] = _mk(extra, case['container'])
        tdesc = {'time': np.array(times)}
        if tname != 'time':
            tdesc[tname] = np.array(alt)
        dss.append(TemporalDataset(np.array(data_o, dtype=float), descriptors={'subj': 's%d' % (which + 1), 'sess': 3},
                                   obs_descriptors=obs, time_descriptors=tdesc))
        opts = _ref_opts(dict(case, rm=False), precs[which])
        for grp in groups:
            models.append({'rows': ref.time_slice(data_o, grp), 'labels': labs, 'extra': extra,
                           'keys': labs if desc else list(range(n)), 'subj': 's%d' % (which + 1), 'sess': 3,
                           'time': ref.bin_time_value(tused, grp), 'opts': opts})
    bins = None if case['bins'] is None else [np.array([tused[t] for t in grp]) for grp in case['bins']]
    mm = dict(case, rm=False)
    kw = _lib_kwargs(mm, noise, with_rm=False)
    cls = 'list-input' + (',time_descriptor=other' if tname != 'time' else (',bins' if bins is not None else ''))
    snap = _snapshot(dss, noise=noise, bins=bins)
    ok, rdms = _call(ctx, 'calc_rdm_movie', cls, case,
                     lambda: calc_rdm_movie(dss, descriptor=desc, time_descriptor=tname, bins=bins, **kw))
    _check_untouched(ctx, case, 'calc_rdm_movie', _acls('calc_rdm_movie', cls, case, mm), snap, dss,
                     noise=noise, bins=bins)
    judged = 0
    if ok:
        tvals = rdms.rdm_descriptors.get(tname)
        if rdms.n_rdm != len(models):
            ctx.fail('calc_rdm_movie|%s|n-rdm' % cls, case, '%d RDMs for %d datasets x %d (binned) time points' % (
                rdms.n_rdm, nds, len(groups)))
        elif tvals is None:
            ctx.fail('calc_rdm_movie|%s|rdm-time-label' % cls, case,
                     'no rdm descriptor %r for the time points (rdm_descriptors: %r)' % (
                         tname, sorted(rdms.rdm_descriptors)))
        else:
            r_to_model = []
            for r in range(rdms.n_rdm):
                oks, subj = _desc_value(rdms, 'subj', r)
                hit = [i for i, m in enumerate(models) if _same_time(tvals[r], m['time']) and
                       (nds == 1 or (oks and ref.find_label(subj, [m['subj']]) is not None))]
                r_to_model.append(hit[0] if len(hit) == 1 else None)
            if None in r_to_model or sorted(r_to_model) != list(range(len(models))):
                ctx.fail('calc_rdm_movie|%s|rdm-time-label' % cls, case,
                         'the (subj, time) labels of the RDMs %r are not the datasets x (binned) time points %r' % (
                             [(_desc_value(rdms, 'subj', r)[1], tvals[r]) for r in range(rdms.n_rdm)],
                             [(m['subj'], m['time']) for m in models]))
            else:
                judged = _judge(ctx, case, 'calc_rdm_movie', cls, mm, rdms, models,
                                'label' if desc else 'position', r_to_model=r_to_model)
    ctx.case(case, nontrivial=judged > 0)


def _run_movieunb(case, ctx):
    """calc_rdm_movie(unbalanced=True) == stack of calc_rdm_unbalanced at each (binned) time point.
    The per-frame estimator itself belongs to another property; here only the stacking is judged:
    frame with time label t must equal calc_rdm_unbalanced of the data (bin mean) at t."""
    from rsatoolbox.data import Dataset, TemporalDataset
    from rsatoolbox.rdm import calc_rdm_movie, calc_rdm_unbalanced
    n, n_ch, nt = case['n'], case['P'], case['nt']
    poisson = case['method'] == 'poisson'
    names = _naming(max(case['part']) + 1, case['naming'])
    labels = [names[g] for g in case['part']]
    desc = case['desc']
    data = _fill(ctx.seed, (n, n_ch, nt), 'float', case['fill'], poisson)
    times = _time_axis(case.get('taxis', 'small'), nt, case['torder'])
    groups = case['bins'] if case['bins'] is not None else [[t] for t in range(nt)]
    prec = _precision(case.get('prec', 'none'), n_ch, ctx.seed) if case['method'] == 'mahalanobis' else None
    tds = TemporalDataset(np.array(data, dtype=float), descriptors={'subj': 's1', 'sess': 3},
                          obs_descriptors={'cond': _mk(labels, case['container'])},
                          time_descriptors={'time': np.array(times)})
    bins = None if case['bins'] is None else [np.array([times[t] for t in grp]) for grp in case['bins']]
    mm = dict(case, rm=False)
    noise = None if prec is None else prec.copy()
    kw = _lib_kwargs(mm, noise, with_rm=False)
    snap = _snapshot([tds], noise=noise, bins=bins)
    ucls = 'unbalanced,list-input' if case.get('aslist') else 'unbalanced'
    arg = [tds] if case.get('aslist') else tds
    ok, rdms = _call(ctx, 'calc_rdm_movie', ucls, case,
                     lambda: calc_rdm_movie(arg, descriptor=desc, bins=bins, unbalanced=True, **kw))
    _check_untouched(ctx, case, 'calc_rdm_movie', ucls + ',' + _mtag(mm), snap, [tds], noise=noise, bins=bins)
    judged = 0
    if ok:
        tvals = rdms.rdm_descriptors.get('time')
        got_labels = list(rdms.pattern_descriptors['cond']) if desc else list(range(rdms.n_cond))
        if rdms.n_rdm != len(groups) or tvals is None:
            ctx.fail('calc_rdm_movie|%s|' % ucls + 'n-rdm', case, '%d RDMs for %d (binned) time points' % (
                rdms.n_rdm, len(groups)))
        else:
            for grp in groups:
                want_t = ref.bin_time_value(times, grp)
                hit = [r for r in range(rdms.n_rdm) if _same_time(tvals[r], want_t)]
                if len(hit) != 1:
                    ctx.fail('calc_rdm_movie|%s|' % ucls + 'rdm-time-label', case,
                             'time labels %r, expected one frame at %r' % (list(tvals), want_t))
                    continue
                frame = Dataset(np.array(ref.time_slice(data, grp), dtype=float),
                                obs_descriptors={'cond': _mk(labels, case['container'])})
                kwf = _lib_kwargs(mm, None if prec is None else prec.copy(), with_rm=False)
                okf, exp = _call(ctx, 'calc_rdm_unbalanced', 'per-frame reference call', case,
                                 lambda: calc_rdm_unbalanced(frame, descriptor=desc, **kwf))
                if not okf:
                    continue
                exp_labels = list(exp.pattern_descriptors['cond']) if desc else list(range(exp.n_cond))
                if exp.n_cond != rdms.n_cond:
                    ctx.fail('calc_rdm_movie|%s|' % ucls + 'n-cond', case, '%d conditions, per-frame call has %d' % (
                        rdms.n_cond, exp.n_cond))
                    continue
                where = [ref.find_label(lab, exp_labels) for lab in got_labels]
                nc = rdms.n_cond
                for i in range(nc):
                    for j in range(i + 1, nc):
                        g = rdms.dissimilarities[hit[0], ref.vector_position(i, j, nc)]
                        if where[i] is None or where[j] is None:
                            ctx.fail('calc_rdm_movie|%s|' % ucls + 'labels', case, 'labels %r vs per-frame %r' % (
                                got_labels, exp_labels))
                            continue
                        w = exp.dissimilarities[0, ref.vector_position(where[i], where[j], nc)]
                        judged += 1
                        if not close(g, w, TOL):
                            ctx.fail('calc_rdm_movie|%s,%s|frame-differs-from-per-time-point-RDM' % (ucls, _mtag(mm)),
                                     case, 'frame at time %r, pair (%r,%r): movie %.12g, calc_rdm_unbalanced of that '
                                     'time point %.12g' % (want_t, got_labels[i], got_labels[j], g, w))
            for name in ('subj', 'sess'):
                for r in range(rdms.n_rdm):
                    okd, val = _desc_value(rdms, name, r)
                    if not okd or not bool(val == {'subj': 's1', 'sess': 3}[name]):
                        ctx.fail('calc_rdm_movie|%s|' % ucls + 'rdm-descriptor-%s' % ('wrong' if okd else 'missing'), case,
                                 'dataset descriptor %r on RDM %d: %r' % (name, r, val))
    ctx.case(case, nontrivial=judged > 0)


# ----------------------------------------------------------------------------- homogeneity law
EXTREME_SCALES = (1e-9, 1e-12, 1e8)
HOMOG_DEGREE = {'euclidean': 2, 'mahalanobis': 2, 'correlation': 0}


def _run_homog(case, ctx):
    """calc_rdm(c * data) == c^degree * calc_rdm(data) (degree 2 for euclidean / mahalanobis, 0 for
    correlation), two real calls compared per pair of returned labels.  Tolerance purely relative:
    1e-9 of the value plus the rounding floor 1e-12 * magnitude of the terms summed for the scaled data."""
    from rsatoolbox.data import Dataset
    from rsatoolbox.rdm import calc_rdm
    c = case['c']
    method = case['method']
    deg = HOMOG_DEGREE[method]
    n_ch = case['P']
    desc = case['desc']
    rows1, labels, extra = _single_model(dict(case, kind='single', scale=None), ctx.seed)
    rows2, _, _ = _single_model(dict(case, kind='single', scale=c), ctx.seed)
    prec = _precision(case.get('prec', 'none'), n_ch, ctx.seed) if method == 'mahalanobis' else None
    res = []
    for rows in (rows1, rows2):
        obs = {'cond': _mk(labels, case['container'])}
        if extra is not None:
            obs['extra'] = _mk(extra, case['container'])
        ds = Dataset(np.array(rows, dtype=float), descriptors={'subj': 's1', 'sess': 3}, obs_descriptors=obs)
        noise = None if prec is None else prec.copy()
        kw = _lib_kwargs(case, noise)
        arg = [ds] if case['form'] == 'list1' else ds
        form = 'single' if case['form'] == 'single' else 'list-input(n=1)'
        snap = _snapshot([ds], noise=noise)
        ok, rdms = _call(ctx, 'calc_rdm', '%s,%s' % (form, 'descriptor' if desc else 'no-descriptor'), case,
                         lambda: calc_rdm(arg, descriptor=desc, **kw))
        _check_untouched(ctx, case, 'calc_rdm', _acls('calc_rdm', form, case, case) + ',scaled', snap, [ds], noise=noise)
        if not ok:
            ctx.case(case, nontrivial=False)
            return
        res.append(rdms)
    r1, r2 = res
    vcls = '%s,%s,scaled' % (case['form'] if case['form'] == 'single' else 'list-input', _mtag(case))
    keys = labels if desc else list(range(len(rows1)))
    l1 = list(r1.pattern_descriptors['cond']) if desc else list(range(r1.n_cond))
    l2 = list(r2.pattern_descriptors['cond']) if desc else list(range(r2.n_cond))
    judged = 0
    if r1.n_cond != r2.n_cond or r1.n_rdm != 1 or r2.n_rdm != 1:
        ctx.fail('calc_rdm|%s|not-homogeneous' % vcls, case, 'shapes differ: %d vs %d conditions' % (r1.n_cond, r2.n_cond))
    else:
        order, means_unused = ref.condition_means(rows2, keys)
        mags = ref.magnitude_table(rows2, keys, method, **_ref_opts(case, prec))
        defined = ref.expected_table(rows2, keys, method, **_ref_opts(case, prec))[1]
        nc = r2.n_cond
        where1 = [ref.find_label(lab, l1) for lab in l2]
        wherem = [ref.find_label(lab, order) for lab in l2]
        for i in range(nc):
            for j in range(i + 1, nc):
                if where1[i] is None or where1[j] is None or wherem[i] is None or wherem[j] is None:
                    ctx.fail('calc_rdm|%s|not-homogeneous' % vcls, case, 'labels differ: %r vs %r' % (l1, l2))
                    continue
                a, b = sorted((wherem[i], wherem[j]))
                if defined[(a, b)] is None:
                    ctx.exclude('%s undefined for the pair (constant pattern / one channel)' % method)
                    continue
                got = float(r2.dissimilarities[0, ref.vector_position(i, j, nc)])
                base = float(r1.dissimilarities[0, ref.vector_position(where1[i], where1[j], nc)])
                want = (c ** deg) * base
                allowed = TOL * abs(want) + TOL_MAG * mags[(a, b)]
                err = abs(got - want)
                judged += 1
                ctx.dev('homogeneity:' + method + ' (error/allowed)', err / allowed if allowed > 0 else float(err > 0))
                if not err <= allowed:
                    ctx.fail('calc_rdm|%s|not-homogeneous' % vcls, case,
                             'pair (%r,%r): calc_rdm(c*data) = %.12g but c^%d * calc_rdm(data) = %.12g (c = %g)' % (
                                 l2[i], l2[j], got, deg, want, c))
    ctx.case(case, nontrivial=judged > 0)


# ----------------------------------------------------------------------------- dataset-level descriptor menus
# one dict of dataset-level descriptors per dataset of the list (scalars only: str / int / float / bool)
DESC_MENUS = {
    3: [
        ('same-keys', [{'subj': 'a', 'session': 1}, {'subj': 'b', 'session': 2}, {'subj': 'c', 'session': 3}]),
        ('same-keys,repeated-values', [{'subj': 'a', 'session': 1}, {'subj': 'b', 'session': 1}, {'subj': 'a', 'session': 2}]),
        ('all-equal', [{'subj': 'a', 'session': 1}, {'subj': 'a', 'session': 1}, {'subj': 'a', 'session': 1}]),
        ('key-missing-first', [{'subj': 'a'}, {'subj': 'b', 'session': 2}, {'subj': 'c', 'session': 3}]),
        ('key-missing-middle', [{'subj': 'a', 'session': 1}, {'subj': 'b'}, {'subj': 'c', 'session': 3}]),
        ('key-missing-last', [{'subj': 'a', 'session': 1}, {'subj': 'b', 'session': 2}, {'subj': 'c'}]),
        ('key-only-middle', [{'subj': 'a'}, {'subj': 'b', 'session': 2}, {'subj': 'c'}]),
        ('key-missing-first-two', [{}, {'subj': 'b'}, {'subj': 'c', 'session': 3}]),
        ('disjoint-keys', [{'subj': 'a'}, {'run': 2}, {'site': 'x', 'scanner': 7.5}]),
        ('mixed-types', [{'subj': 'a', 'session': 1}, {'subj': 2, 'session': 's2'}, {'subj': 3.5, 'session': True}]),
        ('empty-ends', [{}, {'subj': 'b', 'session': 2}, {}]),
    ],
    2: [
        ('same-keys', [{'subj': 'a', 'session': 1}, {'subj': 'b', 'session': 2}]),
        ('all-equal', [{'subj': 'a', 'session': 1}, {'subj': 'a', 'session': 1}]),
        ('key-missing-first', [{'subj': 'a'}, {'subj': 'b', 'session': 2}]),
        ('key-missing-last', [{'subj': 'a', 'session': 1}, {'subj': 'b'}]),
        ('disjoint-keys', [{'subj': 'a'}, {'run': 2}]),
        ('mixed-types', [{'subj': 'a', 'session': 1}, {'subj': 2, 'session': 's2'}]),
        ('empty-first', [{}, {'subj': 'b', 'session': 2}]),
    ],
}


def _same_value(got, want):
    """same descriptor value: equal and of the same kind (a string is not a number)"""
    if isinstance(got, np.generic):
        got = got.item()
    if isinstance(want, str) != isinstance(got, str) or isinstance(want, bool) != isinstance(got, bool):
        return False
    try:
        return bool(got == want)
    except Exception:
        return False


def _run_dsdesc(case, ctx):
    """lists of 2-3 datasets with different dataset-level descriptor dicts: every returned RDM is identified
    by its VALUES (per-dataset reference) and must carry exactly the descriptors of that dataset; a key the
    dataset does not have must be None / absent - never the value of another dataset"""
    from rsatoolbox.data import Dataset, TemporalDataset
    from rsatoolbox.rdm import calc_rdm, calc_rdm_movie
    route = case['route']            # 'descriptor' | 'no-descriptor' | 'movie' | 'movie-unbalanced'
    menu = dict(DESC_MENUS[case['nds']])[case['menu']]
    nds, n, n_ch = case['nds'], case['n'], case['P']
    movie = route.startswith('movie')
    desc = None if route == 'no-descriptor' else 'cond'
    names = _naming(max(case['part']) + 1, case['naming'])
    labels = [names[g] for g in case['part']]
    nt = case.get('nt', 2)
    times = _time_axis('small', nt, 'asc')
    groups = (case.get('bins') or [[t] for t in range(nt)]) if movie else [None]
    noise, precs = _noise_for_list(case, n_ch, ctx.seed, nds)
    dss, models = [], []
    for which in range(nds):
        shape = (n, n_ch, nt) if movie else (n, n_ch)
        data = _fill(ctx.seed, shape, 'float', 0, False, key=which + 1)
        order = list(range(n))
        if desc and which % 2 == 1:
            order = order[::-1]
        data_o = [data[o] for o in order]
        labs = [labels[o] for o in order]
        obs = {'cond': _mk(labs, case['container'])}
        ddesc = dict(menu[which])
        if movie:
            dss.append(TemporalDataset(np.array(data_o, dtype=float), descriptors=dict(ddesc), obs_descriptors=obs,
                                       time_descriptors={'time': np.array(times)}))
        else:
            dss.append(Dataset(np.array(data_o, dtype=float), descriptors=dict(ddesc), obs_descriptors=obs))
        for grp in groups:
            models.append({'rows': ref.time_slice(data_o, grp) if movie else data_o,
                           'keys': labs if desc else list(range(n)), 'ddesc': ddesc, 'which': which,
                           'time': ref.bin_time_value(times, grp) if movie else None,
                           'opts': _ref_opts(dict(case, rm=False), precs[which])})
    mm = dict(case, rm=False)
    op = 'calc_rdm_movie' if movie else 'calc_rdm'
    cls = ('unbalanced,' if route == 'movie-unbalanced' else '') + 'list-input,dataset-descriptors'
    snap = _snapshot(dss, noise=noise)
    if movie:
        bins = None if case.get('bins') is None else [np.array([times[t] for t in g]) for g in case['bins']]
        kw = _lib_kwargs(mm, noise, with_rm=False)
        ok, rdms = _call(ctx, op, cls, case, lambda: calc_rdm_movie(
            dss, descriptor=desc, bins=bins, unbalanced=(route == 'movie-unbalanced'), **kw))
    else:
        kw = _lib_kwargs(mm, noise)
        ok, rdms = _call(ctx, op, cls, case, lambda: calc_rdm(dss, descriptor=desc, **kw))
    _check_untouched(ctx, case, op, cls, snap, dss, noise=noise)
    judged = 0
    if ok:
        judged = _judge_dsdesc(ctx, case, op, cls, rdms, models, desc, movie)
    ctx.case(case, nontrivial=judged > 0)


def _judge_dsdesc(ctx, case, op, cls, rdms, models, desc, movie):
    def fail(kind, msg):
        ctx.fail('%s|%s|%s' % (op, cls, kind), case, msg)

    if rdms.n_rdm != len(models):
        fail('n-rdm', '%d RDMs for %d expected' % (rdms.n_rdm, len(models)))
        return 0
    ret = list(rdms.pattern_descriptors['cond']) if desc else list(range(rdms.n_cond))
    nc = len(ret)
    tables = []
    for m in models:
        order, table = ref.expected_table(m['rows'], m['keys'], case['method'], **m['opts'])
        where = [ref.find_label(lab, order) for lab in ret]
        tables.append((where, table))
    # ---- identify every RDM by its values
    source = []
    for r in range(rdms.n_rdm):
        cands = []
        for mi, (where, table) in enumerate(tables):
            if None in where or len(where) != len(set(where)):
                continue
            n_ok = n_def = 0
            for i in range(nc):
                for j in range(i + 1, nc):
                    a, b = sorted((where[i], where[j]))
                    want = table[(a, b)]
                    if want is None:
                        continue
                    n_def += 1
                    n_ok += close(rdms.dissimilarities[r, ref.vector_position(i, j, nc)], want, TOL)
            if n_def and n_ok == n_def:
                cands.append(mi)
        source.append(cands[0] if len(cands) == 1 else None)
    if None in source or sorted(source) != list(range(len(models))):
        fail('unidentifiable', 'the values of the returned RDMs do not identify one dataset%s each: %r' % (
            ' x time point' if movie else '', source))
        return 0
    # ---- every RDM carries the dataset-level descriptors of its own dataset, nothing of another one
    allkeys = []
    for m in models:
        for k in m['ddesc']:
            if k not in allkeys:
                allkeys.append(k)
    for r, mi in enumerate(source):
        m = models[mi]
        for k in allkeys:
            present, val = _desc_value(rdms, k, r)
            if k in m['ddesc']:
                if not present or val is None:
                    fail('rdm-descriptor-missing', 'RDM %d was computed from dataset %d whose descriptor %r = %r; '
                         'returned: %s' % (r, m['which'], k, m['ddesc'][k], 'absent' if not present else 'None'))
                elif not _same_value(val, m['ddesc'][k]):
                    other = [o['which'] for o in models if k in o['ddesc'] and _same_value(val, o['ddesc'][k])]
                    fail('rdm-descriptor-of-another-dataset' if other else 'rdm-descriptor-wrong',
                         'RDM %d was computed from dataset %d whose descriptor %r = %r, but it is labelled %r%s' % (
                             r, m['which'], k, m['ddesc'][k], val,
                             ' (the value of dataset %r)' % other if other else ''))
            elif present and val is not None and not (isinstance(val, float) and val != val):
                other = [o['which'] for o in models if k in o['ddesc'] and _same_value(val, o['ddesc'][k])]
                fail('rdm-descriptor-of-another-dataset' if other else 'rdm-descriptor-wrong',
                     'RDM %d was computed from dataset %d which has no descriptor %r, but it is labelled %r%s' % (
                         r, m['which'], k, val, ' (the value of dataset %r)' % other if other else ''))
        if movie:
            tv = rdms.rdm_descriptors.get('time')
            if tv is None or not _same_time(tv[r], m['time']):
                fail('rdm-time-label', 'RDM %d holds the values of time point %r of dataset %d but is labelled %r' % (
                    r, m['time'], m['which'], None if tv is None else tv[r]))
    return rdms.n_rdm


# ----------------------------------------------------------------------------- dispatch
def run_case(case, ctx):
    kind = case['kind']
    if kind in ('single', 'values'):
        _run_single(case, ctx)
    elif kind == 'pair':
        _run_pair(case, ctx)
    elif kind == 'stack':
        _run_stack(case, ctx)
    elif kind == 'movie':
        _run_movie(case, ctx)
    elif kind == 'sequence':
        _run_sequence(case, ctx)
    elif kind == 'movielist':
        _run_movielist(case, ctx)
    elif kind == 'movieunb':
        _run_movieunb(case, ctx)
    elif kind == 'homog':
        _run_homog(case, ctx)
    elif kind == 'dsdesc':
        _run_dsdesc(case, ctx)
    else:
        raise ValueError(kind)


COMBOS4 = [['list', 'float', 'const'], ['list', 'int', 'vary'], ['nd', 'float', 'vary'], ['nd', 'int', 'const']]
COMBOS8 = [[c, d, e] for c in ('list', 'nd') for d in ('float', 'int') for e in ('const', 'vary')]
# quick tier: (n_channel, combo) slots - every level of every factor with every n_channel
QUICK_SLOTS = [(1, COMBOS4[1]), (1, COMBOS4[2]), (2, COMBOS4[0]), (2, COMBOS4[3])] + \
              [(3, c) for c in COMBOS4]
# method configurations run on every structure of the list / movie sweeps in the quick tier; the
# complete set is run on every 4th structure (thorough: complete set everywhere)
CORE = [{'method': 'euclidean', 'rm': False}, {'method': 'euclidean', 'rm': True},
        {'method': 'correlation', 'rm': False}, {'method': 'mahalanobis', 'prec': 'full', 'rm': True},
        {'method': 'mahalanobis', 'prec': 'perds', 'rm': False}, {'method': 'poisson', 'prior': [2, 0.5], 'rm': False}]


def _partitions(n):
    return [list(p) for p in combi.set_partitions(n)]


def _time_configs(nt):
    """no binning + every partition of the time indices into bins, in canonical and reversed bin order"""
    out = [None]
    for p in combi.set_partitions(nt):
        blocks = [[t for t in range(nt) if p[t] == b] for b in range(max(p) + 1)]
        out.append(blocks)
        if len(blocks) > 1:
            out.append(blocks[::-1])
    return out


def _row_perms(n, tier):
    perms = list(combi.permutations_bounded(n, 4))
    if tier != 'thorough' and n == 5:
        perms = [perms[0], perms[1], perms[2], perms[5]]   # identity, reversal, first and last adjacent swap
    return perms


def shards(tier, seed):
    th = tier == 'thorough'
    out = []
    chans = [1, 2, 3, 4] if th else [1, 2, 3]
    # A: single dataset, full structural sweep
    for fill in range(3 if th else 1):
        if th:
            slots = [(n_ch, c) for n_ch in chans for c in (COMBOS8 if fill == 0 else COMBOS4)]
        else:
            slots = QUICK_SLOTS
        for n_ch, combo in slots:
            out.append({'kind': 'single', 'ns': [1, 2, 3], 'P': n_ch, 'combo': combo, 'fill': fill,
                        'block': None})
            for n, bs in ((4, 2), (5, 5)):
                npart = combi.BELL[n]
                for start in range(0, npart, bs):
                    out.append({'kind': 'single', 'ns': [n], 'P': n_ch, 'combo': combo, 'fill': fill,
                                'block': [start, min(npart, start + bs)]})
    if th:
        for n_ch in (2, 3):
            for combo in COMBOS4:
                for start in range(0, combi.BELL[6], 6):
                    out.append({'kind': 'single', 'ns': [6], 'P': n_ch, 'combo': combo, 'fill': 0,
                                'block': [start, min(combi.BELL[6], start + 6)]})
    # B: one-element list
    for n_ch in chans:
        for container in ('list', 'nd'):
            for n in range(1, 6 if th else 5):
                out.append({'kind': 'list1', 'n': n, 'P': n_ch, 'container': container})
    # C: Tier-A values
    tiera = [(2, 1), (2, 2), (2, 3), (3, 1), (3, 2), (4, 1)] + ([(3, 3), (4, 2)] if th else [])
    for n, n_ch in tiera:
        total = 3 ** (n * n_ch)
        bs = 81 if total > 81 else total
        if total > 2000:
            bs = 243 if n < 4 else 81
        for start in range(0, total, bs):
            out.append({'kind': 'values', 'n': n, 'P': n_ch, 'mats': [start, min(total, start + bs)]})
    # D: lists of two datasets with condition descriptor
    nmax = 4 if th else 3
    for n1 in range(1, nmax + 1):
        for n2 in range(1, nmax + 1):
            for n_ch in ([1, 2, 3] if (th and n1 + n2 <= 6) else [2, 3]):
                for container in ('list', 'nd'):
                    # one shard per partition of the first dataset once the product gets large
                    for p1 in (range(combi.BELL[n1]) if combi.BELL[n1] * combi.BELL[n2] > 10 else [None]):
                        out.append({'kind': 'pair', 'n1': n1, 'n2': n2, 'P': n_ch, 'container': container,
                                    'p1': p1})
    # E: lists of two datasets without descriptor
    for n in range(1, 5):
        for n_ch in ([1, 2, 3] if th else [2, 3]):
            for container in ('list', 'nd'):
                out.append({'kind': 'stack', 'n': n, 'P': n_ch, 'container': container})
    # F: movies
    for nt in range(1, 5 if th else 4):
        for n in range(1, 5 if th else 4):
            for n_ch in (1, 2, 3):
                for torder in (['asc', 'desc'] if nt > 1 else ['asc']):
                    ntc = len(_time_configs(nt))
                    for start in (range(0, ntc, 3) if nt >= 4 else [None]):
                        out.append({'kind': 'movie', 'nt': nt, 'n': n, 'P': n_ch, 'torder': torder,
                                    'tcs': None if start is None else [start, min(ntc, start + 3)]})
    # F2: time-axis menu x storage order x every binning (the frames must not depend on the clock)
    for taxis in AXIS_ORDER:
        for torder in ('asc', 'desc', 'scr'):
            out.append({'kind': 'taxis', 'taxis': taxis, 'torder': torder})
    # F3: movies of LISTS of temporal datasets (every option of the list branch) and unbalanced movies
    for nds in (1, 2):
        for nt in range(1, 5 if th else 4):
            out.append({'kind': 'movielist', 'nds': nds, 'nt': nt})
    for nt in range(1, 4 if th else 3):
        out.append({'kind': 'movieunb', 'nt': nt})
    # H: data and precision scales far from one (relative tolerances)
    for scale, nscale in ((1e-5, None), (1e4, None), (None, 1e-8), (None, 1e6), (1e-5, 1e6), (1e4, 1e-8),
                          (1e-9, None), (1e-12, None), (1e8, None), (1e-12, 1e6)):
        for n_ch in (1, 2, 3):
            out.append({'kind': 'scale', 'scale': scale, 'nscale': nscale, 'P': n_ch})
    # H2: homogeneity law calc_rdm(c*data) == c^degree * calc_rdm(data) at extreme scales
    for c in EXTREME_SCALES:
        for n_ch in (1, 2, 3):
            out.append({'kind': 'homog', 'c': c, 'P': n_ch})
    # H3: dataset-level descriptor menus for lists of 2-3 datasets (every RDM identified by its values)
    for nds in (2, 3):
        for route in ('descriptor', 'no-descriptor', 'movie', 'movie-unbalanced'):
            out.append({'kind': 'dsdesc', 'nds': nds, 'route': route})
    # I: condition labels that are large and close together / prefixes of each other
    for tag in LABEL_TAGS:
        for container in ('list', 'nd'):
            out.append({'kind': 'labels', 'tag': tag, 'container': container})
    # G: sequences of calls on one dataset object (inputs must survive, results must not depend on history)
    for n in ((2, 3, 4) if th else (2, 3)):
        for n_ch in ((1, 2, 3) if th else (2, 3)):
            for dtype in ('float', 'int'):
                for desc in (None, 'cond'):
                    out.append({'kind': 'sequence', 'n': n, 'P': n_ch, 'dtype': dtype, 'desc': desc})
    for n_ch in (2, 3):
        out.append({'kind': 'sequence', 'n': 3, 'P': n_ch, 'dtype': 'float', 'desc': None, 'nt': 2})
        out.append({'kind': 'sequence', 'n': 3, 'P': n_ch, 'dtype': 'float', 'desc': 'cond', 'nt': 2})
    return out


def _select(mconfs, idx, th):
    """thorough: all method configurations; quick: all on every 4th structure, CORE elsewhere"""
    if th or idx % 4 == 0:
        return mconfs
    return [m for m in mconfs if any(all(m.get(k) == v for k, v in c.items()) for c in CORE)]


def run_shard(shard, ctx):
    kind = shard['kind']
    th = ctx.tier == 'thorough'
    if kind == 'single':
        container, dtype, extra = shard['combo']
        mconfs = _mconfs()
        for n in shard['ns']:
            parts = _partitions(n)
            if shard['block'] is not None:
                parts = parts[shard['block'][0]:shard['block'][1]]
            perms = _row_perms(n, ctx.tier)
            for part in parts:
                k = max(part) + 1
                for tag in _naming_tags(k):
                    for pi, perm in enumerate(perms):
                        base = {'kind': 'single', 'form': 'single', 'n': n, 'P': shard['P'], 'part': part,
                                'naming': tag, 'container': container, 'dtype': dtype, 'extra': extra,
                                'perm': perm, 'fill': shard['fill']}
                        for mconf in mconfs:
                            if mconf['method'] == 'correlation' and shard['P'] < 2:
                                ctx.exclude('correlation undefined for one channel (not called)')
                                continue
                            run_case(dict(base, desc='cond', **mconf), ctx)
                            if pi == 0 and tag == 'asc':
                                run_case(dict(base, desc=None, **mconf), ctx)
    elif kind == 'list1':
        n, n_ch = shard['n'], shard['P']
        mconfs = _mconfs() + [{'method': 'mahalanobis', 'prec': 'full', 'rm': False, 'noiselist': True}]
        for pidx, part in enumerate(_partitions(n)):
            k = max(part) + 1
            for tag in _naming_tags(k)[:3]:
                base = {'kind': 'single', 'form': 'list1', 'n': n, 'P': n_ch, 'part': part, 'naming': tag,
                        'container': shard['container'], 'dtype': 'float' if pidx % 2 == 0 else 'int',
                        'extra': 'const' if pidx % 3 else 'vary', 'perm': list(range(n))[::-1], 'fill': 0}
                for mconf in mconfs:
                    if mconf['method'] == 'correlation' and n_ch < 2:
                        ctx.exclude('correlation undefined for one channel (not called)')
                        continue
                    for desc in ('cond', None):
                        run_case(dict(base, desc=desc, **mconf), ctx)
    elif kind == 'values':
        n, n_ch = shard['n'], shard['P']
        parts = _partitions(n)
        mconfs = [{'method': 'euclidean', 'rm': False}, {'method': 'euclidean', 'rm': True},
                  {'method': 'correlation', 'rm': False},
                  {'method': 'mahalanobis', 'prec': 'full', 'rm': False},
                  {'method': 'mahalanobis', 'prec': 'diag', 'rm': True},
                  {'method': 'poisson', 'prior': [1, 0.1], 'rm': False}]
        if th:
            mconfs = [m for m in _mconfs() if not (m['rm'] and m['method'] in ('correlation', 'poisson'))]
        for mat in range(shard['mats'][0], shard['mats'][1]):
            for pidx, part in enumerate(parts):
                base = {'kind': 'values', 'form': 'single', 'n': n, 'P': n_ch, 'mat': mat, 'part': part,
                        'naming': 'desc', 'container': 'list' if (mat + pidx) % 2 else 'nd',
                        'dtype': 'int' if mat % 2 else 'float', 'extra': 'none', 'desc': 'cond'}
                for mconf in mconfs:
                    if mconf['method'] == 'correlation' and n_ch < 2:
                        continue
                    run_case(dict(base, **mconf), ctx)
    elif kind == 'pair':
        mconfs = _mconfs(listnoise=True)
        idx = 0
        parts1 = _partitions(shard['n1'])
        if shard.get('p1') is not None:
            parts1 = [parts1[shard['p1']]]
            idx = 7 * shard['p1']
        for part1 in parts1:
            for part2 in _partitions(shard['n2']):
                for offset in ('same', 'shift', 'disjoint'):
                    for tag in ('asc', 'desc', 'str'):
                        idx += 1
                        for perm2 in ('id', 'rev'):
                            if perm2 == 'rev' and (shard['n2'] == 1 or (not th and idx % 2 == 0)):
                                continue   # quick: the reversed second dataset on every other structure
                            base = {'kind': 'pair', 'part1': part1, 'part2': part2, 'offset': offset,
                                    'naming': tag, 'perm2': perm2, 'P': shard['P'],
                                    'container': shard['container'], 'dtype': 'int' if idx % 3 == 0 else 'float',
                                    'extra': 'const' if (idx // 2) % 2 else 'none', 'fill': 0, 'desc': 'cond'}
                            for mconf in _select(mconfs, idx + (perm2 == 'rev'), th):
                                if mconf['method'] == 'correlation' and shard['P'] < 2:
                                    continue
                                run_case(dict(base, **mconf), ctx)
    elif kind == 'stack':
        n = shard['n']
        mconfs = _mconfs(listnoise=True)
        idx = 0
        for mode in ('same', 'unique'):
            if mode == 'same':
                structs = [(part, None) for part in _partitions(n)]
            else:
                structs = [(list(range(n)), list(p)) for p in itertools.permutations(range(n))]
            for part, perm2 in structs:
                for tag in ('asc', 'desc', 'str'):
                    idx += 1
                    base = {'kind': 'stack', 'n': n, 'P': shard['P'], 'part': part, 'naming': tag,
                            'mode': mode, 'perm2': perm2, 'container': shard['container'],
                            'dtype': 'int' if idx % 3 == 0 else 'float',
                            'extra': 'const' if idx % 2 else 'none', 'fill': 0, 'desc': None}
                    for mconf in _select(mconfs, idx, th):
                        if mconf['method'] == 'correlation' and shard['P'] < 2:
                            continue
                        run_case(dict(base, **mconf), ctx)
    elif kind == 'movie':
        nt, n, n_ch = shard['nt'], shard['n'], shard['P']
        mconfs = _mconfs(rm=False)
        idx = 0
        tcs = _time_configs(nt)
        if shard.get('tcs') is not None:
            tcs = tcs[shard['tcs'][0]:shard['tcs'][1]]
            idx = 5 * shard['tcs'][0]
        for bins in tcs:
            for part in _partitions(n):
                for tag in ('asc', 'desc', 'str'):
                    idx += 1
                    base = {'kind': 'movie', 'n': n, 'P': n_ch, 'nt': nt, 'torder': shard['torder'],
                            'taxis': AXIS_ORDER[idx % len(AXIS_ORDER)], 'bins': bins, 'binrep': 'arrays', 'tcont': 'nd', 'part': part, 'naming': tag,
                            'container': 'list' if idx % 2 else 'nd', 'extra': 'const' if idx % 3 else 'none',
                            'fill': 0}
                    for mi, mconf in enumerate(mconfs):
                        if mconf['method'] == 'correlation' and n_ch < 2:
                            continue
                        run_case(dict(base, desc='cond', **mconf), ctx)
                        if th or (mi + idx) % 4 == 0:      # quick: row-per-observation movies on a quarter
                            run_case(dict(base, desc=None, **mconf), ctx)
                    # representation variants of the time axis: list-valued time descriptor,
                    # bins given as plain lists (one method is enough: the code path is shared)
                    if n_ch >= 2 and n >= 2:
                        euc = {'method': 'euclidean', 'rm': False}
                        run_case(dict(base, desc='cond', tcont='list', **euc), ctx)
                        if bins is not None:
                            run_case(dict(base, desc='cond', binrep='lists', **euc), ctx)
    elif kind == 'taxis':
        structs = [(3, 2, part) for part in _partitions(3)] + [(2, 3, part) for part in _partitions(2)]
        if th:
            structs += [(4, 2, part) for part in _partitions(4)[1::2]] + [(3, 1, [0, 1, 2])]
        meths = [{'method': 'euclidean', 'rm': False}, {'method': 'correlation', 'rm': False},
                 {'method': 'mahalanobis', 'prec': 'full', 'rm': False},
                 {'method': 'poisson', 'prior': [2, 0.5], 'rm': False}]
        idx = 0
        for nt in range(1, 5 if th else 4):
            if shard['torder'] != 'asc' and nt == 1:
                continue
            for bins in _time_configs(nt):
                for n, n_ch, part in structs:
                    idx += 1
                    base = {'kind': 'movie', 'n': n, 'P': n_ch, 'nt': nt, 'torder': shard['torder'],
                            'taxis': shard['taxis'], 'bins': bins, 'binrep': 'arrays',
                            'tcont': 'list' if idx % 4 == 0 else 'nd', 'part': part,
                            'naming': ('desc', 'str', 'asc')[idx % 3], 'container': 'list' if idx % 2 else 'nd',
                            'extra': 'const' if idx % 3 else 'none', 'fill': 0}
                    for mi, mconf in enumerate(meths):
                        if mconf['method'] == 'correlation' and n_ch < 2:
                            continue
                        run_case(dict(base, desc='cond', **mconf), ctx)
                        if th or mi == idx % 4:
                            run_case(dict(base, desc=None, **mconf), ctx)
    elif kind == 'movielist':
        nds, nt = shard['nds'], shard['nt']
        mconfs = _mconfs(listnoise=True, rm=False)
        idx = 0
        for bins in _time_configs(nt):
            for n in ((1, 2, 3, 4) if th else (1, 2, 3)):
                for part in _partitions(n):
                    idx += 1
                    n_ch = (2, 3, 1, 3, 2)[idx % 5]
                    base = {'kind': 'movielist', 'nds': nds, 'n': n, 'P': n_ch, 'nt': nt,
                            'torder': ('asc', 'desc', 'scr')[idx % 3] if nt > 1 else 'asc',
                            'taxis': AXIS_ORDER[idx % len(AXIS_ORDER)], 'bins': bins, 'part': part,
                            'naming': ('desc', 'str', 'asc', 'big', 'prefix')[idx % 5],
                            'container': 'list' if idx % 2 else 'nd', 'extra': 'const' if idx % 3 else 'none',
                            'fill': 0}
                    for mi, mconf in enumerate(mconfs):
                        if mconf['method'] == 'correlation' and n_ch < 2:
                            continue
                        run_case(dict(base, desc='cond', perm2='rev' if (idx + mi) % 2 else 'id', **mconf), ctx)
                        if th or (mi + idx) % 3 == 0:
                            run_case(dict(base, desc=None, perm2='id', **mconf), ctx)
                    # a time descriptor other than 'time' selected by name
                    if bins is None:
                        run_case(dict(base, desc='cond', perm2='id', tname='tms', method='euclidean', rm=False), ctx)
    elif kind == 'movieunb':
        nt = shard['nt']
        mconfs = _mconfs(rm=False)
        idx = 0
        for bins in _time_configs(nt):
            for n in (1, 2, 3):
                for part in _partitions(n):
                    idx += 1
                    n_ch = (2, 3)[idx % 2]
                    base = {'kind': 'movieunb', 'n': n, 'P': n_ch, 'nt': nt, 'torder': 'asc' if idx % 2 else 'desc',
                            'taxis': AXIS_ORDER[idx % len(AXIS_ORDER)], 'bins': bins, 'part': part,
                            'naming': ('desc', 'str', 'asc')[idx % 3], 'container': 'list' if idx % 2 else 'nd',
                            'fill': 0}
                    for mi, mconf in enumerate(mconfs):
                        run_case(dict(base, desc='cond', **mconf), ctx)
                        if th or (mi + idx) % 3 == 0:
                            run_case(dict(base, desc=None, **mconf), ctx)
                        if bins is None and (th or (mi + idx) % 3 != 0):
                            run_case(dict(base, desc='cond', aslist=True, **mconf), ctx)
    elif kind == 'scale':
        n_ch = shard['P']
        sc = {k: shard[k] for k in ('scale', 'nscale') if shard[k]}
        mconfs = _mconfs()
        if shard['nscale']:
            mconfs = [m for m in mconfs if m['method'] == 'mahalanobis' and m['prec'] != 'none']
        if n_ch < 2:
            mconfs = [m for m in mconfs if m['method'] != 'correlation']
        tiny = bool(shard['scale']) and shard['scale'] < 1e-6     # poisson is not homogeneous: the prior
        if tiny:                                                    # dominates there, nothing to judge
            mconfs = [m for m in mconfs if m['method'] != 'poisson']
        parts = [p for n in (1, 2, 3) for p in _partitions(n)] + (_partitions(4) if th else _partitions(4)[1::3])
        for idx, part in enumerate(parts):
            n = len(part)
            base = dict(sc, kind='single', form='single' if idx % 2 == 0 else 'list1', n=n, P=n_ch, part=part,
                        naming=('desc', 'str', 'asc')[idx % 3], container='list' if idx % 2 else 'nd',
                        dtype='int' if (idx % 3 == 2 and (shard['scale'] or 1) >= 1) else 'float',
                        extra='const' if idx % 2 else 'vary', perm=list(range(n))[::-1], fill=0)
            for mconf in mconfs:
                run_case(dict(base, desc='cond', **mconf), ctx)
                run_case(dict(base, desc=None, **mconf), ctx)
        lconfs = [m for m in _mconfs(listnoise=True) if (not shard['nscale'] or (m['method'] == 'mahalanobis' and
                                                                                  m['prec'] != 'none'))
                  and not (m['method'] == 'correlation' and n_ch < 2) and (th or not m['rm'])
                  and not (tiny and m['method'] == 'poisson')]
        for i1, part1 in enumerate(_partitions(2)):
            for i2, part2 in enumerate(_partitions(2)):
                for offset in ('same', 'shift', 'disjoint'):
                    base = dict(sc, kind='pair', part1=part1, part2=part2, offset=offset, naming='desc',
                                perm2='rev' if (i1 + i2) % 2 else 'id', P=n_ch, container='nd', dtype='float',
                                extra='const', fill=0, desc='cond')
                    for mconf in lconfs:
                        run_case(dict(base, **mconf), ctx)
        mv = [m for m in _mconfs(rm=False) if (not shard['nscale'] or (m['method'] == 'mahalanobis' and
                                                                        m['prec'] != 'none'))
              and not (m['method'] == 'correlation' and n_ch < 2) and not (tiny and m['method'] == 'poisson')]
        for bi, bins in enumerate((None, [[0, 1]], [[1], [0]])):
            for pi, part in enumerate(_partitions(3)):
                base = dict(sc, kind='movie', n=3, P=n_ch, nt=2, torder='asc' if pi % 2 else 'desc', taxis='small',
                            bins=bins, binrep='arrays', tcont='nd', part=part, naming='desc', container='nd',
                            extra='none', fill=0)
                for mconf in mv:
                    run_case(dict(base, desc='cond' if (bi + pi) % 3 else None, **mconf), ctx)
    elif kind == 'homog':
        n_ch, c = shard['P'], shard['c']
        mconfs = [m for m in _mconfs() if m['method'] in HOMOG_DEGREE and m.get('prec') != 'eye'
                  and not (m['method'] == 'correlation' and (m['rm'] or n_ch < 2))]
        parts = [p for n in (1, 2, 3) for p in _partitions(n)] + (_partitions(4) if th else _partitions(4)[2::4])
        for idx, part in enumerate(parts):
            n = len(part)
            base = {'kind': 'homog', 'c': c, 'form': 'single' if idx % 3 else 'list1', 'n': n, 'P': n_ch,
                    'part': part, 'naming': ('desc', 'str', 'asc', 'big')[idx % 4],
                    'container': 'list' if idx % 2 else 'nd', 'dtype': 'float', 'extra': 'const' if idx % 2 else 'none',
                    'perm': list(range(n))[::-1], 'fill': 0}
            for mi, mconf in enumerate(mconfs):
                run_case(dict(base, desc='cond', **mconf), ctx)
                if th or (mi + idx) % 2 == 0:
                    run_case(dict(base, desc=None, **mconf), ctx)
    elif kind == 'dsdesc':
        nds, route = shard['nds'], shard['route']
        if route == 'movie-unbalanced':
            meths = [{'method': 'euclidean', 'rm': False}, {'method': 'mahalanobis', 'prec': 'perds', 'rm': False}]
        else:
            meths = [{'method': 'euclidean', 'rm': False}, {'method': 'correlation', 'rm': False},
                     {'method': 'mahalanobis', 'prec': 'perdsdict', 'rm': False}]
        structs = [[0, 1], [0, 1, 2], [0, 1, 0], [0, 0, 1], [0, 1, 1]] + ([[0, 1, 2, 0], [0, 1, 1, 2]] if th else [])
        idx = 0
        for menu, _ in DESC_MENUS[nds]:
            for part in structs:
                idx += 1
                base = {'kind': 'dsdesc', 'nds': nds, 'route': route, 'menu': menu, 'n': len(part), 'P': 3,
                        'part': part, 'naming': ('desc', 'str', 'asc')[idx % 3],
                        'container': 'list' if idx % 2 else 'nd'}
                if route.startswith('movie'):
                    base.update(nt=2, bins=(None, [[1], [0]], [[0, 1]])[idx % 3])
                for mi, mconf in enumerate(meths):
                    if th or mi == 0 or (mi + idx) % 2 == 0:
                        run_case(dict(base, **mconf), ctx)
    elif kind == 'labels':
        tag, container = shard['tag'], shard['container']
        confs = [{'method': 'euclidean', 'rm': False}, {'method': 'correlation', 'rm': False},
                 {'method': 'mahalanobis', 'prec': 'full', 'rm': True},
                 {'method': 'poisson', 'prior': [2, 0.5], 'rm': False}]
        idx = 0
        for n in range(1, 6 if th else 5):
            for part in _partitions(n):
                for perm in (list(range(n)), list(range(n))[::-1]):
                    idx += 1
                    base = {'kind': 'single', 'form': 'single' if idx % 3 else 'list1', 'n': n, 'P': 2 + idx % 2,
                            'part': part, 'naming': tag, 'container': container, 'dtype': 'float',
                            'extra': 'const' if idx % 2 else 'vary', 'perm': perm, 'fill': 0}
                    for mconf in confs:
                        run_case(dict(base, desc='cond', **mconf), ctx)
                    run_case(dict(base, desc=None, **confs[0]), ctx)
        lconfs = [{'method': 'euclidean', 'rm': False}, {'method': 'mahalanobis', 'prec': 'perds', 'rm': False}]
        nmax = 4 if th else 3
        for n1 in range(1, nmax + 1):
            for n2 in range(1, nmax + 1):
                for part1 in _partitions(n1):
                    for part2 in _partitions(n2):
                        for offset in ('same', 'shift', 'disjoint'):
                            idx += 1
                            base = {'kind': 'pair', 'part1': part1, 'part2': part2, 'offset': offset, 'naming': tag,
                                    'perm2': 'rev' if idx % 2 else 'id', 'P': 2 + idx % 2, 'container': container,
                                    'dtype': 'float', 'extra': 'const' if idx % 3 else 'none', 'fill': 0,
                                    'desc': 'cond'}
                            for mconf in lconfs:
                                run_case(dict(base, **mconf), ctx)
        for n in range(1, 5):
            for perm2 in itertools.permutations(range(n)):
                idx += 1
                base = {'kind': 'stack', 'n': n, 'P': 2 + idx % 2, 'part': list(range(n)), 'naming': tag,
                        'mode': 'unique', 'perm2': list(perm2), 'container': container, 'dtype': 'float',
                        'extra': 'const' if idx % 2 else 'none', 'fill': 0, 'desc': None}
                for mconf in confs[:2]:
                    run_case(dict(base, **mconf), ctx)
        for bins in _time_configs(2):
            for n in (1, 2, 3):
                for part in _partitions(n):
                    idx += 1
                    base = {'kind': 'movie', 'n': n, 'P': 2 + idx % 2, 'nt': 2, 'torder': 'asc',
                            'taxis': AXIS_ORDER[idx % 8], 'bins': bins, 'binrep': 'arrays', 'tcont': 'nd',
                            'part': part, 'naming': tag, 'container': container,
                            'extra': 'const' if idx % 2 else 'none', 'fill': 0}
                    for mconf in (confs[0], confs[3]):
                        run_case(dict(base, desc='cond', **mconf), ctx)
    elif kind == 'sequence':
        n, n_ch = shard['n'], shard['P']
        movie = shard.get('nt') is not None
        mconfs = _mconfs(rm=not movie)
        if n_ch < 2:
            mconfs = [m for m in mconfs if m['method'] != 'correlation']
        parts = _partitions(n)
        if shard['desc'] is None:
            parts = [parts[-1], parts[0]]      # labels do not matter without descriptor
        elif n >= 4:
            parts = [p for p in parts if max(p) >= 1][::3]
        for pidx, part in enumerate(parts):
            base = {'kind': 'sequence', 'n': n, 'P': n_ch, 'part': part, 'naming': ('desc', 'str', 'asc')[pidx % 3],
                    'container': 'nd' if pidx % 2 == 0 else 'list', 'dtype': shard['dtype'],
                    'extra': 'const' if pidx % 2 else 'none', 'fill': 0, 'desc': shard['desc']}
            if movie:
                for bins in (None, [[0, 1]], [[1], [0]]):
                    mb = dict(base, nt=shard['nt'], bins=bins)
                    for a_ in mconfs:
                        for b_ in mconfs:
                            run_case(dict(mb, steps=[[a_, 'movie'], [b_, 'movie']]), ctx)
                continue
            # every ordered pair of method configurations, first call in every input form
            forms = ('single', 'list1', 'twice') if (pidx == 0 or th) else ('single',)
            for form in forms:
                for a_ in mconfs:
                    for b_ in mconfs:
                        run_case(dict(base, steps=[[a_, form], [b_, 'single']]), ctx)
            # long chains: all configurations one after the other on one object, in rotated orders
            for rot in range(0, len(mconfs), 1 if th else 4):
                chain = mconfs[rot:] + mconfs[:rot]
                run_case(dict(base, steps=[[m, ('single', 'list1', 'twice')[(i + rot) % 3]]
                                           for i, m in enumerate(chain)]), ctx)
                run_case(dict(base, steps=[[m, 'single'] for m in chain[::-1]]), ctx)
    else:
        raise ValueError(kind)
