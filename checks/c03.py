"""C03 - RDM comparison measures equal their definitions for every pair of RDMs (DESIGN 4/C03)

Enumerates every pair of RDM vectors over a small value alphabet (all tie patterns), all
stack shapes, every sigma_k form and every simultaneous condition permutation, runs the real
compare() and judges every (i, j) entry against mc.ref.measures.
"""
import itertools

import numpy as np

from mc import combi
from mc.ref import measures as ref
from mc.util import close, reldev, rng_for, spd, permute_rdm_vector

PROPERTY = 'C03'
LEVEL = 'exploration'
RULE = ('Every ordered pair of RDM vectors over a value alphabet ({0,1,2}^3, {0,1}^6 / {0,1,2}^6, '
        '{-1,0,1,2}^3) plus fixed generic fills, for every measure, sigma_k form, stack shape, '
        'input representation and condition permutation; one evaluation = one (i,j) entry of a '
        'real compare() call judged against the reference definition (or one algebraic law '
        'instance). Non-trivial = the measure is defined for the pair (no zero-norm / constant '
        'vector); distinct = distinct (block descriptor, i, j).'
        ' Integer-valued alphabets are also run as int64 / int32 / float32 typed stacks on either side.')
ASSUMPTIONS = ['reference definitions in mc/ref/measures.py are correct (cross-checked with scipy in selftest)',
               'values outside the enumerated alphabets are represented by fixed generic fills only',
               'whitened measures go through the library\'s conjugate-gradient solve: tolerance 1e-4 (largest deviation seen over 8 seeds: 4e-6)']
TOL_PLAIN = 1e-9
TOL_CG = 1e-4
TOL_BURES = 1e-5   # two eigen-decompositions of rank-deficient kernels: sqrt(eps)-level errors (seen: 2.3e-7)
TOLERANCES = {'plain': TOL_PLAIN, 'whitened(cg)': TOL_CG, 'bures': TOL_BURES}
BOUNDS = {
    'quick': {'n_cond': [3, 4], 'alphabets': ['{0,1,2}^3', '{0,1}^6', '{-1,0,1,2}^3'], 'fills': 2},
    'thorough': {'n_cond': [3, 4, 5], 'alphabets': ['{0,1,2}^3', '{0,1,2}^6', '{-1,0,1,2}^3'], 'fills': 6},
}

VECTOR_METHODS = ['cosine', 'corr', 'spearman', 'kendall', 'tau-b', 'tau-a', 'rho-a']
WHITE = ['cosine_cov', 'corr_cov']
BURES = ['bures', 'bures_metric']


def _alphabet_vectors(name):
    alpha, length = {'012^3': ((0, 1, 2), 3), '01^6': ((0, 1), 6), '012^6': ((0, 1, 2), 6),
                     'm1012^3': ((-1, 0, 1, 2), 3), '012^10s': ((0, 1, 2), 10)}[name]
    return np.array(list(itertools.product(alpha, repeat=length)), dtype=float)


def _sigma(kind, n, seed):
    g = rng_for(seed, 'sigma', n)
    if kind == 'none':
        return None, None
    diag = np.round(g.uniform(0.5, 3.0, size=n), 3)
    if kind == 'vector':
        return diag.copy(), diag
    if kind == 'diagmatrix':
        return np.diag(diag), diag
    if kind == 'full':
        s = spd(g, n)
        return s, s
    if kind in ('full-small', 'full-large', 'vector-small'):
        # the whitened measures do not depend on the overall scale of sigma_k: the same matrix at
        # the scale of volts^2 (1e-10) or of raw scanner units (1e6) is a legitimate covariance
        c = 1e6 if kind.endswith('large') else 1e-10
        if kind.startswith('vector'):
            return diag * c, diag * c
        s = spd(g, n) * c
        return s, s
    raise ValueError(kind)


def _fills(n_vec, length, seed, key):
    g = rng_for(seed, 'fill', key, length)
    x = g.normal(size=(n_vec, length))
    x[:, 0] += 0.3  # spread
    return np.round(x, 4)


def shards(tier, seed):
    out = []
    thorough = tier == 'thorough'
    # A: plain measures, Tier-A alphabets, batched blocks
    for alpha in (['012^3', 'm1012^3', '012^6'] if thorough else ['012^3', 'm1012^3', '01^6']):
        nvec = len(_alphabet_vectors(alpha))
        bs = 27 if nvec > 64 else nvec
        for m in VECTOR_METHODS:
            for start in range(0, nvec, bs):
                out.append({'kind': 'block', 'method': m, 'alpha': alpha, 'x': [start, min(nvec, start + bs)],
                            'rep': 'rdms' if (start // bs) % 2 == 0 else 'array'})
        # the integer-valued vectors held as integer arrays (counts, ranks, categorical model RDMs) on either side
        if alpha in ('012^3', 'm1012^3'):
            for m in VECTOR_METHODS:
                for k, dt in enumerate([['int', 'float'], ['float', 'int'], ['int', 'int'], ['int32', 'float32']]):
                    out.append({'kind': 'block', 'method': m, 'alpha': alpha, 'x': [0, nvec],
                                'rep': 'rdms' if k % 2 == 0 else 'array', 'dtype': dt})
    # B: stack shapes x representation x laws on Tier-A subset and fills
    for m in VECTOR_METHODS + WHITE + BURES:
        for n_cond in ([3, 4, 5] if thorough else [3, 4]):
            for fill in range(6 if thorough else 2):
                out.append({'kind': 'laws', 'method': m, 'n_cond': n_cond, 'fill': fill})
    # C: whitened measures on Tier-A with every sigma form
    for m in WHITE:
        for sk in ['none', 'vector', 'diagmatrix', 'full', 'full-small', 'full-large', 'vector-small']:
            out.append({'kind': 'white', 'method': m, 'alpha': '012^3', 'sigma': sk, 'x': [0, 27]})
            nv = 64
            out.append({'kind': 'white', 'method': m, 'alpha': '01^6', 'sigma': sk, 'x': [0, nv]})
            if sk in ('none', 'vector', 'full'):
                for dt in (['int', 'float'], ['float', 'int'], ['int', 'int']):
                    out.append({'kind': 'white', 'method': m, 'alpha': '012^3', 'sigma': sk, 'x': [0, 27], 'dtype': dt})
            if thorough:
                for start in range(0, 729, 81):
                    out.append({'kind': 'white', 'method': m, 'alpha': '012^6', 'sigma': sk,
                                'x': [start, start + 81]})
    # D: Bures on every point configuration of the integer grid
    for m in BURES:
        for n_cond, d in ([(3, 1), (3, 2), (4, 1), (4, 2)] if thorough else [(3, 1), (3, 2), (4, 1)]):
            out.append({'kind': 'bures', 'method': m, 'n_cond': n_cond, 'd': d})
    # F: sequences of measures on ONE pair of input objects (an in-place step inside one measure
    #    would corrupt every later call on the same objects)
    for rep in ('rdms', 'array'):
        for n_cond in (3, 4):
            for order in range(4):
                out.append({'kind': 'sequence', 'rep': rep, 'n_cond': n_cond, 'order': order})
    # E: rho-a against brute-force expectation over tie-breakings
    out.append({'kind': 'rhoa_bf', 'alpha': '012^3', 'rows': [0, 27]})
    for start in range(0, 64, 4):
        out.append({'kind': 'rhoa_bf', 'alpha': '01^6', 'rows': [start, start + 4]})
    if thorough:
        for start in range(0, 729, 27):   # every 27th row block start: rows start, start+1
            out.append({'kind': 'rhoa_bf', 'alpha': '012^6', 'rows': [start, start + 2]})
    return out


def run_shard(shard, ctx):
    run_case(shard, ctx)


def _wrap(vecs, rep, dtype=float):
    """the vectors as the caller may hold them: float or (for the integer-valued alphabets) integer typed"""
    dtype = {'float': float, 'int': np.int64, 'int32': np.int32, 'float32': np.float32}.get(dtype, dtype)
    if rep == 'array':
        return np.array(vecs, dtype=dtype)
    from rsatoolbox.rdm import RDMs
    return RDMs(np.array(vecs, dtype=dtype))


def _judge_matrix(ctx, case, method, got, X, Y, sigma_ref, tol, tag, keep=None):
    sigp = 'compare|method=%s,%s' % (method, tag)
    got = np.asarray(got)
    if got.shape != (len(X), len(Y)):
        ctx.fail(sigp + '|shape', case, 'shape %r for stacks %d x %d' % (got.shape, len(X), len(Y)))
        return
    import mc.runner as _r
    base = _r.h64(case)
    for i, x in enumerate(X):
        dx = ref.is_degenerate(method, x)
        for j, y in enumerate(Y):
            ctx.evaluations += 1
            if dx or ref.is_degenerate(method, y):
                ctx.exclude('measure undefined (zero norm / constant vector)')
                continue
            want = ref.similarity(method, x, y, sigma_ref, keep)
            if want is None:
                ctx.exclude('measure undefined (zero norm / constant vector)')
                continue
            ctx.distinct.add(hash((base, i, j)))
            g = got[i, j]
            ctx.dev(method + '/' + tag, reldev(g, want))
            if not close(g, want, tol):
                ctx.fail(sigp + '|value-mismatch', dict(case, i=i, j=j),
                         'entry (%d,%d): got %.12g, definition %.12g; x=%s y=%s' % (
                             i, j, g, want, list(x), list(y)))
            if method not in ('bures_metric',) and not (-1 - max(tol, 1e-9) <= g <= 1 + max(tol, 1e-9)):
                ctx.fail(sigp + '|out-of-range', dict(case, i=i, j=j), 'value %r' % g)
            if (i + 7 * j) % 11 == 0:
                ctx.outcome(round(float(want), 9))
    if ctx.last_case is None or len(ctx.samples) < 3:
        ctx.samples.append(_r.jsonable(dict(case, example_x=list(X[0]), example_y=list(Y[-1]))))
    ctx.last_case = case


def run_case(case, ctx):
    from rsatoolbox.rdm import compare
    kind = case['kind']
    seed = ctx.seed
    if kind == 'block':
        V = _alphabet_vectors(case['alpha'])
        X = V[case['x'][0]:case['x'][1]]
        with ctx.guard('compare|method=%s,plain' % case['method'], case):
            dt = case.get('dtype', ['float', 'float'])
            got = compare(_wrap(X, case['rep'], dt[0]), _wrap(V, case['rep'], dt[1]), method=case['method'])
            _judge_matrix(ctx, case, case['method'], got, X, V, None,
                          1e-5 if 'float32' in dt else TOL_PLAIN, 'plain' + (',dtype=%s/%s' % tuple(dt) if 'dtype' in case else ''))
    elif kind == 'white':
        V = _alphabet_vectors(case['alpha'])
        X = V[case['x'][0]:case['x'][1]]
        n = ref.n_from_len(V.shape[1])
        sk, sk_ref = _sigma(case['sigma'], n, seed)
        with ctx.guard('compare|method=%s,sigma_k=%s' % (case['method'], case['sigma']), case):
            dt = case.get('dtype', ['float', 'float'])
            got = compare(_wrap(X, 'rdms', dt[0]), _wrap(V, 'rdms', dt[1]), method=case['method'], sigma_k=sk)
            _judge_matrix(ctx, case, case['method'], got, X, V, sk_ref, TOL_CG,
                          'sigma_k=%s' % case['sigma'] + (',dtype=%s/%s' % tuple(dt) if 'dtype' in case else ''))
    elif kind == 'laws':
        _laws(case, ctx)
    elif kind == 'sequence':
        _sequence(case, ctx)
    elif kind == 'bures':
        _bures(case, ctx)
    elif kind == 'rhoa_bf':
        V = _alphabet_vectors(case['alpha'])
        with ctx.guard('compare|method=rho-a,bruteforce', case):
            rows = list(range(case['rows'][0], min(len(V), case['rows'][1])))
            got = compare(V[rows], V, method='rho-a')
            for a, i in enumerate(rows):
                for j in range(len(V)):
                    x, y = V[i], V[j]
                    if ref.n_tie_breakings(list(x)) * ref.n_tie_breakings(list(y)) > 50000:
                        ctx.exclude('more than 5e4 tie-breakings')
                        continue
                    ctx.case({'kind': 'rhoa_bf', 'x': x, 'y': y})
                    want = ref.rho_a_bruteforce(list(x), list(y))
                    if not close(got[a, j], want, TOL_PLAIN):
                        ctx.fail('compare|method=rho-a,bruteforce|value-mismatch',
                                 dict(case, x=list(x), y=list(y)),
                                 'got %.12g, expectation over tie-breakings %.12g' % (got[a, j], want))
    else:
        raise ValueError(kind)


def _laws(case, ctx):
    """stack shapes, representations, symmetry, self-similarity, range, permutation invariance,
    vector sigma == diagonal-matrix sigma, on generic fills"""
    from rsatoolbox.rdm import compare
    method, n, fill = case['method'], case['n_cond'], case['fill']
    L = n * (n - 1) // 2
    white = method in WHITE
    bures = method in BURES
    tol = TOL_CG if white else (TOL_BURES if bures else TOL_PLAIN)
    g = rng_for(ctx.seed, 'laws', n, fill)
    if bures:
        # Euclidean-embeddable RDMs: squared distances of random points in n-1 (>= 3) dimensions, at
        # full precision: rounding the distances makes a rank-deficient configuration (5 points in
        # 3-d) slightly non-embeddable, and the matrix square root amplifies a 1e-5 negative
        # eigenvalue to a 3e-5 asymmetry - an artefact of the inputs, outside the quantifier
        def make(k):
            out = []
            for _ in range(k):
                p = g.normal(size=(n, max(3, n - 1)))
                out.append([float(np.sum((p[i] - p[j]) ** 2)) for i, j in combi.pair_index(n)])
            return np.array(out)
    else:
        def make(k):
            v = _fills(k, L, ctx.seed, 1000 * fill + 17 * n + int(g.integers(1 << 20)))
            if fill % 2 == 1:
                v = np.round(v)       # ties and negative entries
                v[:, 0] += 0.5
            return v
    sigmas = ['none']
    if white:
        sigmas = ['none', 'vector', 'diagmatrix', 'full', 'full-small', 'full-large']
    for n1, n2 in [(1, 1), (1, 2), (2, 1), (2, 3)]:
        X, Y = make(n1), make(n2)
        for skind in sigmas:
            sk, sk_ref = _sigma(skind, n, ctx.seed)
            tag = ('sigma_k=%s' % skind) if white else 'plain'
            kw = {'sigma_k': sk} if white else {}
            sub = dict(case, stack=[n1, n2], sigma=skind, X=X, Y=Y)
            with ctx.guard('compare|method=%s,%s' % (method, tag), sub):
                got = compare(_wrap(X, 'rdms'), _wrap(Y, 'rdms'), method=method, **kw)
                _judge_matrix(ctx, sub, method, got, X, Y, sk_ref, tol, tag)
                # representation: a single RDM given as a plain 1-D vector
                if n1 == 1 and n2 == 1:
                    g1 = compare(np.array(X[0]), np.array(Y[0]), method=method, **kw)
                    ctx.case(dict(sub, law='1-D vectors'))
                    if np.asarray(g1).shape != (1, 1) or not np.array_equal(np.asarray(g1), np.asarray(got)):
                        ctx.fail('compare|method=%s,%s|1-D-vectors!=RDMs' % (method, tag), sub, '%r vs %r' % (g1, got))
                    g2 = compare(np.array(X[0]), _wrap(Y, 'rdms'), method=method, **kw)
                    if not np.array_equal(np.asarray(g2), np.asarray(got)):
                        ctx.fail('compare|method=%s,%s|1-D-vectors!=RDMs' % (method, tag), sub, '%r vs %r' % (g2, got))
                # representation: ndarray == RDMs
                got_arr = compare(np.array(X), np.array(Y), method=method, **kw)
                ctx.case(dict(sub, law='ndarray==RDMs'))
                if not np.array_equal(np.asarray(got), np.asarray(got_arr)):
                    ctx.fail('compare|method=%s,%s|ndarray!=RDMs' % (method, tag), sub,
                             '%r vs %r' % (got, got_arr))
                # symmetry
                back = compare(_wrap(Y, 'rdms'), _wrap(X, 'rdms'), method=method, **kw)
                ctx.case(dict(sub, law='symmetry'))
                if not np.allclose(np.asarray(back).T, np.asarray(got), rtol=0, atol=2 * tol):
                    ctx.fail('compare|method=%s,%s|asymmetric' % (method, tag), sub,
                             '%r vs %r' % (got, np.asarray(back).T))
                # scale: every similarity named in the statement is invariant to a positive rescaling
                # of one argument (the squared Bures metric is not a similarity and is left out) -
                # RDMs in volts^2 or raw scanner units must give the value of the definition too
                if method != 'bures_metric':
                    for c in (1e-10, 1e8):
                        gs = compare(_wrap(X * c, 'rdms'), _wrap(Y, 'rdms'), method=method, **kw)
                        ctx.case(dict(sub, law='scale', c=c))
                        if not np.allclose(np.asarray(gs), np.asarray(got), rtol=0, atol=2 * tol):
                            ctx.fail('compare|method=%s,%s|scale-variant' % (method, tag), dict(sub, c=c),
                                     'first argument times %g: %r vs %r' % (c, gs, got))
                # offsets: Pearson and the rank measures do not depend on a constant added to one argument;
                # dissimilarities with a large common offset (raw units, 1 - r close to 1) are ordinary
                # inputs. The shifted values are exact only to ~c * 2^-52, hence the tolerance.
                if method in ('corr', 'spearman', 'kendall', 'tau-b', 'tau-a', 'rho-a'):
                    for c in (1e4, 1e6):
                        gs = compare(_wrap(X + c, 'rdms'), _wrap(Y, 'rdms'), method=method)
                        ctx.case(dict(sub, law='offset', c=c))
                        if not np.allclose(np.asarray(gs), np.asarray(got), rtol=0, atol=max(2 * tol, 1e-15 * c * 100)):
                            ctx.fail('compare|method=%s,%s|offset-variant' % (method, tag), dict(sub, c=c),
                                     'first argument plus %g: %r vs %r' % (c, gs, got))
                # self similarity
                selfs = compare(_wrap(X, 'rdms'), _wrap(X, 'rdms'), method=method, **kw)
                ctx.case(dict(sub, law='self'))
                target = 0.0 if method == 'bures_metric' else 1.0
                for i in range(n1):
                    if ref.is_degenerate(method, X[i]):
                        continue
                    if method in ('tau-a', 'rho-a') and len(set(X[i].tolist())) < L:
                        continue  # tau-a / rho-a of a tied vector with itself is < 1 by definition
                    if abs(selfs[i, i] - target) > tol:
                        ctx.fail('compare|method=%s,%s|self-similarity' % (method, tag), sub,
                                 'self value %r' % selfs[i, i])
                # permutation invariance: all n! simultaneous permutations (sigma permuted alike)
                for perm in itertools.permutations(range(n)):
                    if n >= 5 and (sum(p * (i + 1) for i, p in enumerate(perm)) % 6):
                        continue  # n=5: every 6th permutation (120 -> 20) to bound cost
                    Xp = np.array([permute_rdm_vector(x, perm) for x in X])
                    Yp = np.array([permute_rdm_vector(y, perm) for y in Y])
                    kwp = {}
                    if white:
                        if sk is None:
                            skp = None
                        elif sk.ndim == 1:
                            skp = sk[list(perm)]
                        else:
                            skp = sk[np.ix_(perm, perm)]
                        kwp = {'sigma_k': skp}
                    gp = compare(_wrap(Xp, 'rdms'), _wrap(Yp, 'rdms'), method=method, **kwp)
                    ctx.case(dict(case, stack=[n1, n2], sigma=skind, law='perm', perm=list(perm)))
                    if not np.allclose(gp, got, rtol=0, atol=2 * tol):
                        ctx.fail('compare|method=%s,%s|permutation-variant' % (method, tag),
                                 dict(sub, perm=list(perm)), '%r vs %r' % (gp, got))
        if white:
            # vector sigma == the same vector as diagonal matrix
            skv, _ = _sigma('vector', n, ctx.seed)
            sub = dict(case, stack=[n1, n2], X=X, Y=Y, law='vector==diag')
            with ctx.guard('compare|method=%s,sigma_k=vector' % method, sub):
                a = compare(_wrap(X, 'rdms'), _wrap(Y, 'rdms'), method=method, sigma_k=skv)
                b = compare(_wrap(X, 'rdms'), _wrap(Y, 'rdms'), method=method, sigma_k=np.diag(skv))
                ctx.case(sub)
                if not np.allclose(a, b, rtol=0, atol=2 * TOL_CG):
                    ctx.fail('compare|method=%s,sigma_k=vector|differs-from-diag-matrix' % method, sub,
                             '%r vs %r' % (a, b))


def _sequence(case, ctx):
    from rsatoolbox.rdm import compare
    from mc.util import fingerprint
    n = case['n_cond']
    L = n * (n - 1) // 2
    g = rng_for(ctx.seed, 'seq', n, case['order'])
    # positive (Euclidean-like) values with a clearly non-zero mean
    X = np.round(g.uniform(0.5, 3.0, size=(2, L)), 4)
    Y = np.round(g.uniform(0.5, 3.0, size=(3, L)), 4)
    X0, Y0 = X.copy(), Y.copy()
    a, b = _wrap(X, case['rep']), _wrap(Y, case['rep'])
    orders = [['corr', 'cosine', 'corr_cov', 'cosine_cov', 'spearman', 'rho-a', 'tau-a', 'cosine'],
              ['corr_cov', 'cosine_cov', 'corr', 'cosine', 'kendall'],
              ['spearman', 'cosine', 'corr', 'cosine', 'rho-a', 'corr'],
              ['cosine_cov', 'corr', 'tau-a', 'cosine', 'corr_cov', 'cosine_cov']]
    seq = orders[case['order'] % len(orders)]

    def content(o):
        return fingerprint(o if isinstance(o, np.ndarray) else [o.dissimilarities, o.rdm_descriptors, o.pattern_descriptors])
    fa, fb = content(a), content(b)
    for step, method in enumerate(seq):
        sub = dict(case, step=step, method=method, sequence=seq)
        with ctx.guard('compare|sequence-on-same-inputs,method=%s' % method, sub):
            got = compare(a, b, method=method)
            tol = TOL_CG if method in WHITE else TOL_PLAIN
            _judge_matrix(ctx, sub, method, got, X0, Y0, None, tol, 'sequence-on-same-inputs')
            if content(a) != fa or content(b) != fb:
                ctx.fail('compare|method=%s|input-modified' % method, sub,
                         'compare(..., %r) changed its input objects' % method)
                return
    # the caller now writes new values into the SAME objects (a documented thing to do with the
    # arrays of an RDMs object): every measure must describe the current values, not remembered ones
    X1 = np.round(g.uniform(0.5, 3.0, size=X.shape), 4)
    Y1 = Y0[::-1].copy()
    if isinstance(a, np.ndarray):
        a[...] = X1
        b[...] = Y1
    else:
        a.dissimilarities[...] = X1
        b.dissimilarities[...] = Y1
    for step, method in enumerate(seq):
        sub = dict(case, step=step, method=method, sequence=seq, after='in-place write of new values')
        with ctx.guard('compare|after-in-place-write,method=%s' % method, sub):
            got = compare(a, b, method=method)
            tol = TOL_CG if method in WHITE else TOL_PLAIN
            _judge_matrix(ctx, sub, method, got, X1, Y1, None, tol, 'after-in-place-write')


def _bures(case, ctx):
    from rsatoolbox.rdm import compare
    method, n, d = case['method'], case['n_cond'], case['d']
    vecs = []
    seen = set()
    for cfg in combi.grid_points(n, d):
        v = tuple(float(sum((a - b) ** 2 for a, b in zip(cfg[i], cfg[j]))) for i, j in combi.pair_index(n))
        if not any(v):
            continue  # all points coincide
        if v in seen:
            continue
        seen.add(v)
        vecs.append(v)
    V = np.array(vecs)
    step = 1 if len(V) <= 60 else (len(V) // 40)
    X = V[::step]
    with ctx.guard('compare|method=%s,grid' % method, case):
        got = compare(_wrap(X, 'rdms'), _wrap(V, 'array'), method=method)
        _judge_matrix(ctx, case, method, got, X, V, None, TOL_BURES, 'grid')
