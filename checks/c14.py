"""C14 - noise covariance is the pooled residual covariance; precision is its inverse (DESIGN 4/C14)

Enumerates every design (conditions C in 1..3, every composition of the repetitions with total
<= 7), channel counts P in {1,2,3,5}, every row order (<= 5 rows) or structured orders, the four
estimation methods, dof None / scalar / list, single inputs and lists of two, for residual
matrices (cov/prec_from_residuals) and datasets (cov/prec_from_measurements, cov/prec_from_
unbalanced); values are exhaustive small-integer matrices for the smallest shapes plus fixed
integer / generic fills derived from ctx.seed.  Every library call is judged against
mc.ref.c14_ref (explicit loops).
"""
import functools
import itertools

import numpy as np

from mc import combi
from mc.ref import c14_ref as ref
from mc.util import rng_for

PROPERTY = 'C14'
LEVEL = 'exploration'
RULE = ('Designs: conditions C in 1..3 x every composition of the repetition counts with total n <= 7 '
        '(63 designs, balanced and unbalanced); channels P in {1,2,3,5}; row orders: n <= 5 every '
        'distinct label sequence (quick; rows of one condition keep their relative order) or all n! '
        'row permutations (thorough), n >= 6 by-condition / reversed / interleaved / rotated; label '
        'naming ints / scrambled strings; methods full, diag, shrinkage_eye, shrinkage_diag; dof None, '
        'scalar (n+1), list / ndarray (one per element); input single, list of 2 (partner = next '
        'design, other values), 3-D stack of 2 (residuals), tuple of 2 and (datasets) 1-D object '
        'ndarray of 2 (first row order); 0-d arrays and TemporalDatasets (4-D tensor) must be rejected; functions cov_/prec_from_residuals '
        '(one common mean), cov_/prec_from_unbalanced (all designs), cov_/prec_from_measurements '
        '(balanced designs).  Values: ALL matrices over {0,1,2} for the small shapes (n*P bound per '
        'tier) plus fixed fills per design from VERIF_SEED (small integers with ties and zeros; '
        'correlated Gaussians with condition offsets), each fill also multiplied by 1e-5 and 1e+4 '
        '(residuals: both fills, both scales, every form / dof / method; datasets: every design, P, '
        'family, form, dof None/scalar/list, method: Gaussian fill x 1e-5 in the first and last row '
        'order, x 1e+4 in the last, integer fill x 1e-5 in the first); extreme scales 1e-9, 1e-12, '
        '1e+8 x offset menu (noise centred per condition + column / condition means of 0, ~1, ~10 channel '
        'sd): residuals all 9 pairs x {single, list with dof list, 3-D stack} x 4 methods for every n, P; '
        'datasets 7 pairs (1e-9, 1e-12 x all offsets; 1e+8 x 10 sd) dealt round-robin over P, every '
        'design, family, {single, list with dof list}, 4 methods, first row order.  One evaluation = one library call judged '
        '(cov against the reference / convex-combination structure, all deviations relative to the '
        'magnitude of the reference covariance; prec against prec @ cov == I; one measurement-vs-'
        'unbalanced agreement; or, for scaled fills, one scale-equivariance comparison '
        'cov(c x) == c^2 cov(x), prec(c x) c^2 == prec(x) against the call on the unscaled fill).  Non-trivial = the residual scatter is not '
        'all zero; distinct = distinct case descriptor.')
ASSUMPTIONS = [
    'reference model mc/ref/c14_ref.py is correct (selftest cross-checks numpy.cov)',
    'a residual matrix is a one-condition design: residuals around the common column mean, dof n-1',
    'shrinkage intensity is not prescribed by the property beyond lambda in [0,1]; it is recovered '
    'from the output by least squares over all entries of out - S = lambda (T - S)',
    'when S equals its shrinkage target (always for one channel) every convex combination is S itself, '
    'so the estimate must equal S',
    'undefined and therefore excluded: dof <= 0; shrinkage_diag with a zero-variance channel (its '
    'correlations are undefined); shrinkage_eye with zero total variance; precision of a covariance '
    'that is singular or has condition number > 1e6; cov_from_measurements on unbalanced designs',
    'values outside the enumerated alphabets are represented by fixed fills only (at scales 1, 1e-5, 1e+4); '
    'float64 inputs only',
    'an input without one (observations x channels) matrix (0-d array; TemporalDataset, whose tensor by '
    'condition is 4-D) is outside the property; the library documents ValueError(wrong # of dimensions) '
    'for it, the check requires only that it is rejected with an exception and left untouched',
    'the `cov.ndim > 2` branches of prec_from_* (noise.py 277-279, 356-358, 441-443) are unreachable '
    'through the public functions: every multi-input form (list, tuple, 3-D/4-D array, object array) '
    'makes cov_from_* return a Python list and every single input a P x P matrix',
    'the estimators are scale-equivariant (covariance scales with c^2, precision with c^-2, shrinkage '
    'intensity is scale-free): a consequence of the definitions in the property',
]
TOL = 1e-9
LAM_TOL = 1e-6
INV_TOL = 1e-7
EQUI_PREC_TOL = 1e-6
COND_MAX = 1e6
TOLERANCES = {'covariance entries (relative to max |reference covariance|, floor 1e-6 max|x|^2)': TOL, 'lambda range': LAM_TOL,
              'prec @ cov - I': INV_TOL, 'cov(c x)/c^2 vs cov(x) (relative)': TOL,
              'prec(c x) c^2 vs prec(x) (relative)': EQUI_PREC_TOL, 'max condition number judged for precision': COND_MAX,
              'inputs unchanged': 'bit-identical'}
BOUNDS = {
    'quick': {'n_cond': [1, 2, 3], 'n_obs_max': 7, 'channels': [1, 2, 3, 5], 'orders': 'label sequences',
              'fills': {'int': 1, 'gauss': 1}, 'fill_scales': [1, 1e-5, 1e4], 'extreme_scales_x_offsets': [[1e-9, 1e-12, 1e8], [0, 1, 10]], 'alphabet_residuals_nP_max': 8, 'alphabet_datasets_nP_max': 4},
    'thorough': {'n_cond': [1, 2, 3], 'n_obs_max': 7, 'channels': [1, 2, 3, 5], 'orders': 'all permutations',
                 'fills': {'int': 2, 'gauss': 2}, 'fill_scales': [1, 1e-5, 1e4], 'extreme_scales_x_offsets': [[1e-9, 1e-12, 1e8], [0, 1, 10]], 'alphabet_residuals_nP_max': 10, 'alphabet_datasets_nP_max': 6},
}

PS = [1, 2, 3, 5]
METHODS = ['full', 'diag', 'shrinkage_eye', 'shrinkage_diag']
N_MAX = 7
ALPHA = (0.0, 1.0, 2.0)
ORDER_CHUNK = 15
SCALES = [1e-5, 1e4]      # value scales of the fills besides 1 (volts / tesla-like data; large counts)
XSCALES = [1e-9, 1e-12, 1e8]   # extreme scales (SI-unit MEG / EEG), combined with the offset menu
OFFSETS = [0, 1, 10]           # column / condition means in units of the channel's noise sd


# ------------------------------------------------------------------------------ enumeration
@functools.lru_cache(maxsize=None)
def _designs():
    out = []
    for c in (1, 2, 3):
        for n in range(c, N_MAX + 1):
            for reps in combi.compositions(n, c):
                out.append(tuple(reps))
    return tuple(out)


def designs():
    return [list(d) for d in _designs()]


def balanced_designs():
    return [list(d) for d in _designs() if len(set(d)) == 1]


def canon_labels(reps):
    return [c for c, r in enumerate(reps) for _ in range(r)]


def _stable_perm(seq, reps):
    start = [sum(reps[:c]) for c in range(len(reps))]
    used = [0] * len(reps)
    perm = []
    for c in seq:
        perm.append(start[c] + used[c])
        used[c] += 1
    return perm


def orders(reps, tier):
    """row orders as lists of canonical row indices"""
    n = sum(reps)
    lab = canon_labels(reps)
    if n <= 5:
        if tier == 'thorough':
            return [list(p) for p in itertools.permutations(range(n))]
        seqs = sorted(set(itertools.permutations(lab)))
        return [_stable_perm(s, reps) for s in seqs]
    ident = list(range(n))
    start = [sum(reps[:c]) for c in range(len(reps))]
    inter = [start[c] + k for k in range(max(reps)) for c in range(len(reps)) if k < reps[c]]
    rot = ident[n // 2:] + ident[:n // 2]
    out = []
    for p in (ident, ident[::-1], inter, rot):
        if p not in out:
            out.append(p)
    return out


def value_kinds(tier):
    k = 2 if tier == 'thorough' else 1
    return [{'kind': 'int', 'fill': f} for f in range(k)] + [{'kind': 'gauss', 'fill': f} for f in range(k)]


def combos(family):
    """(form, dof kind) combinations"""
    out = [('single', 'none'), ('single', 'scalar'),
           ('list', 'none'), ('list', 'scalar'), ('list', 'list'), ('list', 'array')]
    if family == 'residuals':
        out += [('stack3d', 'none'), ('stack3d', 'scalar'), ('stack3d', 'list')]
    return out


def _alpha_shapes_res(tier):
    lim = BOUNDS[tier]['alphabet_residuals_nP_max']
    return [(n, p) for p in PS for n in range(2, N_MAX + 1) if n * p <= lim]


def _alpha_shapes_ds(tier):
    lim = BOUNDS[tier]['alphabet_datasets_nP_max']
    return [(n, p) for p in (1, 2, 3) for n in range(2, N_MAX + 1) if n * p <= lim]


def shards(tier, seed):
    out = []
    for n in range(1, N_MAX + 1):
        for p in PS:
            out.append({'kind': 'res', 'n': n, 'P': p})
    for n, p in _alpha_shapes_res(tier):
        total = len(ALPHA) ** (n * p)
        step = 729 if total > 10000 else 243
        for a in range(0, total, step):
            out.append({'kind': 'res_alpha', 'n': n, 'P': p, 'range': [a, min(total, a + step)]})
    for reps in designs():
        n_ord = len(orders(reps, tier))
        for p in PS:
            for a in range(0, n_ord, ORDER_CHUNK):
                out.append({'kind': 'ds', 'reps': reps, 'P': p, 'orders': [a, min(n_ord, a + ORDER_CHUNK)]})
    shapes = set(_alpha_shapes_ds(tier))
    for reps in designs():
        n = sum(reps)
        n_ord = len(orders(reps, 'quick'))
        for p in (1, 2, 3):
            if (n, p) not in shapes:
                continue
            total = len(ALPHA) ** (n * p)
            step = max(9, min(total, (400 // n_ord) // 9 * 9 or 9))
            for a in range(0, total, step):
                out.append({'kind': 'ds_alpha', 'reps': reps, 'P': p, 'range': [a, min(total, a + step)]})
    return out


def run_shard(shard, ctx):
    kind = shard['kind']
    tier = ctx.tier
    if kind == 'res':
        n, p = shard['n'], shard['P']
        for values in value_kinds(tier):
            for scale in [None] + SCALES:
                v = values if scale is None else dict(values, scale=scale)
                for form, dofk in combos('residuals'):
                    for m in METHODS:
                        run_case({'family': 'residuals', 'reps': [n], 'P': p, 'values': v,
                                  'method': m, 'dof': dofk, 'form': form}, ctx)
        for values in value_kinds(tier):        # further container form: tuple of two matrices
            for dofk in ('none', 'scalar', 'list'):
                for m in METHODS:
                    run_case({'family': 'residuals', 'reps': [n], 'P': p, 'values': values,
                              'method': m, 'dof': dofk, 'form': 'tuple'}, ctx)
        # extreme scales x offset menu (Gaussian fill 0): centred / means ~ 1 sd / ~ 10 sd
        for scale in XSCALES:
            for off in OFFSETS:
                v = {'kind': 'gauss', 'fill': 0, 'offset': off, 'scale': scale}
                for form, dofk in (('single', 'none'), ('list', 'list'), ('stack3d', 'none')):
                    for m in METHODS:
                        run_case({'family': 'residuals', 'reps': [n], 'P': p, 'values': v,
                                  'method': m, 'dof': dofk, 'form': form}, ctx)
        if n == 1:
            _reject_cases(p, ctx)
    elif kind == 'res_alpha':
        n, p = shard['n'], shard['P']
        for idx in range(shard['range'][0], shard['range'][1]):
            for dofk in ('none', 'scalar'):
                for m in METHODS:
                    run_case({'family': 'residuals', 'reps': [n], 'P': p,
                              'values': {'kind': 'alpha', 'idx': idx},
                              'method': m, 'dof': dofk, 'form': 'single'}, ctx)
    elif kind == 'ds':
        reps, p = shard['reps'], shard['P']
        balanced = len(set(reps)) == 1
        ords = orders(reps, tier)[shard['orders'][0]:shard['orders'][1]]
        for perm in ords:
            for naming in ('int', 'str'):
                for values in value_kinds(tier):
                    for family in ('unbalanced', 'measurements'):
                        if family == 'measurements' and not balanced:
                            ctx.exclude('cov_from_measurements not defined for unbalanced designs')
                            continue
                        for form, dofk in combos(family):
                            for m in METHODS:
                                run_case({'family': family, 'reps': reps, 'perm': perm, 'P': p,
                                          'naming': naming, 'values': values,
                                          'method': m, 'dof': dofk, 'form': form}, ctx)
        if shard['orders'][0] == 0:
            # value scales: the generic (Gaussian) fills at 1e-5 in the first and the last row order
            # of the label-sequence enumeration (by-condition and its mirror image) and at 1e+4 in
            # the last, the integer fills at 1e-5 in the first; int / string labels alternate
            allq = orders(reps, 'quick')
            first, last = allq[0], allq[-1]
            plan = []
            for values in value_kinds(tier):
                if values['kind'] == 'gauss':
                    plan += [(values, 1e-5, first, 'int'), (values, 1e4, last, 'str')]
                    if last != first:
                        plan.append((values, 1e-5, last, 'str'))
                else:
                    plan.append((values, 1e-5, first, 'str'))
            # extreme scales x offset menu (Gaussian fill 0, first row order): the 7 (scale, offset)
            # pairs are dealt round-robin over the channel counts, every design sees all of them
            pairs = [(sc, off) for sc in XSCALES[:2] for off in OFFSETS] + [(XSCALES[2], OFFSETS[-1])]
            for k, (scale, off) in enumerate(pairs):
                if PS[k % len(PS)] != p:
                    continue
                v = {'kind': 'gauss', 'fill': 0, 'offset': off, 'scale': scale}
                for family in (('unbalanced', 'measurements') if balanced else ('unbalanced',)):
                    for form, dofk in (('single', 'none'), ('list', 'list')):
                        for m in METHODS:
                            run_case({'family': family, 'reps': reps, 'perm': first, 'P': p,
                                      'naming': 'int', 'values': v,
                                      'method': m, 'dof': dofk, 'form': form}, ctx)
            # further container forms of two datasets: tuple, 1-D object ndarray (first row order,
            # Gaussian fills, unscaled)
            for values in value_kinds(tier):
                if values['kind'] != 'gauss':
                    continue
                for family in (('unbalanced', 'measurements') if balanced else ('unbalanced',)):
                    for form in ('tuple', 'objarray'):
                        for dofk in ('none', 'scalar', 'list'):
                            for m in METHODS:
                                run_case({'family': family, 'reps': reps, 'perm': first, 'P': p,
                                          'naming': 'str', 'values': values,
                                          'method': m, 'dof': dofk, 'form': form}, ctx)
            for values, scale, perm, naming in plan:
                for family in (('unbalanced', 'measurements') if balanced else ('unbalanced',)):
                    for form, dofk in combos(family):
                        if dofk == 'array':
                            continue
                        for m in METHODS:
                            run_case({'family': family, 'reps': reps, 'perm': perm, 'P': p,
                                      'naming': naming, 'values': dict(values, scale=scale),
                                      'method': m, 'dof': dofk, 'form': form}, ctx)
    elif kind == 'ds_alpha':
        reps, p = shard['reps'], shard['P']
        balanced = len(set(reps)) == 1
        # exhaustive values already contain every permutation of the data rows, so the label
        # sequences (stable orders) are the complete set of row orders here in both tiers
        for perm in orders(reps, 'quick'):
            for idx in range(shard['range'][0], shard['range'][1]):
                for family in (('unbalanced', 'measurements') if balanced else ('unbalanced',)):
                    for dofk in ('none', 'scalar'):
                        for m in METHODS:
                            run_case({'family': family, 'reps': reps, 'perm': perm, 'P': p,
                                      'naming': 'int', 'values': {'kind': 'alpha', 'idx': idx},
                                      'method': m, 'dof': dofk, 'form': 'single'}, ctx)
    else:
        raise ValueError(kind)


# ------------------------------------------------------------------------------ inputs
_STR_NAMES = ['cz7', 'ca3', 'cq0']      # sorted order (ca3, cq0, cz7) != condition order


def _names(naming, k):
    if naming == 'str':
        return _STR_NAMES[:k]
    return list(range(k))


def _matrix(values, reps, p, seed, role):
    """n x P float array in canonical (by-condition) row order (fresh copy)"""
    x = _matrix_cached(values['kind'], values.get('idx', values.get('fill')), tuple(reps), p, seed, role,
                       values.get('offset'))
    return x * float(values.get('scale', 1.0))


@functools.lru_cache(maxsize=4096)
def _matrix_cached(vkind, vnum, reps, p, seed, role, offset=None):
    values = {'kind': vkind, 'idx': vnum, 'fill': vnum}
    n = sum(reps)
    lab = canon_labels(reps)
    kind = values['kind']
    if kind == 'alpha':
        idx = values['idx']
        if role:
            idx = (idx * 7 + 3) % (len(ALPHA) ** (n * p))
        digits = []
        for _ in range(n * p):
            digits.append(ALPHA[idx % len(ALPHA)])
            idx //= len(ALPHA)
        return np.array(digits[::-1], dtype=float).reshape(n, p)
    g = rng_for(seed, 'c14' + kind, values['fill'], p, role, len(reps), *reps)
    if kind == 'int':
        x = g.integers(-2, 3, size=(n, p)).astype(float)
        x += np.array(lab, dtype=float)[:, None]
        return x
    if kind == 'gauss' and offset is not None:
        # offset menu: noise centred within every condition + offset x (channel sd) x u[cond, channel],
        # |u| in [0.7, 1.3]: column / condition means of 0, ~1 or ~10 standard deviations
        g = rng_for(seed, 'c14gaussoff', values['fill'], p, role, len(reps), *reps)
        z = g.normal(size=(n, p))
        mix = np.eye(p) + 0.5 * g.normal(size=(p, p))
        noise = (z @ mix) * g.uniform(0.5, 2.0, size=p)
        labs = np.array(lab)
        for c in range(len(reps)):
            noise[labs == c] -= noise[labs == c].mean(axis=0, keepdims=True)
        sd = np.sqrt(np.mean(noise ** 2, axis=0))
        sd = np.where(sd > 0, sd, 1.0)
        u = g.uniform(0.7, 1.3, size=(len(reps), p)) * g.choice([-1.0, 1.0], size=(len(reps), p))
        return noise + float(offset) * sd * u[lab]
    if kind == 'gauss':
        z = g.normal(size=(n, p))
        mix = np.eye(p) + 0.5 * g.normal(size=(p, p))
        scale = g.uniform(0.5, 2.0, size=p)
        offs = 3.0 * g.normal(size=(len(reps), p))
        x = (z @ mix) * scale + offs[lab]
        return np.round(x, 4)
    raise ValueError(kind)


def _partner_design(family, reps, form):
    if family == 'residuals':
        n = reps[0]
        if form == 'stack3d':
            return [n]
        return [n + 1 if n < N_MAX else 2]
    pool = balanced_designs() if family == 'measurements' else designs()
    i = pool.index(list(reps))
    return pool[(i + 1) % len(pool)]


def _element(family, reps, perm, p, naming, values, seed, role):
    """(X array n x P in presented order, labels list in presented order)"""
    x = _matrix(values, reps, p, seed, role)
    lab = canon_labels(reps)
    if perm is not None:
        x = x[perm]
        lab = [lab[i] for i in perm]
    if family == 'residuals':
        return np.ascontiguousarray(x), [0] * len(lab)
    names = _names(naming, len(reps))
    return np.ascontiguousarray(x), [names[c] for c in lab]


def _dataset(x, labels):
    from rsatoolbox.data import Dataset
    return Dataset(x.copy(), obs_descriptors={'cond': list(labels)})


def _fp_inputs(objs, dofarg):
    """bit-level fingerprint of everything handed to the library"""
    parts = []
    for o in objs:
        if isinstance(o, np.ndarray):
            parts.append((str(o.dtype), o.shape, o.tobytes()))
        else:
            m = o.measurements
            parts.append((str(m.dtype), m.shape, m.tobytes(), repr(o.obs_descriptors),
                          repr(o.channel_descriptors), repr(o.descriptors)))
    if isinstance(dofarg, np.ndarray):
        parts.append((str(dofarg.dtype), dofarg.shape, dofarg.tobytes()))
    else:
        parts.append(repr(dofarg))
    return hash(tuple(parts))


@functools.lru_cache(maxsize=8192)
def _ref_scatter(xbytes, n, p, labels):
    """reference pooled scatter sum r r' (cached: one design is judged for many methods / dofs)"""
    x = np.frombuffer(xbytes, dtype=float).reshape(n, p).tolist()
    res = ref.residuals(x, list(labels))
    return ref.scatter(res, p), max((abs(v) for r in res for v in r), default=0.0)


def _ref_full(x, labels, dof):
    """(S, dof used) from the reference model"""
    if dof is None:
        dof = ref.natural_dof(labels)
    a, _ = _ref_scatter(x.tobytes(), x.shape[0], x.shape[1], tuple(labels))
    p = x.shape[1]
    return [[a[j][k] / dof for k in range(p)] for j in range(p)], dof


# ------------------------------------------------------------------------------ judging
def _dofclass(dofk):
    return 'list' if dofk in ('list', 'array') else dofk


def _sig(func, case, kind, specific=None, c1=False):
    if specific is not None:
        cfg = 'method=%s' % case['method'] + (',' + specific if specific else '')
    else:
        cfg = '%s,dof=%s' % (case['form'], _dofclass(case['dof']))
    if c1:
        cfg += ',n_cond=1'
    return '%s|%s|%s' % (func, cfg, kind)


def _unit(s, x):
    """magnitude against which deviations of a covariance estimate are measured: the largest
    entry of the reference covariance (floor: 1e-6 x the squared data magnitude, so that
    rounding residue of constant channels is not compared relatively).  Scale-equivariant."""
    return max(ref.max_abs(s), 1e-6 * float(np.max(np.abs(x))) ** 2, 1e-300)


def _mdev(a, b, unit):
    """largest entry-wise deviation relative to unit (inf for shape / NaN mismatch)"""
    a, b = np.asarray(a, float), np.asarray(b, float)
    if a.shape != b.shape or not (np.all(np.isfinite(a)) and np.all(np.isfinite(b))):
        return float('inf')
    if a.size == 0:
        return 0.0
    return float(np.max(np.abs(a - b))) / unit


def _mclose(a, b, tol, unit):
    return _mdev(a, b, unit) <= tol


def _judge_cov(ctx, func, case, out, x, labels, dof, c1):
    """judge one covariance estimate. returns ('ok', ndarray) | ('fail', None) | ('excluded', None)"""
    method = case['method']
    p = x.shape[1]
    s, dof_used = _ref_full(x, labels, dof)
    if not isinstance(out, np.ndarray) or out.shape != (p, p):
        ctx.fail(_sig(func, case, 'shape'), case,
                 'estimate has shape %r, expected one %dx%d matrix per input element' % (np.shape(out), p, p))
        return 'fail', None
    zero_thr = 1e-20 * float(np.max(np.abs(x))) ** 2
    variances = [s[j][j] for j in range(p)]
    if method == 'shrinkage_diag' and min(variances) <= zero_thr:
        ctx.exclude('shrinkage_diag undefined: zero-variance channel')
        return 'excluded', None
    if method == 'shrinkage_eye' and max(variances) <= zero_thr:
        ctx.exclude('shrinkage_eye undefined: zero total variance')
        return 'excluded', None
    o = out.tolist()
    finite = bool(np.all(np.isfinite(out)))
    sc = _unit(s, x)
    if method in ('full', 'diag'):
        want = s if method == 'full' else ref.diag_cov(s)
        if not finite:
            ctx.fail(_sig(func, case, 'nonfinite', c1=c1), case,
                     'non-finite estimate %r; reference (dof %s) %r; rows %r labels %r' % (o, dof_used, want, x.tolist(), labels))
            return 'fail', None
        ctx.dev('cov/' + method, _mdev(out, want, sc))
        if _mclose(out, want, TOL, sc):
            ctx.outcome((method, p, '%.6g' % sum(variances)))
            return 'ok', out
        tr_o, tr_w = sum(o[j][j] for j in range(p)), sum(variances)
        if tr_w > zero_thr and tr_o > 0 and _mclose(np.array(o) * (tr_w / tr_o), want, TOL, sc):
            ctx.fail(_sig(func, case, 'scaled-by-constant'), case,
                     'estimate = %.6g x reference (reference dof %s => library used dof %.6g); rows %r labels %r'
                     % (tr_o / tr_w, dof_used, dof_used * tr_w / tr_o, x.tolist(), labels))
        else:
            ctx.fail(_sig(func, case, 'value-mismatch', specific=''), case,
                     'got %r, reference (dof %s) %r; rows %r labels %r' % (o, dof_used, want, x.tolist(), labels))
        return 'fail', None
    # shrinkage estimates
    t = ref.target(method, s)
    s_eq_t = ref.max_abs_diff(s, t) <= TOL * sc
    if not finite:
        if s_eq_t:
            ctx.fail(_sig(func, case, 'nan', specific='S==target', c1=c1), case,
                     'S equals its shrinkage target (P=%d) so every convex combination is S = %r, got %r; rows %r labels %r'
                     % (p, s, o, x.tolist(), labels))
        else:
            ctx.fail(_sig(func, case, 'nonfinite', c1=c1), case,
                     'non-finite estimate %r; S (dof %s) %r; rows %r labels %r' % (o, dof_used, s, x.tolist(), labels))
        return 'fail', None
    status = 'ok'
    if ref.asymmetry(o) > TOL * sc:
        ctx.fail(_sig(func, case, 'asymmetric', specific=''), case, 'got %r' % o)
        status = 'fail'
    if s_eq_t:
        ctx.count('shrinkage: S == target')
        ctx.dev('cov/' + method, _mdev(out, s, sc))
        if not _mclose(out, s, 10 * TOL, sc):
            tr_o, tr_s = sum(o[j][j] for j in range(p)), sum(variances)
            if tr_s > zero_thr and tr_o > 0 and _mclose(np.array(o) * (tr_s / tr_o), s, 10 * TOL, sc):
                ctx.fail(_sig(func, case, 'scaled-by-constant'), case,
                         'estimate = %.6g x S (reference dof %s => library used dof %.6g); rows %r labels %r'
                         % (tr_o / tr_s, dof_used, dof_used * tr_s / tr_o, x.tolist(), labels))
            else:
                ctx.fail(_sig(func, case, 'differs-from-S', specific='S==target'), case,
                         'S equals its target, estimate must be S = %r, got %r; rows %r labels %r'
                         % (s, o, x.tolist(), labels))
            return 'fail', None
        lam = None
    else:
        lam, resid = ref.recover_lambda(o, s, t)
        ctx.dev('convex-residual/' + method, resid / sc)
        if resid > TOL * sc:
            tr_o, tr_s = sum(o[j][j] for j in range(p)), sum(variances)
            scaled = False
            if tr_s > zero_thr and tr_o > 0:
                c = tr_o / tr_s
                o2 = [[v / c for v in row] for row in o]
                lam2, resid2 = ref.recover_lambda(o2, s, t)
                scaled = abs(c - 1) > TOL and resid2 <= TOL * sc and -LAM_TOL <= lam2 <= 1 + LAM_TOL
            if scaled:
                ctx.fail(_sig(func, case, 'scaled-by-constant'), case,
                         'estimate = %.6g x a convex combination of S and its target (reference dof %s => '
                         'library used dof %.6g); rows %r labels %r' % (c, dof_used, dof_used / c, x.tolist(), labels))
            else:
                ctx.fail(_sig(func, case, 'not-convex-combination', specific=''), case,
                         'best lambda %.9g leaves residual %.3g: got %r, S %r, target %r; rows %r labels %r'
                         % (lam, resid, o, s, t, x.tolist(), labels))
            return 'fail', None
        if not (-LAM_TOL <= lam <= 1 + LAM_TOL):
            ctx.fail(_sig(func, case, 'lambda-out-of-range', specific=''), case,
                     'shrinkage intensity %.9g outside [0,1]: got %r, S %r; rows %r labels %r'
                     % (lam, o, s, x.tolist(), labels))
            status = 'fail'
        ctx.count('shrinkage: lambda=0' if lam < 1e-9 else ('shrinkage: lambda=1' if lam > 1 - 1e-9
                                                           else 'shrinkage: 0<lambda<1'))
    w = ref.eigenvalues(o)
    if w[0] < -TOL * sc:
        ctx.fail(_sig(func, case, 'not-psd', specific=''), case, 'eigenvalues %r of %r' % (w.tolist(), o))
        status = 'fail'
    if lam is not None and lam > LAM_TOL:
        tmin = min(t[j][j] for j in range(p))
        if not w[0] >= lam * tmin * (1 - 1e-6) - 1e-12 * sc or not w[0] > 0:
            ctx.fail(_sig(func, case, 'not-pd-with-active-shrinkage', specific=''), case,
                     'lambda %.6g, smallest eigenvalue %.6g (< lambda * %.6g); got %r' % (lam, w[0], tmin, o))
            status = 'fail'
    ctx.outcome((method, p, None if lam is None else round(lam, 3), '%.6g' % sum(variances)))
    return (status, out if status == 'ok' else None)


def _as_elements(ctx, func, case, out, n_el):
    """split a list result into its elements (None on wrong nesting)"""
    if case['form'] == 'single':
        return [out]
    ok = isinstance(out, (list, tuple, np.ndarray)) and len(out) == n_el
    if ok:
        for e in out:
            if not isinstance(e, np.ndarray) or e.ndim != 2:
                ok = False
    if not ok:
        ctx.fail(_sig(func, case, 'shape'), case,
                 'result of shape %r for a %s of %d inputs: expected one matrix per element'
                 % (np.shape(out), case['form'], n_el))
        return None
    return list(out)


def _elements(case, values, seed):
    """[(X, labels), ...] for the case (second element = partner of list forms)"""
    family, form = case['family'], case['form']
    reps, p = list(case['reps']), case['P']
    naming = case.get('naming', 'int')
    els = [_element(family, reps, case.get('perm'), p, naming, values, seed, 0)]
    if form != 'single':
        preps = _partner_design(family, reps, form)
        pperm = None if family == 'residuals' else list(range(sum(preps)))[::-1]
        els.append(_element(family, preps, pperm, p, naming, values, seed, 1))
    return els


def _lib_inputs(family, form, els):
    """(positional args for the library call, objects to fingerprint, per-element objects)"""
    if family == 'residuals':
        objs = [x.copy() for x, _ in els]
        arg = {'single': lambda: objs[0], 'list': lambda: objs, 'tuple': lambda: tuple(objs),
               'stack3d': lambda: np.stack(objs)}[form]()
        return (arg,), ([arg] if form == 'stack3d' else objs), objs
    objs = [_dataset(x, lab) for x, lab in els]
    if form == 'objarray':          # 1-D ndarray (dtype object) of Dataset objects
        arg = np.empty(len(objs), dtype=object)
        for i, o in enumerate(objs):
            arg[i] = o
    else:
        arg = {'single': lambda: objs[0], 'list': lambda: objs, 'tuple': lambda: tuple(objs)}[form]()
    return (arg, 'cond'), objs, objs


REJECT_TARGETS = ['residuals:0-d array', 'measurements:TemporalDataset']


def _reject_cases(p, ctx):
    for target in REJECT_TARGETS:
        for func in ('cov', 'prec'):
            for dofk in ('none', 'scalar'):
                for m in METHODS:
                    run_case({'kind': 'reject', 'target': target, 'func': func, 'P': p,
                              'method': m, 'dof': dofk}, ctx)


def _run_reject(case, ctx, noise):
    """inputs that are neither a residual matrix nor a Dataset with one measurement matrix (a 0-d
    array; a TemporalDataset, whose measurement tensor by condition is 4-D): the library documents
    ValueError('... wrong # of dimensions'); required here: an exception, inputs untouched"""
    family, what = case['target'].split(':')
    p = case['P']
    f = getattr(noise, '%s_from_%s' % (case['func'], family))
    dofarg = None if case['dof'] == 'none' else 3
    g = rng_for(ctx.seed, 'c14reject', p)
    if family == 'residuals':
        arr = np.array(float(np.round(g.normal(), 3)))
        args, held = (arr,), [arr]
    else:
        from rsatoolbox.data import TemporalDataset
        m = np.round(g.normal(size=(4, p, 2)), 3)
        ds = TemporalDataset(m.copy(), obs_descriptors={'cond': [0, 0, 1, 1]})
        args, held = (ds, 'cond'), [ds]
    ctx.case(case)
    before = _fp_inputs(held, dofarg)
    sigp = '%s|%s,dof=%s' % (f.__name__, what, case['dof'])
    try:
        with np.errstate(all='ignore'):
            out = f(*args, dof=dofarg, method=case['method'])
    except Exception as e:       # rejected: the expected outcome
        ctx.outcome(('rejected', type(e).__name__))
    else:
        ctx.fail(sigp + '|accepted-undefined-input', case,
                 'returned %r for an input without a (observations x channels) matrix' % (out,))
    if _fp_inputs(held, dofarg) != before:
        ctx.fail(sigp + '|input-modified', case, 'inputs differ bitwise after the call')


def run_case(case, ctx):
    from rsatoolbox.data import noise
    if case.get('kind') == 'reject':
        return _run_reject(case, ctx, noise)
    family, method, form, dofk = case['family'], case['method'], case['form'], case['dof']
    p = case['P']
    reps = list(case['reps'])
    seed = ctx.seed
    els = _elements(case, case['values'], seed)
    n_obs = [len(lab) for _, lab in els]
    # dof argument and the dof each element must be estimated with
    if dofk == 'none':
        dofarg, want_dof = None, [None] * len(els)
    elif dofk == 'scalar':
        dofarg = n_obs[0] + 1
        want_dof = [dofarg] * len(els)
    else:
        want_dof = [n_obs[0] + 1, n_obs[1] + 3]
        dofarg = list(want_dof) if dofk == 'list' else np.array(want_dof)
    for (x, lab), d in zip(els, want_dof):
        if (ref.natural_dof(lab) if d is None else d) <= 0:
            ctx.exclude('dof <= 0 (observations minus conditions)')
            return
    # configuration class of its own: measurement tensor of a single condition with the natural dof
    c1 = family == 'measurements' and form == 'single' and dofk == 'none' and len(reps) == 1
    nontrivial = any(_ref_scatter(x.tobytes(), x.shape[0], x.shape[1], tuple(lab))[1] > 0 for x, lab in els)
    args, held, objs = _lib_inputs(family, form, els)
    cov_f = getattr(noise, 'cov_from_' + family)
    prec_f = getattr(noise, 'prec_from_' + family)
    gp = '%s,dof=%s,method=%s%s' % (form, _dofclass(dofk), method, ',n_cond=1' if c1 else '')

    # ---- covariance
    ccase = dict(case, func='cov')
    ctx.case(ccase, nontrivial=nontrivial)
    before = _fp_inputs(held, dofarg)
    out = None
    with ctx.guard('%s|%s' % (cov_f.__name__, gp), ccase) as g:
        with np.errstate(all='ignore'):
            out = cov_f(*args, dof=dofarg, method=method)
    if not g.ok:
        return
    if _fp_inputs(held, dofarg) != before:
        ctx.fail(_sig(cov_f.__name__, case, 'input-modified'), ccase, 'inputs differ bitwise after the call')
    parts = _as_elements(ctx, cov_f.__name__, ccase, out, len(els))
    if parts is None:
        ctx.exclude('precision not judged: covariance call already reported')
        return
    results = [_judge_cov(ctx, cov_f.__name__, ccase, o, x, lab, d, c1)
               for o, (x, lab), d in zip(parts, els, want_dof)]
    states = [r[0] for r in results]

    # ---- agreement of the measurement-based and the unbalanced estimator (balanced designs)
    if family == 'measurements' and form == 'single' and states[0] != 'excluded':
        acase = dict(case, func='agree')
        ctx.case(acase, nontrivial=nontrivial)
        with ctx.guard('cov_from_unbalanced|%s' % gp, acase) as g2:
            with np.errstate(all='ignore'):
                other = noise.cov_from_unbalanced(objs[0], 'cond', dof=dofarg, method=method)
        if g2.ok:
            a, b = np.asarray(parts[0], float), np.asarray(other, float)
            if a.shape != b.shape or not (np.all(np.isfinite(a)) and np.all(np.isfinite(b))):
                ctx.exclude('agreement not judged: an estimate is non-finite / mis-shaped (reported by its own oracle)')
            else:
                unit = _unit(_ref_full(els[0][0], els[0][1], want_dof[0])[0], els[0][0])
                ctx.dev('agree', _mdev(a, b, unit))
                if not _mclose(a, b, TOL, unit):
                    ctx.fail('cov_from_measurements~cov_from_unbalanced|balanced,dof=%s|disagree' % _dofclass(dofk),
                             acase, 'measurements %r vs unbalanced %r; rows %r labels %r'
                             % (a.tolist(), b.tolist(), els[0][0].tolist(), els[0][1]))

    # ---- precision
    pparts = _precision(ctx, case, prec_f, args, held, dofarg, results, states, gp, c1, nontrivial, p)

    # ---- scale equivariance: cov(c x) == c^2 cov(x), prec(c x) c^2 == prec(x)
    c = float(case['values'].get('scale', 1.0))
    if c != 1.0:
        _equivariance(ctx, case, noise, dofarg, parts, states, pparts, gp, nontrivial, c)


def _precision(ctx, case, prec_f, args, held, dofarg, results, states, gp, c1, nontrivial, p):
    """call and judge prec_from_*; returns the judged precision matrices (or None)"""
    if 'fail' in states:
        ctx.exclude('precision not judged: covariance call already reported')
        return None
    if 'excluded' in states:
        ctx.exclude('precision not judged: shrinkage covariance undefined')
        return None
    for _, cov in results:
        w = ref.eigenvalues(cov.tolist())
        if not (w[0] > 0 and w[-1] / w[0] <= COND_MAX):
            ctx.exclude('precision undefined: covariance singular or condition number > 1e6')
            return None
    pcase = dict(case, func='prec')
    ctx.case(pcase, nontrivial=nontrivial)
    before = _fp_inputs(held, dofarg)
    pout = None
    with ctx.guard('%s|%s' % (prec_f.__name__, gp), pcase) as g3:
        with np.errstate(all='ignore'):
            pout = prec_f(*args, dof=dofarg, method=case['method'])
    if not g3.ok:
        return None
    if _fp_inputs(held, dofarg) != before:
        ctx.fail(_sig(prec_f.__name__, case, 'input-modified'), pcase, 'inputs differ bitwise after the call')
    pparts = _as_elements(ctx, prec_f.__name__, pcase, pout, len(results))
    if pparts is None:
        return None
    good = True
    for pr, (_, cov) in zip(pparts, results):
        if pr.shape != (p, p):
            ctx.fail(_sig(prec_f.__name__, case, 'shape'), pcase, 'precision of shape %r' % (pr.shape,))
            good = False
            continue
        if not np.all(np.isfinite(pr)):
            ctx.fail(_sig(prec_f.__name__, case, 'nonfinite', c1=c1), pcase,
                     'precision %r for covariance %r' % (pr.tolist(), cov.tolist()))
            good = False
            continue
        d = max(ref.identity_defect(pr.tolist(), cov.tolist()), ref.identity_defect(cov.tolist(), pr.tolist()))
        ctx.dev('prec@cov-I', d)
        if d > INV_TOL:
            ctx.fail(_sig(prec_f.__name__, case, 'not-inverse', specific=''), pcase,
                     'max |prec @ cov - I| = %.3g; prec %r; cov %r' % (d, pr.tolist(), cov.tolist()))
    # well-formed precisions go on to the (independent) scale-equivariance oracle
    return pparts if good else None


def _equivariance(ctx, case, noise, dofarg, parts, states, pparts, gp, nontrivial, c):
    """the same call on the unscaled data (scale 1) must give cov / c^2 and prec * c^2"""
    family, form, method = case['family'], case['form'], case['method']
    values1 = dict(case['values'])
    values1.pop('scale', None)
    els1 = _elements(case, values1, ctx.seed)
    args1, _, _ = _lib_inputs(family, form, els1)
    for kind, scaled, factor, tol in (('cov', parts, 1.0 / (c * c), TOL), ('prec', pparts, c * c, EQUI_PREC_TOL)):
        if scaled is None:
            continue
        f = getattr(noise, '%s_from_%s' % (kind, family))
        ecase = dict(case, func='equivariance-' + kind)
        ctx.case(ecase, nontrivial=nontrivial)
        base = None
        with ctx.guard('%s|%s,scale=1' % (f.__name__, gp), ecase) as g:
            with np.errstate(all='ignore'):
                base = f(*args1, dof=dofarg, method=method)
        if not g.ok:
            continue
        base = [base] if form == 'single' else base
        if not isinstance(base, (list, tuple, np.ndarray)) or len(base) != len(scaled):
            ctx.exclude('equivariance not judged: unscaled result mis-shaped (reported by its own case)')
            continue
        for i, (a, b) in enumerate(zip(scaled, base)):
            if kind == 'cov' and states[i] != 'ok':
                continue
            b = np.asarray(b, float)
            if b.shape != np.shape(a) or not np.all(np.isfinite(b)):
                ctx.exclude('equivariance not judged: unscaled result mis-shaped / non-finite (reported by its own case)')
                continue
            unit = max(float(np.max(np.abs(b))), 1e-300)
            dev = _mdev(np.asarray(a, float) * factor, b, unit)
            ctx.dev('equivariance/' + kind, dev)
            if dev > tol:
                ctx.fail(_sig(f.__name__, case, 'not-scale-equivariant', specific=''), ecase,
                         '%s(c x) %s differs from %s(x) by %.3g (relative), c = %g: scaled-back %r vs %r; rows (unscaled) %r labels %r'
                         % (kind, '/ c^2' if kind == 'cov' else '* c^2', kind, dev, c,
                            (np.asarray(a, float) * factor).tolist(), b.tolist(), els1[i][0].tolist(), els1[i][1]))
