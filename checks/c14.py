"""C14 - noise covariance is the pooled residual covariance; precision is its inverse (DESIGN 4/C14)

Enumerates every design (conditions C in 1..3, every composition of the repetitions with total
<= 7), channel counts P in {1,2,3,5}, every row order (<= 5 rows) or structured orders, the four
estimation methods, dof None / scalar / list, single inputs and lists of two, for residual
matrices (cov/prec_from_residuals) and datasets (cov/prec_from_measurements, cov/prec_from_
unbalanced); values are exhaustive small-integer matrices for the smallest shapes plus fixed
integer / generic fills derived from ctx.seed.  Every library call is judged against
mc.ref.c14_ref (explicit loops).
"""
import functools
import itertools

import numpy as np

from mc import combi
from mc.ref import c14_ref as ref
from mc.util import allclose, maxreldev, rng_for

PROPERTY = 'C14'
LEVEL = 'exploration'
RULE = ('Designs: conditions C in 1..3 x every composition of the repetition counts with total n <= 7 '
        '(63 designs, balanced and unbalanced); channels P in {1,2,3,5}; row orders: n <= 5 every '
        'distinct label sequence (quick; rows of one condition keep their relative order) or all n! '
        'row permutations (thorough), n >= 6 by-condition / reversed / interleaved / rotated; label '
        'naming ints / scrambled strings; methods full, diag, shrinkage_eye, shrinkage_diag; dof None, '
        'scalar (n+1), list / ndarray (one per element); input single, list of 2 (partner = next '
        'design, other values), 3-D stack of 2 (residuals); functions cov_/prec_from_residuals '
        '(one common mean), cov_/prec_from_unbalanced (all designs), cov_/prec_from_measurements '
        '(balanced designs).  Values: ALL matrices over {0,1,2} for the small shapes (n*P bound per '
        'tier) plus fixed fills per design from VERIF_SEED (small integers with ties and zeros; '
        'correlated Gaussians with condition offsets).  One evaluation = one library call judged '
        '(cov against the reference / convex-combination structure, prec against prec @ cov == I, '
        'or one measurement-vs-unbalanced agreement).  Non-trivial = the residual scatter is not '
        'all zero; distinct = distinct case descriptor.')
ASSUMPTIONS = [
    'reference model mc/ref/c14_ref.py is correct (selftest cross-checks numpy.cov)',
    'a residual matrix is a one-condition design: residuals around the common column mean, dof n-1',
    'shrinkage intensity is not prescribed by the property beyond lambda in [0,1]; it is recovered '
    'from the output by least squares over all entries of out - S = lambda (T - S)',
    'when S equals its shrinkage target (always for one channel) every convex combination is S itself, '
    'so the estimate must equal S',
    'undefined and therefore excluded: dof <= 0; shrinkage_diag with a zero-variance channel (its '
    'correlations are undefined); shrinkage_eye with zero total variance; precision of a covariance '
    'that is singular or has condition number > 1e6; cov_from_measurements on unbalanced designs',
    'values outside the enumerated alphabets are represented by fixed fills only; float64 inputs only',
]
TOL = 1e-9
LAM_TOL = 1e-6
INV_TOL = 1e-7
COND_MAX = 1e6
TOLERANCES = {'covariance entries (relative to max(1,|v|))': TOL, 'lambda range': LAM_TOL,
              'prec @ cov - I': INV_TOL, 'max condition number judged for precision': COND_MAX,
              'inputs unchanged': 'bit-identical'}
BOUNDS = {
    'quick': {'n_cond': [1, 2, 3], 'n_obs_max': 7, 'channels': [1, 2, 3, 5], 'orders': 'label sequences',
              'fills': {'int': 1, 'gauss': 1}, 'alphabet_residuals_nP_max': 8, 'alphabet_datasets_nP_max': 4},
    'thorough': {'n_cond': [1, 2, 3], 'n_obs_max': 7, 'channels': [1, 2, 3, 5], 'orders': 'all permutations',
                 'fills': {'int': 2, 'gauss': 2}, 'alphabet_residuals_nP_max': 10, 'alphabet_datasets_nP_max': 6},
}

PS = [1, 2, 3, 5]
METHODS = ['full', 'diag', 'shrinkage_eye', 'shrinkage_diag']
N_MAX = 7
ALPHA = (0.0, 1.0, 2.0)
ORDER_CHUNK = 15


# ------------------------------------------------------------------------------ enumeration
@functools.lru_cache(maxsize=None)
def _designs():
    out = []
    for c in (1, 2, 3):
        for n in range(c, N_MAX + 1):
            for reps in combi.compositions(n, c):
                out.append(tuple(reps))
    return tuple(out)


def designs():
    return [list(d) for d in _designs()]


def balanced_designs():
    return [list(d) for d in _designs() if len(set(d)) == 1]


def canon_labels(reps):
    return [c for c, r in enumerate(reps) for _ in range(r)]


def _stable_perm(seq, reps):
    start = [sum(reps[:c]) for c in range(len(reps))]
    used = [0] * len(reps)
    perm = []
    for c in seq:
        perm.append(start[c] + used[c])
        used[c] += 1
    return perm


def orders(reps, tier):
    """row orders as lists of canonical row indices"""
    n = sum(reps)
    lab = canon_labels(reps)
    if n <= 5:
        if tier == 'thorough':
            return [list(p) for p in itertools.permutations(range(n))]
        seqs = sorted(set(itertools.permutations(lab)))
        return [_stable_perm(s, reps) for s in seqs]
    ident = list(range(n))
    start = [sum(reps[:c]) for c in range(len(reps))]
    inter = [start[c] + k for k in range(max(reps)) for c in range(len(reps)) if k < reps[c]]
    rot = ident[n // 2:] + ident[:n // 2]
    out = []
    for p in (ident, ident[::-1], inter, rot):
        if p not in out:
            out.append(p)
    return out


def value_kinds(tier):
    k = 2 if tier == 'thorough' else 1
    return [{'kind': 'int', 'fill': f} for f in range(k)] + [{'kind': 'gauss', 'fill': f} for f in range(k)]


def combos(family):
    """(form, dof kind) combinations"""
    out = [('single', 'none'), ('single', 'scalar'),
           ('list', 'none'), ('list', 'scalar'), ('list', 'list'), ('list', 'array')]
    if family == 'residuals':
        out += [('stack3d', 'none'), ('stack3d', 'scalar'), ('stack3d', 'list')]
    return out


def _alpha_shapes_res(tier):
    lim = BOUNDS[tier]['alphabet_residuals_nP_max']
    return [(n, p) for p in PS for n in range(2, N_MAX + 1) if n * p <= lim]


def _alpha_shapes_ds(tier):
    lim = BOUNDS[tier]['alphabet_datasets_nP_max']
    return [(n, p) for p in (1, 2, 3) for n in range(2, N_MAX + 1) if n * p <= lim]


def shards(tier, seed):
    out = []
    for n in range(1, N_MAX + 1):
        for p in PS:
            out.append({'kind': 'res', 'n': n, 'P': p})
    for n, p in _alpha_shapes_res(tier):
        total = len(ALPHA) ** (n * p)
        step = 729 if total > 10000 else 243
        for a in range(0, total, step):
            out.append({'kind': 'res_alpha', 'n': n, 'P': p, 'range': [a, min(total, a + step)]})
    for reps in designs():
        n_ord = len(orders(reps, tier))
        for p in PS:
            for a in range(0, n_ord, ORDER_CHUNK):
                out.append({'kind': 'ds', 'reps': reps, 'P': p, 'orders': [a, min(n_ord, a + ORDER_CHUNK)]})
    shapes = set(_alpha_shapes_ds(tier))
    for reps in designs():
        n = sum(reps)
        n_ord = len(orders(reps, 'quick'))
        for p in (1, 2, 3):
            if (n, p) not in shapes:
                continue
            total = len(ALPHA) ** (n * p)
            step = max(9, min(total, (400 // n_ord) // 9 * 9 or 9))
            for a in range(0, total, step):
                out.append({'kind': 'ds_alpha', 'reps': reps, 'P': p, 'range': [a, min(total, a + step)]})
    return out


def run_shard(shard, ctx):
    kind = shard['kind']
    tier = ctx.tier
    if kind == 'res':
        n, p = shard['n'], shard['P']
        for values in value_kinds(tier):
            for form, dofk in combos('residuals'):
                for m in METHODS:
                    run_case({'family': 'residuals', 'reps': [n], 'P': p, 'values': values,
                              'method': m, 'dof': dofk, 'form': form}, ctx)
    elif kind == 'res_alpha':
        n, p = shard['n'], shard['P']
        for idx in range(shard['range'][0], shard['range'][1]):
            for dofk in ('none', 'scalar'):
                for m in METHODS:
                    run_case({'family': 'residuals', 'reps': [n], 'P': p,
                              'values': {'kind': 'alpha', 'idx': idx},
                              'method': m, 'dof': dofk, 'form': 'single'}, ctx)
    elif kind == 'ds':
        reps, p = shard['reps'], shard['P']
        balanced = len(set(reps)) == 1
        ords = orders(reps, tier)[shard['orders'][0]:shard['orders'][1]]
        for perm in ords:
            for naming in ('int', 'str'):
                for values in value_kinds(tier):
                    for family in ('unbalanced', 'measurements'):
                        if family == 'measurements' and not balanced:
                            ctx.exclude('cov_from_measurements not defined for unbalanced designs')
                            continue
                        for form, dofk in combos(family):
                            for m in METHODS:
                                run_case({'family': family, 'reps': reps, 'perm': perm, 'P': p,
                                          'naming': naming, 'values': values,
                                          'method': m, 'dof': dofk, 'form': form}, ctx)
    elif kind == 'ds_alpha':
        reps, p = shard['reps'], shard['P']
        balanced = len(set(reps)) == 1
        # exhaustive values already contain every permutation of the data rows, so the label
        # sequences (stable orders) are the complete set of row orders here in both tiers
        for perm in orders(reps, 'quick'):
            for idx in range(shard['range'][0], shard['range'][1]):
                for family in (('unbalanced', 'measurements') if balanced else ('unbalanced',)):
                    for dofk in ('none', 'scalar'):
                        for m in METHODS:
                            run_case({'family': family, 'reps': reps, 'perm': perm, 'P': p,
                                      'naming': 'int', 'values': {'kind': 'alpha', 'idx': idx},
                                      'method': m, 'dof': dofk, 'form': 'single'}, ctx)
    else:
        raise ValueError(kind)


# ------------------------------------------------------------------------------ inputs
_STR_NAMES = ['cz7', 'ca3', 'cq0']      # sorted order (ca3, cq0, cz7) != condition order


def _names(naming, k):
    if naming == 'str':
        return _STR_NAMES[:k]
    return list(range(k))


def _matrix(values, reps, p, seed, role):
    """n x P float array in canonical (by-condition) row order (fresh copy)"""
    return _matrix_cached(values['kind'], values.get('idx', values.get('fill')), tuple(reps), p, seed, role).copy()


@functools.lru_cache(maxsize=4096)
def _matrix_cached(vkind, vnum, reps, p, seed, role):
    values = {'kind': vkind, 'idx': vnum, 'fill': vnum}
    n = sum(reps)
    lab = canon_labels(reps)
    kind = values['kind']
    if kind == 'alpha':
        idx = values['idx']
        if role:
            idx = (idx * 7 + 3) % (len(ALPHA) ** (n * p))
        digits = []
        for _ in range(n * p):
            digits.append(ALPHA[idx % len(ALPHA)])
            idx //= len(ALPHA)
        return np.array(digits[::-1], dtype=float).reshape(n, p)
    g = rng_for(seed, 'c14' + kind, values['fill'], p, role, len(reps), *reps)
    if kind == 'int':
        x = g.integers(-2, 3, size=(n, p)).astype(float)
        x += np.array(lab, dtype=float)[:, None]
        return x
    if kind == 'gauss':
        z = g.normal(size=(n, p))
        mix = np.eye(p) + 0.5 * g.normal(size=(p, p))
        scale = g.uniform(0.5, 2.0, size=p)
        offs = 3.0 * g.normal(size=(len(reps), p))
        x = (z @ mix) * scale + offs[lab]
        return np.round(x, 4)
    raise ValueError(kind)


def _partner_design(family, reps, form):
    if family == 'residuals':
        n = reps[0]
        if form == 'stack3d':
            return [n]
        return [n + 1 if n < N_MAX else 2]
    pool = balanced_designs() if family == 'measurements' else designs()
    i = pool.index(list(reps))
    return pool[(i + 1) % len(pool)]


def _element(family, reps, perm, p, naming, values, seed, role):
    """(X array n x P in presented order, labels list in presented order)"""
    x = _matrix(values, reps, p, seed, role)
    lab = canon_labels(reps)
    if perm is not None:
        x = x[perm]
        lab = [lab[i] for i in perm]
    if family == 'residuals':
        return np.ascontiguousarray(x), [0] * len(lab)
    names = _names(naming, len(reps))
    return np.ascontiguousarray(x), [names[c] for c in lab]


def _dataset(x, labels):
    from rsatoolbox.data import Dataset
    return Dataset(x.copy(), obs_descriptors={'cond': list(labels)})


def _fp_inputs(objs, dofarg):
    """bit-level fingerprint of everything handed to the library"""
    parts = []
    for o in objs:
        if isinstance(o, np.ndarray):
            parts.append((str(o.dtype), o.shape, o.tobytes()))
        else:
            m = o.measurements
            parts.append((str(m.dtype), m.shape, m.tobytes(), repr(o.obs_descriptors),
                          repr(o.channel_descriptors), repr(o.descriptors)))
    if isinstance(dofarg, np.ndarray):
        parts.append((str(dofarg.dtype), dofarg.shape, dofarg.tobytes()))
    else:
        parts.append(repr(dofarg))
    return hash(tuple(parts))


@functools.lru_cache(maxsize=8192)
def _ref_scatter(xbytes, n, p, labels):
    """reference pooled scatter sum r r' (cached: one design is judged for many methods / dofs)"""
    x = np.frombuffer(xbytes, dtype=float).reshape(n, p).tolist()
    res = ref.residuals(x, list(labels))
    return ref.scatter(res, p), max((abs(v) for r in res for v in r), default=0.0)


def _ref_full(x, labels, dof):
    """(S, dof used) from the reference model"""
    if dof is None:
        dof = ref.natural_dof(labels)
    a, _ = _ref_scatter(x.tobytes(), x.shape[0], x.shape[1], tuple(labels))
    p = x.shape[1]
    return [[a[j][k] / dof for k in range(p)] for j in range(p)], dof


# ------------------------------------------------------------------------------ judging
def _dofclass(dofk):
    return 'list' if dofk in ('list', 'array') else dofk


def _sig(func, case, kind, specific=None, c1=False):
    if specific is not None:
        cfg = 'method=%s' % case['method'] + (',' + specific if specific else '')
    else:
        cfg = '%s,dof=%s' % (case['form'], _dofclass(case['dof']))
    if c1:
        cfg += ',n_cond=1'
    return '%s|%s|%s' % (func, cfg, kind)


def _scale(*mats):
    return max([1.0] + [ref.max_abs(m) for m in mats])


def _judge_cov(ctx, func, case, out, x, labels, dof, c1):
    """judge one covariance estimate. returns ('ok', ndarray) | ('fail', None) | ('excluded', None)"""
    method = case['method']
    p = x.shape[1]
    s, dof_used = _ref_full(x, labels, dof)
    if not isinstance(out, np.ndarray) or out.shape != (p, p):
        ctx.fail(_sig(func, case, 'shape'), case,
                 'estimate has shape %r, expected one %dx%d matrix per input element' % (np.shape(out), p, p))
        return 'fail', None
    zero_thr = 1e-20 * max(1.0, float(np.max(np.abs(x))) ** 2)
    variances = [s[j][j] for j in range(p)]
    if method == 'shrinkage_diag' and min(variances) <= zero_thr:
        ctx.exclude('shrinkage_diag undefined: zero-variance channel')
        return 'excluded', None
    if method == 'shrinkage_eye' and max(variances) <= zero_thr:
        ctx.exclude('shrinkage_eye undefined: zero total variance')
        return 'excluded', None
    o = out.tolist()
    finite = bool(np.all(np.isfinite(out)))
    sc = _scale(s)
    if method in ('full', 'diag'):
        want = s if method == 'full' else ref.diag_cov(s)
        if not finite:
            ctx.fail(_sig(func, case, 'nonfinite', c1=c1), case,
                     'non-finite estimate %r; reference (dof %s) %r; rows %r labels %r' % (o, dof_used, want, x.tolist(), labels))
            return 'fail', None
        ctx.dev('cov/' + method, maxreldev(out, want))
        if allclose(out, want, TOL):
            ctx.outcome((method, p, round(sum(variances), 6)))
            return 'ok', out
        tr_o, tr_w = sum(o[j][j] for j in range(p)), sum(variances)
        if tr_w > zero_thr and tr_o > 0 and allclose(np.array(o) * (tr_w / tr_o), want, TOL):
            ctx.fail(_sig(func, case, 'scaled-by-constant'), case,
                     'estimate = %.6g x reference (reference dof %s => library used dof %.6g); rows %r labels %r'
                     % (tr_o / tr_w, dof_used, dof_used * tr_w / tr_o, x.tolist(), labels))
        else:
            ctx.fail(_sig(func, case, 'value-mismatch', specific=''), case,
                     'got %r, reference (dof %s) %r; rows %r labels %r' % (o, dof_used, want, x.tolist(), labels))
        return 'fail', None
    # shrinkage estimates
    t = ref.target(method, s)
    s_eq_t = ref.max_abs_diff(s, t) <= TOL * sc
    if not finite:
        if s_eq_t:
            ctx.fail(_sig(func, case, 'nan', specific='S==target', c1=c1), case,
                     'S equals its shrinkage target (P=%d) so every convex combination is S = %r, got %r; rows %r labels %r'
                     % (p, s, o, x.tolist(), labels))
        else:
            ctx.fail(_sig(func, case, 'nonfinite', c1=c1), case,
                     'non-finite estimate %r; S (dof %s) %r; rows %r labels %r' % (o, dof_used, s, x.tolist(), labels))
        return 'fail', None
    status = 'ok'
    if ref.asymmetry(o) > TOL * sc:
        ctx.fail(_sig(func, case, 'asymmetric', specific=''), case, 'got %r' % o)
        status = 'fail'
    if s_eq_t:
        ctx.count('shrinkage: S == target')
        ctx.dev('cov/' + method, maxreldev(out, s))
        if not allclose(out, s, 10 * TOL):
            tr_o, tr_s = sum(o[j][j] for j in range(p)), sum(variances)
            if tr_s > zero_thr and tr_o > 0 and allclose(np.array(o) * (tr_s / tr_o), s, 10 * TOL):
                ctx.fail(_sig(func, case, 'scaled-by-constant'), case,
                         'estimate = %.6g x S (reference dof %s => library used dof %.6g); rows %r labels %r'
                         % (tr_o / tr_s, dof_used, dof_used * tr_s / tr_o, x.tolist(), labels))
            else:
                ctx.fail(_sig(func, case, 'differs-from-S', specific='S==target'), case,
                         'S equals its target, estimate must be S = %r, got %r; rows %r labels %r'
                         % (s, o, x.tolist(), labels))
            return 'fail', None
        lam = None
    else:
        lam, resid = ref.recover_lambda(o, s, t)
        ctx.dev('convex-residual/' + method, resid / sc)
        if resid > TOL * sc:
            tr_o, tr_s = sum(o[j][j] for j in range(p)), sum(variances)
            scaled = False
            if tr_s > zero_thr and tr_o > 0:
                c = tr_o / tr_s
                o2 = [[v / c for v in row] for row in o]
                lam2, resid2 = ref.recover_lambda(o2, s, t)
                scaled = abs(c - 1) > TOL and resid2 <= TOL * sc and -LAM_TOL <= lam2 <= 1 + LAM_TOL
            if scaled:
                ctx.fail(_sig(func, case, 'scaled-by-constant'), case,
                         'estimate = %.6g x a convex combination of S and its target (reference dof %s => '
                         'library used dof %.6g); rows %r labels %r' % (c, dof_used, dof_used / c, x.tolist(), labels))
            else:
                ctx.fail(_sig(func, case, 'not-convex-combination', specific=''), case,
                         'best lambda %.9g leaves residual %.3g: got %r, S %r, target %r; rows %r labels %r'
                         % (lam, resid, o, s, t, x.tolist(), labels))
            return 'fail', None
        if not (-LAM_TOL <= lam <= 1 + LAM_TOL):
            ctx.fail(_sig(func, case, 'lambda-out-of-range', specific=''), case,
                     'shrinkage intensity %.9g outside [0,1]: got %r, S %r; rows %r labels %r'
                     % (lam, o, s, x.tolist(), labels))
            status = 'fail'
        ctx.count('shrinkage: lambda=0' if lam < 1e-9 else ('shrinkage: lambda=1' if lam > 1 - 1e-9
                                                           else 'shrinkage: 0<lambda<1'))
    w = ref.eigenvalues(o)
    if w[0] < -TOL * sc:
        ctx.fail(_sig(func, case, 'not-psd', specific=''), case, 'eigenvalues %r of %r' % (w.tolist(), o))
        status = 'fail'
    if lam is not None and lam > LAM_TOL:
        tmin = min(t[j][j] for j in range(p))
        if not w[0] >= lam * tmin * (1 - 1e-6) - 1e-12 * sc or not w[0] > 0:
            ctx.fail(_sig(func, case, 'not-pd-with-active-shrinkage', specific=''), case,
                     'lambda %.6g, smallest eigenvalue %.6g (< lambda * %.6g); got %r' % (lam, w[0], tmin, o))
            status = 'fail'
    ctx.outcome((method, p, None if lam is None else round(lam, 3), round(sum(variances), 6)))
    return (status, out if status == 'ok' else None)


def _as_elements(ctx, func, case, out, n_el):
    """split a list result into its elements (None on wrong nesting)"""
    if case['form'] == 'single':
        return [out]
    ok = isinstance(out, (list, tuple, np.ndarray)) and len(out) == n_el
    if ok:
        for e in out:
            if not isinstance(e, np.ndarray) or e.ndim != 2:
                ok = False
    if not ok:
        ctx.fail(_sig(func, case, 'shape'), case,
                 'result of shape %r for a %s of %d inputs: expected one matrix per element'
                 % (np.shape(out), case['form'], n_el))
        return None
    return list(out)


def run_case(case, ctx):
    from rsatoolbox.data import noise
    family, method, form, dofk = case['family'], case['method'], case['form'], case['dof']
    reps, p = list(case['reps']), case['P']
    perm = case.get('perm')
    naming = case.get('naming', 'int')
    seed = ctx.seed
    els = [_element(family, reps, perm, p, naming, case['values'], seed, 0)]
    if form != 'single':
        preps = _partner_design(family, reps, form)
        pperm = None if family == 'residuals' else list(range(sum(preps)))[::-1]
        els.append(_element(family, preps, pperm, p, naming, case['values'], seed, 1))
    n_obs = [len(lab) for _, lab in els]
    # dof argument and the dof each element must be estimated with
    if dofk == 'none':
        dofarg, want_dof = None, [None] * len(els)
    elif dofk == 'scalar':
        dofarg = n_obs[0] + 1
        want_dof = [dofarg] * len(els)
    else:
        want_dof = [n_obs[0] + 1, n_obs[1] + 3]
        dofarg = list(want_dof) if dofk == 'list' else np.array(want_dof)
    for (x, lab), d in zip(els, want_dof):
        if (ref.natural_dof(lab) if d is None else d) <= 0:
            ctx.exclude('dof <= 0 (observations minus conditions)')
            return
    # configuration class of its own: measurement tensor of a single condition with the natural dof
    c1 = family == 'measurements' and form == 'single' and dofk == 'none' and len(reps) == 1
    nontrivial = any(_ref_scatter(x.tobytes(), x.shape[0], x.shape[1], tuple(lab))[1] > 0 for x, lab in els)
    # library inputs
    if family == 'residuals':
        objs = [x.copy() for x, _ in els]
        arg = objs[0] if form == 'single' else (objs if form == 'list' else np.stack(objs))
        held = [arg] if form == 'stack3d' else objs
        args = (arg,)
    else:
        objs = [_dataset(x, lab) for x, lab in els]
        arg = objs[0] if form == 'single' else objs
        held = objs
        args = (arg, 'cond')
    cov_f = getattr(noise, 'cov_from_' + family)
    prec_f = getattr(noise, 'prec_from_' + family)
    gp = '%s,dof=%s,method=%s%s' % (form, _dofclass(dofk), method, ',n_cond=1' if c1 else '')

    # ---- covariance
    ccase = dict(case, func='cov')
    ctx.case(ccase, nontrivial=nontrivial)
    before = _fp_inputs(held, dofarg)
    out = None
    with ctx.guard('%s|%s' % (cov_f.__name__, gp), ccase) as g:
        with np.errstate(all='ignore'):
            out = cov_f(*args, dof=dofarg, method=method)
    if not g.ok:
        return
    if _fp_inputs(held, dofarg) != before:
        ctx.fail(_sig(cov_f.__name__, case, 'input-modified'), ccase, 'inputs differ bitwise after the call')
    parts = _as_elements(ctx, cov_f.__name__, ccase, out, len(els))
    if parts is None:
        ctx.exclude('precision not judged: covariance call already reported')
        return
    results = [_judge_cov(ctx, cov_f.__name__, ccase, o, x, lab, d, c1)
               for o, (x, lab), d in zip(parts, els, want_dof)]
    states = [r[0] for r in results]

    # ---- agreement of the measurement-based and the unbalanced estimator (balanced designs)
    if family == 'measurements' and form == 'single' and states[0] != 'excluded':
        acase = dict(case, func='agree')
        ctx.case(acase, nontrivial=nontrivial)
        with ctx.guard('cov_from_unbalanced|%s' % gp, acase) as g2:
            with np.errstate(all='ignore'):
                other = noise.cov_from_unbalanced(objs[0], 'cond', dof=dofarg, method=method)
        if g2.ok:
            a, b = np.asarray(parts[0], float), np.asarray(other, float)
            if a.shape != b.shape or not (np.all(np.isfinite(a)) and np.all(np.isfinite(b))):
                ctx.exclude('agreement not judged: an estimate is non-finite / mis-shaped (reported by its own oracle)')
            else:
                ctx.dev('agree', maxreldev(a, b))
                if not allclose(a, b, TOL):
                    ctx.fail('cov_from_measurements~cov_from_unbalanced|balanced,dof=%s|disagree' % _dofclass(dofk),
                             acase, 'measurements %r vs unbalanced %r; rows %r labels %r'
                             % (a.tolist(), b.tolist(), els[0][0].tolist(), els[0][1]))

    # ---- precision
    if 'fail' in states:
        ctx.exclude('precision not judged: covariance call already reported')
        return
    if 'excluded' in states:
        ctx.exclude('precision not judged: shrinkage covariance undefined')
        return
    for _, cov in results:
        w = ref.eigenvalues(cov.tolist())
        if not (w[0] > 0 and w[-1] / w[0] <= COND_MAX):
            ctx.exclude('precision undefined: covariance singular or condition number > 1e6')
            return
    pcase = dict(case, func='prec')
    ctx.case(pcase, nontrivial=nontrivial)
    before = _fp_inputs(held, dofarg)
    with ctx.guard('%s|%s' % (prec_f.__name__, gp), pcase) as g3:
        with np.errstate(all='ignore'):
            pout = prec_f(*args, dof=dofarg, method=method)
    if not g3.ok:
        return
    if _fp_inputs(held, dofarg) != before:
        ctx.fail(_sig(prec_f.__name__, case, 'input-modified'), pcase, 'inputs differ bitwise after the call')
    pparts = _as_elements(ctx, prec_f.__name__, pcase, pout, len(els))
    if pparts is None:
        return
    for pr, (_, cov) in zip(pparts, results):
        if pr.shape != (p, p):
            ctx.fail(_sig(prec_f.__name__, case, 'shape'), pcase, 'precision of shape %r' % (pr.shape,))
            continue
        if not np.all(np.isfinite(pr)):
            ctx.fail(_sig(prec_f.__name__, case, 'nonfinite', c1=c1), pcase,
                     'precision %r for covariance %r' % (pr.tolist(), cov.tolist()))
            continue
        d = max(ref.identity_defect(pr.tolist(), cov.tolist()), ref.identity_defect(cov.tolist(), pr.tolist()))
        ctx.dev('prec@cov-I', d)
        if d > INV_TOL:
            ctx.fail(_sig(prec_f.__name__, case, 'not-inverse', specific=''), pcase,
                     'max |prec @ cov - I| = %.3g; prec %r; cov %r' % (d, pr.tolist(), cov.tolist()))
