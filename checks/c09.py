"""C09 - bootstrap samples are faithful with-replacement resamples of whole groups (DESIGN 4/C09)

Stateless choice-point exploration: every outcome of every numpy.random.randint draw made by
bootstrap_sample / _rdm / _pattern on self-describing RDM stacks is enumerated (no sampling);
each execution is judged against the list-of-ids model; uniformity is decided exactly by
counting over the complete enumeration.
"""
import itertools
from collections import Counter

import numpy as np

from mc import choice, rngenv, selfdesc
from mc.runner import HarnessError

PROPERTY = 'C09'
LEVEL = 'model_checking'
RULE = ('Configurations = (routine, n_rdm, n_cond, grouping descriptor for RDMs and for conditions, '
        'descriptor container list/ndarray). For each configuration EVERY answer of every '
        'numpy.random.randint element drawn by the routine is enumerated by prefix replay '
        '(states = nodes of the choice tree, transitions = its edges, one evaluation = one complete '
        'execution of the real routine judged against the id-list model). Non-trivial = at least one '
        'draw deviates from the identity resample; distinct = distinct (configuration, draw history).'
        ' Also: signed integer / float group codes; sources stored as bool / int16 / int64 / float32 under every draw; RDMs.subsample / subsample_pattern called directly with bare values, numpy scalars and containers.')
ASSUMPTIONS = ['all randomness of the routines enters through numpy.random.randint (tripwires on every '
               'other numpy.random entry point raise a harness error)',
               'values are self-describing codes, so value/label association needs no history']
BOUNDS = {'quick': {'n_rdm': '1..3', 'n_cond': '2..4', 'deviation_bound': 'none (all draws)'},
          'thorough': {'n_rdm': '1..4', 'n_cond': '2..5', 'deviation_bound': 'none (all draws)'}}

RDM_GROUPINGS = ['index', 'rid', 'grp', 'rname', 'ralt', 'rbig', 'rneg']
RD = ('rid', 'grp', 'rname', 'ralt', 'rbig', 'rneg')
PAT_GROUPINGS = ['index', 'cid', 'cat', 'name', 'pgrp', 'big', 'neg', 'lvl', 'flt']
PD = ('cid', 'name', 'cat', 'pgrp', 'big', 'neg', 'lvl', 'flt')
# value kinds that are crossed with 'index' and with their counterparts only (six-digit ids; signed integer
# and float codes as centred level / contrast codes give them)
NARROW_R = {'rbig': ('index', 'big'), 'rneg': ('index', 'neg', 'lvl', 'flt')}
NARROW_P = {'big': ('index', 'rbig'), 'neg': ('index', 'rneg'), 'lvl': ('index', 'rneg'), 'flt': ('index', 'rneg')}
ZERO_PAIRS = ((0, 1), (2, 3))


def _configs(tier):
    big = tier == 'thorough'
    out = []
    sizes = [(1, 2), (2, 3), (3, 4), (3, 3)] + ([(4, 5), (4, 4), (2, 5)] if big else [])
    for n_rdm, n_cond in sizes:
        for cont in ['list', 'ndarray']:
            for rd in RDM_GROUPINGS:
                for pdn in PAT_GROUPINGS:
                    # full product of groupings only for the largest quick size; else a diagonal
                    if (n_rdm, n_cond) not in [(3, 4), (4, 5)] and \
                            (RDM_GROUPINGS.index(rd) + PAT_GROUPINGS.index(pdn)) % 3 != 0:
                        continue
                    # (4, 5): up to 4^4 * 5^5 = 800 000 executions per grouping pair - every second pair
                    # for lists, every fourth for arrays (the quick tier has the full product at (3, 4))
                    if (n_rdm, n_cond) == (4, 5) and \
                            (RDM_GROUPINGS.index(rd) * len(PAT_GROUPINGS) + PAT_GROUPINGS.index(pdn)) % (2 if cont == 'list' else 4) != 0:
                        continue
                    # the six-digit-id groupings are crossed with 'index' and with each other only
                    if (rd in NARROW_R and pdn not in NARROW_R[rd]) or (pdn in NARROW_P and rd not in NARROW_P[pdn]):
                        continue
                    out.append(('bootstrap_sample', n_rdm, n_cond, rd, pdn, cont))
                if (n_rdm, n_cond) in [(3, 4), (4, 5), (2, 3)]:
                    out.append(('bootstrap_sample_rdm', n_rdm, n_cond, rd, None, cont))
            for pdn in PAT_GROUPINGS:
                if (n_rdm, n_cond) in [(3, 4), (4, 5), (2, 3), (2, 5)]:
                    out.append(('bootstrap_sample_pattern', n_rdm, n_cond, None, pdn, cont))
    # objects that are themselves derived: a subset (non-contiguous 'index') and a resample (repeated 'index')
    for src in ('subset', 'resampled'):
        for cont in ['list', 'ndarray']:
            for pdn in ('index', None, 'cid', 'cat'):
                out.append(('bootstrap_sample_pattern', 2, 4, None, pdn, cont, src))
                if pdn in ('index', 'cid'):
                    out.append(('bootstrap_sample', 2, 4, 'index', pdn, cont, src))
    # genuine zero dissimilarities
    for cont in ['list', 'ndarray']:
        for pdn in ('index', 'cid', 'cat'):
            out.append(('bootstrap_sample_pattern', 2, 4, None, pdn, cont, 'zeros'))
        out.append(('bootstrap_sample', 1, 4, 'index', 'index', cont, 'zeros'))
        out.append(('bootstrap_sample', 2, 4, 'rid', 'cid', cont, 'zeros'))
    # an object re-ordered in place (non-increasing 'index'), grouped by other descriptors
    for cont in ['list', 'ndarray']:
        for pdn in ('cid', 'name', 'cat'):
            out.append(('bootstrap_sample_pattern', 2, 4, None, pdn, cont, 'reordered'))
        out.append(('bootstrap_sample', 2, 4, 'rid', 'cid', cont, 'reordered'))
    # the same object before and after an in-place append
    for cont in ['list', 'ndarray']:
        for rd in RDM_GROUPINGS:
            out.append(('bootstrap_sample_rdm', 3, 3, rd, None, cont, 'appended'))
        for rd, pdn in (('index', 'index'), ('rid', 'cid'), ('rname', 'name')):
            out.append(('bootstrap_sample', 3, 3, rd, pdn, cont, 'appended'))
    return out


def _ids(cfg):
    """(rids, cids) of the object handed to the routine, per source variant"""
    n_rdm, n_cond = cfg[1], cfg[2]
    src = cfg[6] if len(cfg) > 6 else 'fresh'
    if src == 'subset':            # a subset of a larger object: 'index' keeps the original positions
        return list(range(n_rdm)), [c for c in range(n_cond + 2) if c not in (0, 2)]
    if src == 'resampled':         # an object that already holds a bootstrap copy: repeated 'index' values
        return list(range(n_rdm)), [0, 0] + list(range(2, n_cond))
    return list(range(n_rdm)), list(range(n_cond))


def _n_groups(desc_fn, ids):
    return len({desc_fn(i) for i in ids})


def _group_counts(cfg):
    routine, n_rdm, n_cond, rd, pdn, cont = cfg[:6]
    rids, cids = _ids(cfg)
    ng_r = len(set(rids)) if rd in (None, 'index') else _n_groups(selfdesc.RDM_DESC[rd], rids)
    ng_p = len(set(cids)) if pdn in (None, 'index') else _n_groups(selfdesc.PAT_DESC[pdn], cids)
    return ng_r, ng_p


def shards(tier, seed):
    out = []
    for cfg in _configs(tier):
        routine, n_rdm, n_cond, rd, pdn, cont = cfg[:6]
        ng_r, ng_p = _group_counts(cfg)
        if routine == 'bootstrap_sample':
            total = ng_r ** ng_r * ng_p ** ng_p
            first = ng_r
        elif routine == 'bootstrap_sample_rdm':
            total = ng_r ** ng_r
            first = ng_r
        else:
            total = ng_p ** ng_p
            first = ng_p
        if total > 3000:
            # split the choice tree by the answers of the first two draws; the draws come in the order
            # RDM groups (ng_r of them), then condition groups (ng_p of them) - with a single RDM group the
            # second draw is already a condition draw and has ng_p answers, not ng_r
            if routine == 'bootstrap_sample':
                seq = [ng_r] * ng_r + [ng_p] * ng_p
            elif routine == 'bootstrap_sample_rdm':
                seq = [ng_r] * ng_r
            else:
                seq = [ng_p] * ng_p
            for a in range(seq[0]):
                for b in range(seq[1]):
                    out.append({'cfg': list(cfg), 'root': [a, b]})
        else:
            out.append({'cfg': list(cfg), 'root': []})
    # sources stored as single precision / integers / booleans: every draw of every routine
    for routine in ('bootstrap_sample', 'bootstrap_sample_rdm', 'bootstrap_sample_pattern'):
        for dt in DTYPES:
            out.append({'dtype_cfg': [routine, dt]})
    out.append({'direct': 'all'})
    return out


def _execute(cfg, env):
    """one execution of the real routine under the environment `env`; returns observation dict"""
    from rsatoolbox.inference import bootstrap as B
    routine, n_rdm, n_cond, rd, pdn, cont = cfg[:6]
    src = cfg[6] if len(cfg) > 6 else 'fresh'
    rids, cids = _ids(cfg)
    if src == 'fresh':
        rdms = selfdesc.build(rids, cids, container=cont, rdm_desc=RD, pat_desc=PD)
        model = selfdesc.build([9], cids, container=cont, pat_desc=PD)
    elif src == 'appended':
        # a history on ONE object: the routine is called once (default draws), the object then grows
        # in place by an appended RDM, and the explored call follows - nothing the first call may have
        # left on the object may describe the old stack
        rdms = selfdesc.build(rids[:-1], cids, container=cont, rdm_desc=RD, pat_desc=PD)
        model = selfdesc.build([9], cids, container=cont, pat_desc=PD)
        with rngenv.installed(rngenv.RngEnv(choice.Env([]))):
            if routine == 'bootstrap_sample':
                B.bootstrap_sample(rdms, rdm_descriptor=rd, pattern_descriptor=pdn)
            elif routine == 'bootstrap_sample_rdm':
                B.bootstrap_sample_rdm(rdms, rdm_descriptor=rd)
            else:
                B.bootstrap_sample_pattern(rdms, pattern_descriptor=pdn)
        rdms.append(selfdesc.build(rids[-1:], cids, container=cont, rdm_desc=RD, pat_desc=PD))
    elif src == 'zeros':
        # genuine zero dissimilarities (two conditions with identical patterns in every RDM; a categorical
        # model prediction): values, not missing entries
        rdms = selfdesc.build(rids, cids, container=cont, rdm_desc=RD, pat_desc=PD, zero_pairs=ZERO_PAIRS)
        model = selfdesc.build([9], cids, container=cont, pat_desc=PD, zero_pairs=ZERO_PAIRS)
    elif src == 'reordered':
        # an object whose conditions were re-ordered in place: its library-managed 'index' descriptor no
        # longer increases with position; the model holds the same conditions in the same (new) order
        base = list(range(n_cond))
        perm = [2, 0, 3, 1, 4, 5][:n_cond] if n_cond >= 4 else list(range(n_cond))[::-1]
        rdms = selfdesc.build(rids, base, container=cont, rdm_desc=RD, pat_desc=PD)
        rdms.reorder(perm)
        model = selfdesc.build([9], [base[q] for q in perm], container=cont, pat_desc=PD)
    elif src == 'subset':
        full = list(range(n_cond + 2))
        rdms = selfdesc.build(rids, full, container=cont, rdm_desc=RD, pat_desc=PD).subset_pattern('cid', cids)
        model = selfdesc.build([9], full, container=cont, pat_desc=PD).subset_pattern('cid', cids)
    else:
        full = sorted(set(cids) | {1})
        rdms = selfdesc.build(rids, full, container=cont, rdm_desc=RD, pat_desc=PD).subsample_pattern('cid', cids)
        model = selfdesc.build([9], full, container=cont, pat_desc=PD).subsample_pattern('cid', cids)
    before = (rdms.dissimilarities.copy(), repr(rdms.rdm_descriptors), repr(rdms.pattern_descriptors))
    rng = rngenv.RngEnv(env)
    with rngenv.installed(rng):
        if routine == 'bootstrap_sample':
            sample, rdm_idx, pattern_idx = B.bootstrap_sample(rdms, rdm_descriptor=rd, pattern_descriptor=pdn)
        elif routine == 'bootstrap_sample_rdm':
            sample, rdm_idx = B.bootstrap_sample_rdm(rdms, rdm_descriptor=rd)
            pattern_idx = None
        else:
            sample, pattern_idx = B.bootstrap_sample_pattern(rdms, pattern_descriptor=pdn)
            rdm_idx = None
    after = (rdms.dissimilarities.copy(), repr(rdms.rdm_descriptors), repr(rdms.pattern_descriptors))
    return {'rdms': rdms, 'model': model, 'sample': sample, 'rdm_idx': rdm_idx, 'pattern_idx': pattern_idx,
            'calls': rng.calls, 'source_unchanged': (np.array_equal(before[0], after[0], equal_nan=True)
                                                     and before[1:] == after[1:])}


def _judge(cfg, obs, ctx, case):
    routine, n_rdm, n_cond, rd, pdn, cont = cfg[:6]
    src = cfg[6] if len(cfg) > 6 else 'fresh'
    sigp = '%s|%srdm=%s,pattern=%s' % (routine, '' if src == 'fresh' else 'source=%s,' % src, 'grouped' if rd not in (None, 'index') else rd,
                                     'grouped' if pdn not in (None, 'index') else pdn)
    sample = obs['sample']
    ng_r, ng_p = _group_counts(cfg)
    # 1. the draws requested: as many groups as there are distinct groups, with replacement
    want_calls = []
    if routine in ('bootstrap_sample', 'bootstrap_sample_rdm'):
        want_calls.append((0, ng_r, ng_r))
    if routine in ('bootstrap_sample', 'bootstrap_sample_pattern'):
        want_calls.append((0, ng_p, ng_p))
    got_calls = [c[1] for c in obs['calls'] if c[0] == 'randint']
    if sorted(got_calls) != sorted(want_calls) or len(obs['calls']) != len(want_calls):
        ctx.fail(sigp + '|draw-request', case, 'randint requests %r, expected %r' % (obs['calls'], want_calls))
        return
    # 2. content from the RETURNED index arrays: exactly the RDMs / conditions of the drawn groups
    src_rids, src_cids = _ids(cfg)
    if obs['rdm_idx'] is not None:
        f = (lambda r: r) if rd in (None, 'index') else selfdesc.RDM_DESC[rd]
        idx = list(obs['rdm_idx'])
        if len(idx) != ng_r:
            ctx.fail(sigp + '|rdm_idx-length', case, '%r' % (idx,))
        want_r = Counter()
        for v in idx:
            members = [r for r in src_rids if f(r) == v]
            if not members:
                ctx.fail(sigp + '|rdm_idx-not-a-group', case, 'value %r' % (v,))
            for r in members:
                want_r[r] += 1
        # the groups drawn are the groups the draws point at (bijection with sorted unique values)
        uniq = sorted({f(r) for r in src_rids})
        drawn = [c[2] for c in obs['calls'] if c[1] == (0, ng_r, ng_r)][0]
        if sorted(idx, key=str) != sorted([uniq[d] for d in drawn], key=str):
            ctx.fail(sigp + '|rdm_idx-vs-draw', case, 'draw %r -> idx %r' % (drawn, idx))
    else:
        want_r = Counter(src_rids)
    if obs['pattern_idx'] is not None:
        f = (lambda c: c) if pdn in (None, 'index') else selfdesc.PAT_DESC[pdn]
        idx = list(obs['pattern_idx'])
        if len(idx) != ng_p:
            ctx.fail(sigp + '|pattern_idx-length', case, '%r' % (idx,))
        want_c = Counter()
        for v in idx:
            members = [c for c in src_cids if f(c) == v]
            if not members:
                ctx.fail(sigp + '|pattern_idx-not-a-group', case, 'value %r' % (v,))
            for c in members:
                want_c[c] += 1
        uniq = sorted({f(c) for c in src_cids})
        drawn = [c[2] for c in obs['calls'] if c[1] == (0, ng_p, ng_p)][-1]
        if sorted(idx, key=str) != sorted([uniq[d] for d in drawn], key=str):
            ctx.fail(sigp + '|pattern_idx-vs-draw', case, 'draw %r -> idx %r' % (drawn, idx))
    else:
        want_c = Counter(src_cids)
    try:
        rids, cids = selfdesc.read_ids(sample)
    except Exception as e:
        ctx.fail(sigp + '|descriptor-lost', case, repr(e))
        return
    if Counter(rids) != want_r:
        ctx.fail(sigp + '|rdm-multiset', case, 'sample holds RDMs %r, drawn groups give %r' % (rids, dict(want_r)))
    if Counter(cids) != want_c:
        ctx.fail(sigp + '|condition-multiset', case, 'sample holds conditions %r, drawn groups give %r' % (cids, dict(want_c)))
    # 3. every entry is the source value of its own labels; NaN iff two copies of one condition;
    #    all descriptor values travel with their item
    for kind, msg in selfdesc.verify(sample, rdm_desc=RD,
                                     pat_desc=PD, zero_pairs=ZERO_PAIRS if src == 'zeros' else ()):
        ctx.fail(sigp + '|' + kind, case, msg)
    if not obs['source_unchanged']:
        ctx.fail(sigp + '|source-modified', case, 'the resampled object was changed by the draw')
    # 4. resampling a prediction with the returned indices gives the same condition order
    if obs['pattern_idx'] is not None:
        pname = 'index' if pdn in (None, 'index') else pdn
        pred = obs['model'].subsample_pattern(pname, obs['pattern_idx'])
        _, pc = selfdesc.read_ids(pred)
        if pc != cids:
            ctx.fail(sigp + '|prediction-order', case, 'prediction conditions %r, sample conditions %r' % (pc, cids))
        for kind, msg in selfdesc.verify(pred, zero_pairs=ZERO_PAIRS if src == 'zeros' else ()):
            ctx.fail(sigp + '|prediction-' + kind, case, msg)
    ctx.outcome((tuple(rids), tuple(cids)))


# ----------------------------------------------------------------------------- stored dtypes
DTYPES = ['float32', 'int64', 'int16', 'bool']


def _dtype_source(dtype):
    """2 RDMs x 3 conditions stored with the given dtype (binary category-model RDMs, counts, single precision)"""
    from rsatoolbox.rdm import RDMs
    v = np.array([[1.0, 2.0, 3.0], [11.0, 12.0, 14.0]])
    if dtype == 'bool':
        v = np.array([[1.0, 0.0, 1.0], [0.0, 1.0, 1.0]])
    return RDMs(v.astype(dtype), rdm_descriptors={'rid': [0, 1]}, pattern_descriptors={'cid': [0, 1, 2]})


def _dtype_exec(dcfg, env):
    from rsatoolbox.inference import bootstrap as B
    routine, dtype = dcfg
    rdms = _dtype_source(dtype)
    with rngenv.installed(rngenv.RngEnv(env)):
        out = getattr(B, routine)(rdms)
    return {'sample': out[0], 'source': _dtype_source(dtype)}


def _dtype_judge(dcfg, obs, ctx, case):
    """every entry of the sample is the source's value for that (RDM, condition pair) as a NUMBER; entries
    between two copies of one condition are missing (NaN), whatever type the source is stored in"""
    sig = '%s|stored-dtype=%s' % dcfg
    src = obs['source'].get_matrices().astype(float)
    smp = obs['sample']
    rid = [int(r) for r in smp.rdm_descriptors['rid']]
    cid = [int(c) for c in smp.pattern_descriptors['cid']]
    got = np.asarray(smp.get_matrices(), dtype=float)
    want = np.zeros((len(rid), len(cid), len(cid)))
    for a, r in enumerate(rid):
        for i, ci in enumerate(cid):
            for j, cj in enumerate(cid):
                want[a, i, j] = 0.0 if i == j else (np.nan if ci == cj else src[r, ci, cj])
    if got.shape != want.shape or not np.array_equal(got, want, equal_nan=True):
        ctx.fail(sig + '|entries', case, 'sample holds RDMs %r conditions %r with matrices %r, the source gives %r' % (
            rid, cid, got.tolist(), want.tolist()))
    ctx.outcome((dcfg[1], tuple(rid), tuple(cid)))


# ----------------------------------------------------------------------------- direct selection calls
LABELS = {'int': [3, 1, 2, 1, 3], 'float': [0.5, -1.0, 2.0, -1.0, 0.5],
          # string labels some of which are made of the characters of others
          'str': ['ab', 'a', 'b', 'a', 'ab'], 'word': ['face', 'f', 'ace', 'f', 'face']}
FORMS = ['bare', 'numpy-scalar', 'list', 'tuple', 'ndarray']


def _direct(ctx, only=None):
    """RDMs.subsample / subsample_pattern called directly (the outputs the statement names): a single group given
    as a bare value, numpy scalar, one-element list / tuple / array - the sample holds exactly the RDMs / conditions
    carrying that label, each once, with their own values; and two-element requests with a repeated group"""
    for op in ('subsample', 'subsample_pattern'):
        for lk, labels in LABELS.items():
            n = len(labels)
            for form in FORMS:
                for pick in sorted(set(labels), key=str) + ['twice']:
                    case = {'direct': op, 'labels': lk, 'form': form, 'pick': pick}
                    if only is not None and only != case:
                        continue
                    if pick == 'twice' and form in ('bare', 'numpy-scalar'):
                        continue
                    ctx.case(case)
                    sig = '%s|direct,labels=%s,value=%s' % (op, lk, form if pick != 'twice' else form + ',repeated')
                    with ctx.guard(sig, case):
                        if op == 'subsample':
                            o = selfdesc.build(list(range(n)), [0, 1, 2], rdm_desc=('rid',), pat_desc=('cid',))
                            o.rdm_descriptors['lab'] = list(labels)
                        else:
                            o = selfdesc.build([0, 1], list(range(n)), rdm_desc=('rid',), pat_desc=('cid',))
                            o.pattern_descriptors['lab'] = list(labels)
                        vals = [labels[0], labels[0]] if pick == 'twice' else [pick]
                        if form == 'bare':
                            value = vals[0]
                        elif form == 'numpy-scalar':
                            value = np.array(vals)[0]
                        elif form == 'list':
                            value = list(vals)
                        elif form == 'tuple':
                            value = tuple(vals)
                        else:
                            value = np.array(vals)
                        smp = getattr(o, op)('lab', value)
                        rids, cids = selfdesc.read_ids(smp)
                        want = sorted(i for v in vals for i in range(n) if labels[i] == v)
                        got = rids if op == 'subsample' else cids
                        if sorted(got) != want:
                            ctx.fail(sig + '|selection', case, '%s(\'lab\', %r) with labels %r holds %s %r, the request '
                                     'names %r' % (op, value, labels, 'RDMs' if op == 'subsample' else 'conditions', got, want))
                            continue
                        for kind, msg in selfdesc.verify(smp, rdm_desc=('rid',), pat_desc=('cid',)):
                            ctx.fail(sig + '|' + kind, case, msg)
                        ctx.outcome((op, lk, form, str(pick), tuple(got)))


def run_shard(shard, ctx):
    if 'direct' in shard:
        return _direct(ctx)
    if 'dtype_cfg' in shard:
        dcfg = tuple(shard['dtype_cfg'])
        stats = choice.Stats()
        for env, obs in choice.explore(lambda e: _dtype_exec(dcfg, e), bound=None, stats=stats):
            case = {'dtype_cfg': list(dcfg), 'choices': env.choices}
            ctx.case(case, nontrivial=env.deviations > 0)
            with ctx.guard('%s|stored-dtype=%s' % dcfg, case):
                _dtype_judge(dcfg, obs, ctx, case)
        ctx.states += stats.states
        ctx.transitions += stats.transitions
        return
    cfg = tuple(shard['cfg'])
    stats = choice.Stats()
    key = '|'.join(map(str, cfg))
    first = True
    for env, obs in choice.explore(lambda e: _execute(cfg, e), bound=None, stats=stats, root=shard['root']):
        case = {'cfg': list(cfg), 'choices': env.choices}
        ctx.case(case, nontrivial=env.deviations > 0)
        with ctx.guard('%s|judge' % cfg[0], case):
            _judge(cfg, obs, ctx, case)
        # determinism guard: the first executions of every shard are replayed and must agree
        if first:
            env2 = choice.Env(env.choices)
            obs2 = _execute(cfg, env2)
            if env2.choices != env.choices or not np.array_equal(
                    obs2['sample'].dissimilarities, obs['sample'].dissimilarities, equal_nan=True):
                raise HarnessError('replay of %r diverged' % (case,))
            first = False
        # exact uniformity by counting: how often does each RDM / condition occur in the samples
        try:
            rids, cids = selfdesc.read_ids(obs['sample'])
        except Exception:
            rids, cids = [], []
        if obs['rdm_idx'] is not None:
            for r in rids:
                ctx.count('sel|%s|rdm|%d' % (key, r))
        if obs['pattern_idx'] is not None:
            for c in cids:
                ctx.count('sel|%s|pattern|%d' % (key, c))
        ctx.count('exec|%s' % key)
    ctx.states += stats.states
    ctx.transitions += stats.transitions


def run_case(case, ctx):
    if 'direct' in case:
        return _direct(ctx, only=case)
    if 'dtype_cfg' in case:
        dcfg = tuple(case['dtype_cfg'])
        obs = _dtype_exec(dcfg, choice.Env(case['choices']))
        ctx.case(case)
        with ctx.guard('%s|stored-dtype=%s' % dcfg, case):
            _dtype_judge(dcfg, obs, ctx, case)
        return
    cfg = tuple(case['cfg'])
    env = choice.Env(case['choices'])
    obs = _execute(cfg, env)
    ctx.case(case)
    with ctx.guard('%s|judge' % cfg[0], case):
        _judge(cfg, obs, ctx, case)


def finalize(counters, tier, complete):
    """over the complete enumeration every group - hence every RDM and every condition - must
    occur equally often in the returned samples (exact counting, no statistics)"""
    if not complete:
        return []
    fails = []
    groups = {}
    for k, v in counters.items():
        if not k.startswith('sel|'):
            continue
        cfgkey, what, val = k[4:].rsplit('|', 2)
        groups.setdefault((cfgkey, what), {})[int(val)] = v
    for (cfgkey, what), cnt in sorted(groups.items()):
        parts = cfgkey.split('|')
        cfg = (parts[0], int(parts[1]), int(parts[2]), parts[3], parts[4], parts[5]) + tuple(parts[6:7])
        rids, cids = _ids(cfg)
        ids = rids if what == 'rdm' else cids
        mult = Counter(ids)           # an item held twice by the source is drawn with its group: twice as often
        ratios = {c: cnt.get(c, 0) / mult[c] for c in mult}
        if set(cnt) != set(mult) or len(set(ratios.values())) != 1:
            fails.append(('%s|uniformity-%s' % (parts[0], what),
                          {'cfg': cfgkey, 'what': what, 'counts': cnt},
                          'occurrence counts over the complete enumeration are not equal: %r' % (cnt,)))
    return fails
