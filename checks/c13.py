"""C13 - missing dissimilarities are ignored consistently or rejected, never misaligned
(DESIGN 4/C13)

Bounded exhaustive exploration over NaN masks: every mask of the RDM entries that leaves at
least 3 entries is put (i) on all RDMs of both stacks, (ii) differently on the two stacks,
(iii) differently on the RDMs of one stack; masks are also produced by the library itself
(every pattern-bootstrap index vector with a repeat, every from_partials covering).  The real
compare / pool_rdm / boot_noise_ceiling / fit_regress / RDMs.mean / rescale are run on each and
judged against mc.ref.c13_ref + mc.ref.measures evaluated on the ENTRY-DELETED vectors.
"""
import itertools
import signal

import numpy as np

from mc import combi
from mc.ref import measures as M
from mc.ref import c13_ref as R
from mc.util import close, reldev, rng_for, spd, maxreldev

PROPERTY = 'C13'
LEVEL = 'exploration'
RULE = ('Every NaN mask of the n_cond*(n_cond-1)/2 entries leaving >= 3 entries (n_cond=4: 42 masks; '
        'thorough also n_cond=5, masks of <= 3 entries: 176), placed (i) identically on all RDMs of both '
        'stacks, (ii) every ordered pair of different masks on the two stacks, (iii) every ordered pair of '
        'different masks inside one stack against a third mask on the other stack; every bootstrap index '
        'vector with a repeat through subsample_pattern; every covering of 4 conditions by 2-3 subsets of '
        '>= 2 conditions through from_partials; x every comparison method x sigma_k form x stack shape x '
        'value fill (all of {0,1}^6 plus generic and tied fills).  RDMs.mean: every pair of arbitrary masks '
        '(64 x 64) and every triple of masks of <= 2 entries x 6 weight forms.  Two-call sequences sharing one '
        'caller-owned array: RDMs.mean with the same weights array on two stacks (every ordered pair of 16 / 27 '
        'stack mask configurations x 7 array forms), compare / pool_rdm / fit_regress with the same sigma_k on '
        'two common masks (every ordered pair of 22 / 11 masks); rescale on every covering x 3 methods x 6 '
        'value kinds (positive / small-negative crossnobis-like / mixed-sign / all-negative templates with '
        'proportional parts, independent positive and sign-consistent signed parts); every second generic fill '
        'of pool / noise ceiling / fit / mean is signed; selection family: 4 stacks of 3 RDMs x 7 sources of a '
        'per-entry weights rdm descriptor (2-D ndarray from the constructor / assigned / rescale x 3 methods, list '
        'of rows, 1-D control) x 159 selections (subset / subsample / [] by every index vector of length 1-3 '
        'incl. repeats, by group, iteration, two selections in a row) then mean(weights=name), descriptor rows '
        'and mean judged on the selected rows; after EVERY library call every array or RDMs '
        'argument must be bit-identical (modifies-argument).  One evaluation = one library '
        'call judged against the reference on the entry-deleted vectors (or judged to raise).  Non-trivial = '
        'the measure is defined on the deleted vectors; distinct = distinct case descriptor.')
ASSUMPTIONS = [
    'a negative dissimilarity is a value (cross-validated estimates), only NaN is a missing entry; independent '
    'signed parts given to rescale agree on the sign of every pair (parts contradicting each other in sign have '
    'no common scale and the iteration need not terminate: measured, 13 of 636 such calls ran > 1 s)',
    'an argument counts as unchanged when its bytes are (ndarray: dtype, shape, buffer; RDMs: the '
    'dissimilarities buffer; list: repr); descriptor dictionaries of RDMs arguments are C12 business',
    'reference definitions in mc/ref/measures.py and mc/ref/c13_ref.py are correct; the pooling / regression '
    'references are calibrated on NaN-free input in the same run (mask = none cases)',
    'rejection = any raised exception; the exception type is recorded as outcome',
    'values outside the enumerated alphabets are represented by fixed generic fills only',
    'rescale is called with threshold=1e-24: the routine converges linearly and for weakly overlapping '
    'coverings slowly (error ~ 850 x sqrt(threshold) measured), so with the default 1e-8 proportional parts '
    'agree only to 1e-2..1e-3 and with 1e-16 only to ~1e-5; the statement does not quantify the stopping rule. '
    'A call that does not terminate in 20 s is excluded and counted (documented: may not converge for small '
    'thresholds)',
    'sigma_k given as 1-D vector is not supported by util.matrix.get_v (pooling.pool_rdm / fit_regress) even '
    'without NaNs; that class is probed NaN-free first and excluded (counted) when it raises there',
]
TOL_PLAIN = 1e-9
TOL_CG = 1e-4
TOL_FIT_CG = 1e-3
RESCALE_THRESHOLD = 1e-24
TOL_RESCALE = 1e-5
TOLERANCES = {'plain and whitened without sigma_k': TOL_PLAIN, 'whitened compare with sigma_k (cg, rtol 1e-5)': TOL_CG, 'whitened pool/fit (cg, rtol 1e-5)': TOL_FIT_CG,
              'rescale proportionality': 1e-9, 'rescale common scale (relative)': TOL_RESCALE}
BOUNDS = {
    'quick': {'n_cond': [4], 'masks': 'all with >= 3 entries left (42)', 'fills': 2,
              'within_stack_third_mask': ['= first', '= second', 'none', 'one mask with the average count'],
              'coverings': 'ordered pairs (63) + unordered triples of distinct subsets (149)',
              'mean': '2 RDMs: all 64x64 masks; 3 RDMs: masks of <= 2 entries (22^3)',
              'sequences': 'mean: 16^2 x 7 + 27^2 x 3 weight forms; compare: 22^2 masks x 12 combos; '
                           'pool_rdm: 11^2 x 8; fit_regress: 11^2 x 8 (same in both tiers)'},
    'thorough': {'n_cond': [4, 5], 'masks': 'n=4: 42; n=5: <= 3 missing of 10 (176)', 'fills': 3,
                 'within_stack_third_mask': 'n=4: all 42; n=5: first/second/none',
                 'coverings': 'ordered pairs (63) + ordered triples (1081)',
                 'mean': '2 RDMs: all 64x64 masks; 3 RDMs: masks of <= 3 entries (42^3)'},
}
DEADLINE = {'quick': 420, 'thorough': 3000}

PLAIN = ['cosine', 'corr', 'spearman', 'kendall', 'tau-a', 'rho-a']
WHITE = ['cosine_cov', 'corr_cov']
COMBOS = [(m, 'none') for m in PLAIN] + [(m, s) for m in WHITE for s in ('none', 'vector', 'matrix')]
POOL_I = ['euclid', 'cosine', 'corr', 'cosine_cov', 'corr_cov', 'spearman', 'rho-a', 'kendall', 'tau-b', 'tau-a']
POOL_F = ['euclid', 'cosine', 'corr', 'cosine_cov', 'corr_cov', 'spearman', 'rho-a', 'kendall', 'tau-a']
NC_METHODS = ['cosine', 'corr', 'cosine_cov', 'corr_cov', 'spearman', 'rho-a', 'kendall', 'tau-a']
FIT_METHODS = ['cosine', 'corr', 'cosine_cov', 'corr_cov']
WKINDS = ['none', 'name', 'rdm1d', 'rdmcol', 'rdmfull', 'entry']
# signature class of a weight form: (n_rdm,1) column and the tiled dissimilarities-shaped array are
# the same documented form (broadcast), the 1-D vector is what a descriptor holds
WCLASS = {'none': 'none', 'name': 'descriptor-name', 'rdm1d': 'per-rdm-1d-array',
          'rdmcol': 'per-rdm-array', 'rdmfull': 'per-rdm-array', 'entry': 'per-entry-array'}
RESCALE = ['evidence', 'setsize', 'simple']
# value kinds of the partial RDMs handed to rescale ('proportional*': every part is a positive multiple of
# the restriction of ONE template RDM; 'generic*': independent values).  Dissimilarity estimates can be
# negative (cross-validated distances), a negative number is a value, not a missing entry:
# -crossnobis: positive template with a few small negative entries; -signed: entries of both signs and
# sizes; -negative: every entry negative.  Every covering meets every kind (in one of its two orders).
RESCALE_VALS = {'asc': ['proportional', 'generic', 'proportional-crossnobis'],
                'desc2': ['proportional-signed', 'proportional-negative', 'generic-signed']}
SUBSETS4 = [list(s) for k in (2, 3, 4) for s in itertools.combinations(range(4), k)]


# ----------------------------------------------------------------------------- generators
def all_masks(n_cond, tier):
    L = combi.n_pairs(n_cond)
    if n_cond == 4:
        return [list(m) for m in combi.masks(L, L - 3)]
    return [list(m) for m in combi.masks(L, 3)]


def _sigma(kind, n, seed):
    g = rng_for(seed, 'c13sigma', n)
    diag = np.round(g.uniform(0.5, 3.0, size=n), 3)
    full = spd(g, n)
    if kind == 'none':
        return None
    if kind == 'vector':
        return diag.copy()
    if kind == 'matrix':
        return full
    raise ValueError(kind)


def _fill(seed, key, n_vec, length, kind='gen'):
    """value fills: 'gen' generic real, 'pos' generic positive, 'tie' small integers with ties"""
    g = rng_for(seed, 'c13fill', kind, length, *key)
    if kind == 'gen':
        x = g.normal(size=(n_vec, length))
        x[:, 0] += 0.3
        return np.round(x, 4)
    if kind == 'pos':
        return np.round(g.uniform(0.2, 3.0, size=(n_vec, length)), 4)
    if kind == 'tie':
        x = g.integers(0, 3, size=(n_vec, length)).astype(float)
        return x
    raise ValueError(kind)


def _with_mask(x, mask):
    x = np.array(x, dtype=float)
    if len(mask):
        x[..., list(mask)] = np.nan
    return x


def _keep(L, mask):
    ms = set(mask)
    return [k for k in range(L) if k not in ms]


def _wrap(vecs, rep, **kw):
    if rep == 'array' and not kw:
        return np.array(vecs, dtype=float)
    from rsatoolbox.rdm import RDMs
    return RDMs(np.array(vecs, dtype=float), **kw)


class _Timeout(Exception):
    pass


class _alarm:
    def __init__(self, seconds):
        self.seconds = seconds

    def _handler(self, signum, frame):
        raise _Timeout()

    def __enter__(self):
        self.old = signal.signal(signal.SIGVTALRM, self._handler)
        signal.setitimer(signal.ITIMER_VIRTUAL, self.seconds)

    def __exit__(self, *a):
        signal.setitimer(signal.ITIMER_VIRTUAL, 0)
        signal.signal(signal.SIGVTALRM, self.old)
        return False


def _bits(obj):
    """bit-level snapshot of a caller-owned argument (ndarray, RDMs object -> its dissimilarities,
    list of numbers); None for anything else"""
    if obj is None or isinstance(obj, str):
        return None
    if isinstance(obj, np.ndarray):
        return (str(obj.dtype), obj.shape, obj.tobytes())
    d = getattr(obj, 'dissimilarities', None)
    if isinstance(d, np.ndarray):
        return (str(d.dtype), d.shape, d.tobytes())
    if isinstance(obj, (list, tuple)):
        return ('list', len(obj), repr(obj))
    return None


class _watch:
    """with _watch(ctx, case, tag, weights=W, sigma_k=S, rdm1=X): <library call>
    afterwards every watched argument must be bit-identical to what the caller handed over
    (failure kind modifies-argument:<name>), whether the call returned or raised: a routine that
    writes its NaN bookkeeping into the caller's array silently corrupts the caller's NEXT call."""

    def __init__(self, ctx, case, tag, **args):
        self.ctx, self.case, self.tag, self.args = ctx, case, tag, args

    def __enter__(self):
        self.before = {k: _bits(v) for k, v in self.args.items()}
        return self

    def __exit__(self, et, ev, tb):
        for k, v in self.args.items():
            if self.before[k] is not None and _bits(v) != self.before[k]:
                self.ctx.fail('%s|modifies-argument:%s' % (self.tag, k), self.case,
                              'the caller\'s %s was changed by the call: now %s' % (k, _short_any(v)))
        return False


def _short_any(v):
    d = getattr(v, 'dissimilarities', v)
    try:
        return np.array2string(np.asarray(d, dtype=float), precision=5, threshold=40)
    except Exception:
        return repr(d)[:300]


def _chunks(seq, k):
    seq = list(seq)
    return [seq[i:i + k] for i in range(0, len(seq), k)]


# ----------------------------------------------------------------------------- shards
def shards(tier, seed):
    thorough = tier == 'thorough'
    out = []
    for n in ([4, 5] if thorough else [4]):
        nm = len(all_masks(n, tier))
        for ci, (m, s) in enumerate(COMBOS):
            for blk in _chunks(range(nm), 14 if n == 4 else 16):
                out.append({'kind': 'common', 'n_cond': n, 'method': m, 'sigma': s, 'masks': [blk[0], blk[-1] + 1]})
            for blk in _chunks(range(nm), 14 if n == 4 else 8):
                out.append({'kind': 'differ', 'n_cond': n, 'method': m, 'sigma': s, 'm1': [blk[0], blk[-1] + 1]})
            step = (3 if thorough else 7) if n == 4 else 4
            for blk in _chunks(range(nm), step):
                out.append({'kind': 'within', 'n_cond': n, 'method': m, 'sigma': s, 'ma': [blk[0], blk[-1] + 1]})
            nidx = n ** n
            for blk in _chunks(range(nidx), 256 if n == 4 else 625):
                out.append({'kind': 'boot', 'n_cond': n, 'method': m, 'sigma': s, 'idx': [blk[0], blk[-1] + 1]})
        for m in POOL_I:
            out.append({'kind': 'pool', 'which': 'inference', 'n_cond': n, 'method': m})
        for m in POOL_F:
            out.append({'kind': 'pool', 'which': 'fitter', 'n_cond': n, 'method': m})
        for m in NC_METHODS:
            out.append({'kind': 'nc', 'n_cond': n, 'method': m})
            if n == 4:
                out.append({'kind': 'cvnc', 'n_cond': n, 'method': m})
        for m in FIT_METHODS:
            for s in ('none', 'vector', 'matrix'):
                for blk in _chunks(range(nm), 42 if n == 4 else 22):
                    out.append({'kind': 'fit', 'n_cond': n, 'method': m, 'sigma': s, 'masks': [blk[0], blk[-1] + 1]})
                if n == 4:
                    out.append({'kind': 'fitboot', 'n_cond': n, 'method': m, 'sigma': s})
            for blk in _chunks(range(nm), 14 if n == 4 else 16):
                out.append({'kind': 'fitdiffer', 'n_cond': n, 'method': m, 'm1': [blk[0], blk[-1] + 1]})
    # RDMs.mean over arbitrary masks (n_cond = 4)
    for blk in _chunks(range(64), 4):
        out.append({'kind': 'mean2', 'first': [blk[0], blk[-1] + 1]})
    n3 = 42 if thorough else 22
    for a in range(n3):
        out.append({'kind': 'mean3', 'first': a, 'n_masks': n3})
    # RDMs.mean for every stack shape around the coincidence n_rdm == n_pairs (a weights vector
    # is then as long as an RDM vector and per-RDM / per-entry forms can be confused)
    for n in (2, 3, 4, 5):
        out.append({'kind': 'meanshape', 'n_cond': n})
    # sequences of two calls that share one caller-owned array (weights / sigma_k) while the
    # missing-entry masks differ: every ordered pair from a small menu of masks
    for n_rdm in (2, 3):
        ncfg = len(seq_stack_masks(n_rdm))
        for blk in _chunks(range(ncfg), 9):
            out.append({'kind': 'meanseq', 'n_rdm': n_rdm, 'first': [blk[0], blk[-1] + 1]})
    for m, s in COMBOS:
        out.append({'kind': 'cmpseq', 'method': m, 'sigma': s})
    for which, m, s in SEQ_POOL:
        out.append({'kind': 'poolseq', 'which': which, 'method': m, 'sigma': s})
    for m in FIT_METHODS:
        for s in ('none', 'matrix'):
            out.append({'kind': 'fitseq', 'method': m, 'sigma': s})
    # from_partials coverings
    cov = coverings(tier)
    for blk in _chunks(range(len(cov)), 8 if not thorough else 24):
        out.append({'kind': 'partials', 'cov': [blk[0], blk[-1] + 1]})
    out.append({'kind': 'partials_common'})
    # weighted mean of a SELECTION of a stack that carries per-entry weights as a 2-D rdm descriptor
    for ci in range(len(SEL_MASKS)):
        for src in SEL_SOURCES:
            out.append({'kind': 'meansel', 'cfg': ci, 'source': src})
    return out


SEQ_POOL = [('inference', 'cosine', 'none'), ('inference', 'corr', 'none'), ('inference', 'spearman', 'none'),
            ('fitter', 'cosine', 'none'), ('fitter', 'cosine_cov', 'none'), ('fitter', 'cosine_cov', 'matrix'),
            ('fitter', 'corr_cov', 'none'), ('fitter', 'corr_cov', 'matrix')]
SEQ_WKINDS = ['rdm1d', 'rdmcol', 'rdmfull', 'entry', 'entry-int', 'entry-f32', 'name-shared-list']


def seq_masks():
    """the small menu of common masks for the two-call sequences (n_cond = 4): <= 2 of 6 entries"""
    return [list(m) for m in combi.masks(6, 2)]


def seq_masks_small():
    """11 masks: none, every single entry, four pairs (equal counts at different positions included)"""
    return [list(m) for m in combi.masks(6, 1)] + [[0, 1], [4, 5], [0, 5], [2, 3]]


def seq_stack_masks(n_rdm):
    """menu of per-stack mask configurations for the RDMs.mean sequences: every assignment of a
    per-RDM mask from a small menu (2 RDMs: 4 masks -> 16 stacks; 3 RDMs: 3 masks -> 27 stacks)"""
    menu = [[], [0], [5], [0, 1]] if n_rdm == 2 else [[], [0], [0, 1]]
    return [list(c) for c in itertools.product(menu, repeat=n_rdm)]


# stacks of 3 RDMs (n_cond = 4) for the selection family: no gaps; gaps differing between RDMs; one
# pair missing in every RDM; heavy gaps
SEL_MASKS = [[[], [], []], [[0], [], [0, 1]], [[0], [0, 5], [0]], [[0, 1], [5], [2, 3, 4]]]
# where the per-entry weights descriptor comes from: 2-D ndarray given to the constructor / assigned to
# rdm_descriptors afterwards / left behind by rescale() as 'rescalingWeights' (3 methods) / list of rows;
# '1d' = 1-D ndarray of per-RDM weights (control: must keep working as per-RDM weights)
SEL_SOURCES = ['ctor', 'set', 'rescale-evidence', 'rescale-setsize', 'rescale-simple', 'rows', '1d']
SEL_GROUPS = ['a', 'b', 'a']


def sel_menu():
    """every selection form: (operation, descriptor it goes by, argument)"""
    out = [('none', None, None)]
    vecs = [list(v) for k in (1, 2, 3) for v in itertools.product(range(3), repeat=k)]     # 39, repeats included
    for v in vecs:
        out.append(('subsample', 'index', v))
        out.append(('getitem', None, v))
        out.append(('getitem-ndarray', None, v))
        if len(set(v)) == len(v):
            out.append(('subset', 'index', v))       # every subset in every order of naming it
    for i in range(3):
        out += [('subset', 'index', i), ('subsample', 'index', i), ('getitem', None, i)]
    out.append(('iterate', None, None))
    for g in ('a', 'b', ['a'], ['b', 'a'], ['a', 'b'], ['a', 'a']):
        out.append(('subset', 'grp', g))
        out.append(('subsample', 'grp', g))
    # two selections in a row
    out += [('subset+subsample', 'index', [[0, 2], [2, 0, 2]]), ('subsample+subset', 'index', [[2, 0, 2], [2]]),
            ('subsample+getitem', 'index', [[1, 1, 0], [0, 2]]), ('getitem+subsample', 'index', [[2, 1], [1, 0, 1]])]
    return out


def coverings(tier):
    full = set(range(4))
    out = []
    for a in SUBSETS4:
        for b in SUBSETS4:
            if set(a) | set(b) == full:
                out.append([a, b])
    if tier == 'thorough':
        for t in itertools.product(SUBSETS4, repeat=3):
            if set().union(*map(set, t)) == full:
                out.append([list(s) for s in t])
    else:
        for t in itertools.combinations(SUBSETS4, 3):
            if set().union(*map(set, t)) == full:
                out.append([list(s) for s in t])
    return out


# ----------------------------------------------------------------------------- shard driver
def run_shard(shard, ctx):
    kind = shard['kind']
    tier = ctx.tier
    thorough = tier == 'thorough'
    fills = 3 if thorough else 2
    if kind == 'common':
        n = shard['n_cond']
        masks = all_masks(n, tier)
        for mi in range(*shard['masks']):
            vals = (['alpha01'] if n == 4 else []) + ['tie'] + ['gen%d' % f for f in range(fills)]
            for v in vals:
                for rep in ('rdms', 'array'):
                    if v == 'alpha01' and rep == 'array':
                        continue
                    run_case({'kind': 'common', 'n_cond': n, 'method': shard['method'], 'sigma': shard['sigma'],
                              'mask': masks[mi], 'vals': v, 'rep': rep}, ctx)
    elif kind == 'differ':
        n = shard['n_cond']
        masks = all_masks(n, tier)
        for i1 in range(*shard['m1']):
            for i2 in range(len(masks)):
                if i1 == i2:
                    continue
                for shape in ([1, 1], [2, 3]):
                    run_case({'kind': 'differ', 'n_cond': n, 'method': shard['method'], 'sigma': shard['sigma'],
                              'm1': masks[i1], 'm2': masks[i2], 'shape': shape,
                              'rep': 'rdms' if (i1 + i2) % 2 else 'array'}, ctx)
    elif kind == 'within':
        n = shard['n_cond']
        masks = all_masks(n, tier)
        for ia in range(*shard['ma']):
            for ib in range(len(masks)):
                if ia == ib:
                    continue
                if thorough and n == 4:
                    thirds = [list(m) for m in masks]
                else:
                    thirds = [masks[ia], masks[ib], []]
                    tot = len(masks[ia]) + len(masks[ib])
                    if len(masks[ia]) != len(masks[ib]) and tot % 2 == 0:
                        # a mask whose count is the average of the two: total counts agree
                        thirds.append(next(m for m in masks if 2 * len(m) == tot))
                for mc in thirds:
                    for side in (0, 1):
                        run_case({'kind': 'within', 'n_cond': n, 'method': shard['method'],
                                  'sigma': shard['sigma'], 'ma': masks[ia], 'mb': masks[ib], 'mc': mc,
                                  'side': side, 'n_other': 1 + (ia + ib + side) % 2,
                                  'rep': 'rdms' if (ia + ib) % 2 else 'array'}, ctx)
    elif kind == 'boot':
        n = shard['n_cond']
        for code in range(*shard['idx']):
            idx = _decode_idx(code, n)
            if len(set(idx)) == n:
                continue      # no repeat: no missing entries
            run_case({'kind': 'boot', 'n_cond': n, 'method': shard['method'], 'sigma': shard['sigma'],
                      'idx': idx}, ctx)
            if shard['method'] in ('cosine', 'corr_cov') and shard['sigma'] in ('none', 'matrix') \
                    and idx == sorted(idx):
                # the same data resampled with a different index vector on the model side
                for idx2 in itertools.combinations_with_replacement(range(n), n):
                    idx2 = list(idx2)
                    if R.bootstrap_mask(idx2)[1] != R.bootstrap_mask(idx)[1]:
                        run_case({'kind': 'bootdiffer', 'n_cond': n, 'method': shard['method'],
                                  'sigma': shard['sigma'], 'idx': idx, 'idx2': idx2}, ctx)
    elif kind in ('pool', 'nc'):
        n = shard['n_cond']
        masks = all_masks(n, tier)
        sig_kinds = ['none']
        if kind == 'pool' and shard['which'] == 'fitter' and shard['method'] in WHITE:
            sig_kinds = ['none', 'vector', 'matrix']
        for mask in masks:
            for n_rdm in ((2, 3) if kind == 'pool' else (3, 4)):
                for f in ['tie'] + [_fillname(i) for i in range(fills)]:
                    for s in sig_kinds:
                        c = {'kind': kind, 'n_cond': n, 'method': shard['method'], 'mask': mask,
                             'n_rdm': n_rdm, 'vals': f}
                        if kind == 'pool':
                            c['which'] = shard['which']
                            c['sigma'] = s
                        run_case(c, ctx)
    elif kind == 'cvnc':
        n = shard['n_cond']
        for code in range(n ** n):
            idx = _decode_idx(code, n)
            if len(set(idx)) < n:
                for f in range(fills):
                    run_case({'kind': 'cvnc', 'n_cond': n, 'method': shard['method'], 'idx': idx,
                              'vals': _fillname(f)}, ctx)
    elif kind == 'fit':
        n = shard['n_cond']
        for mask in all_masks(n, tier)[shard['masks'][0]:shard['masks'][1]]:
            for n_model, n_data in ((1, 1), (2, 2), (3, 2)):
                for ridge in (0, 0.5):
                    for f in range(fills):
                        run_case({'kind': 'fit', 'n_cond': n, 'method': shard['method'], 'sigma': shard['sigma'],
                                  'mask': mask, 'n_model': n_model, 'n_data': n_data, 'ridge': ridge,
                                  'vals': _fillname(f)}, ctx)
    elif kind == 'fitboot':
        n = shard['n_cond']
        for code in range(n ** n):
            idx = _decode_idx(code, n)
            if len(set(idx)) == n:
                continue
            run_case({'kind': 'fitboot', 'n_cond': n, 'method': shard['method'], 'sigma': shard['sigma'],
                      'idx': idx, 'n_model': 2, 'n_data': 2, 'vals': 'pos0'}, ctx)
    elif kind == 'fitdiffer':
        n = shard['n_cond']
        masks = all_masks(n, tier)
        for i1 in range(*shard['m1']):
            for i2 in range(len(masks)):
                if i1 != i2:
                    run_case({'kind': 'fitdiffer', 'n_cond': n, 'method': shard['method'],
                              'm1': masks[i1], 'm2': masks[i2]}, ctx)
    elif kind == 'mean2':
        subsets = [list(m) for m in combi.masks(6, 6)]
        for a in range(*shard['first']):
            for b in range(64):
                for w in WKINDS:
                    run_case({'kind': 'mean', 'n_cond': 4, 'masks': [subsets[a], subsets[b]], 'weights': w,
                              'vals': _fillname((a + b) % fills)}, ctx)
    elif kind == 'mean3':
        subsets = [list(m) for m in combi.masks(6, 6)][:shard['n_masks']]
        a = shard['first']
        for b in range(len(subsets)):
            for c in range(len(subsets)):
                for w in WKINDS:
                    run_case({'kind': 'mean', 'n_cond': 4, 'masks': [subsets[a], subsets[b], subsets[c]],
                              'weights': w, 'vals': _fillname((a + b + c) % fills)}, ctx)
    elif kind == 'meanshape':
        n = shard['n_cond']
        L = combi.n_pairs(n)
        for n_rdm in range(1, L + 3):
            variants = [[[] for _ in range(n_rdm)]]
            if L > 1:
                variants.append([[0]] + [[] for _ in range(n_rdm - 1)])
                variants.append([[] for _ in range(n_rdm - 1)] + [[L - 1]])
            for masks in variants:
                for w in WKINDS:
                    run_case({'kind': 'mean', 'n_cond': n, 'masks': masks, 'weights': w, 'vals': 'pos0'}, ctx)
    elif kind == 'meanseq':
        cfgs = seq_stack_masks(shard['n_rdm'])
        for a in range(*shard['first']):
            for b in range(len(cfgs)):
                for w in (SEQ_WKINDS if shard['n_rdm'] == 2 else SEQ_WKINDS[:1] + SEQ_WKINDS[2:4]):
                    run_case({'kind': 'meanseq', 'n_cond': 4, 'masks_a': cfgs[a], 'masks_b': cfgs[b],
                              'weights': w}, ctx)
    elif kind == 'cmpseq':
        menu = seq_masks()
        for i1, m1 in enumerate(menu):
            for i2, m2 in enumerate(menu):
                run_case({'kind': 'cmpseq', 'n_cond': 4, 'method': shard['method'], 'sigma': shard['sigma'],
                          'm1': m1, 'm2': m2, 'rep': 'array' if (i1 + i2) % 2 else 'rdms'}, ctx)
    elif kind == 'poolseq':
        menu = seq_masks_small()
        for m1 in menu:
            for m2 in menu:
                run_case({'kind': 'poolseq', 'n_cond': 4, 'which': shard['which'], 'method': shard['method'],
                          'sigma': shard['sigma'], 'm1': m1, 'm2': m2}, ctx)
    elif kind == 'fitseq':
        menu = seq_masks_small()
        for m1 in menu:
            for m2 in menu:
                run_case({'kind': 'fitseq', 'n_cond': 4, 'method': shard['method'], 'sigma': shard['sigma'],
                          'm1': m1, 'm2': m2}, ctx)
    elif kind == 'partials':
        cov = coverings(tier)
        for ci in range(*shard['cov']):
            parts = cov[ci]
            for order in ('asc', 'desc2'):
                for allp in ('none', 'given'):
                    base = {'kind': 'partials', 'parts': parts, 'order': order, 'all_patterns': allp}
                    run_case(dict(base, op='embed', vals='generic'), ctx)
                    if order == 'asc':
                        for w in WKINDS:
                            run_case(dict(base, op='mean', weights=w, vals='generic'), ctx)
                        for m, s in (COMBOS if allp == 'none' else COMBOS[:1]):
                            run_case(dict(base, op='compare', method=m, sigma=s, vals='generic'), ctx)
                    if allp == 'none':
                        for meth in RESCALE:
                            for v in RESCALE_VALS[order]:
                                run_case(dict(base, op='rescale', rescale=meth, vals=v), ctx)
    elif kind == 'meansel':
        for op, by, arg in sel_menu():
            run_case({'kind': 'meansel', 'masks': SEL_MASKS[shard['cfg']], 'source': shard['source'],
                      'op': op, 'by': by, 'arg': arg}, ctx)
    elif kind == 'partials_common':
        for sub in SUBSETS4:
            if len(sub) < 3:
                continue
            for m, s in COMBOS:
                run_case({'kind': 'partials_common', 'subset': sub, 'method': m, 'sigma': s}, ctx)
    else:
        raise ValueError(kind)


def _fillname(i):
    """generic value fills: positive, SIGNED (dissimilarity estimates such as crossnobis can be negative; a
    negative number is a value, never a missing entry), positive"""
    return ['pos0', 'gen0', 'pos1'][i]


def _decode_idx(code, n):
    idx = []
    for _ in range(n):
        idx.append(code % n)
        code //= n
    return idx[::-1]


# ----------------------------------------------------------------------------- judging helpers
def _judge_compare(ctx, case, method, sig_tag, got, Xd, Yd, sigma, keep, tol):
    """got: library matrix; Xd, Yd: entry-deleted reference vectors"""
    sigp = 'compare|%s' % sig_tag
    got = np.asarray(got)
    if got.shape != (len(Xd), len(Yd)):
        ctx.fail(sigp + '|shape', case, 'shape %r for stacks %d x %d' % (got.shape, len(Xd), len(Yd)))
        return
    nontrivial = False
    for i, x in enumerate(Xd):
        dx = M.is_degenerate(method, x)
        for j, y in enumerate(Yd):
            if dx or M.is_degenerate(method, y):
                ctx.exclude('measure undefined on the deleted vectors (zero norm / constant)')
                continue
            want = M.similarity(method, x, y, sigma, keep)
            if want is None:
                ctx.exclude('measure undefined on the deleted vectors (zero norm / constant)')
                continue
            nontrivial = True
            g = got[i, j]
            ctx.dev('compare/' + method + ('' if sigma is None else '/sigma'), reldev(g, want))
            if not close(g, want, tol):
                ctx.fail(sigp + '|value-mismatch', dict(case, i=i, j=j),
                         'entry (%d,%d): got %.12g, reference on entry-deleted vectors %.12g; x=%s y=%s keep=%s'
                         % (i, j, g, want, [float(v) for v in x], [float(v) for v in y], keep[1]))
            if (i + 3 * j) % 5 == 0:
                ctx.outcome(round(float(want), 9))
    return nontrivial


def _must_raise(ctx, case, sig, fn, what, **watched):
    """fn() must raise; returning a value is the violation"""
    try:
        with _watch(ctx, case, sig, **watched):
            res = fn()
    except _Timeout:
        raise
    except Exception as e:   # rejected: this is the demanded behaviour
        ctx.outcome('raise:' + type(e).__name__)
        ctx.count('rejected:' + type(e).__name__)
        return True
    ctx.outcome('returned')
    ctx.fail(sig + '|no-error', case, '%s returned %s instead of raising' % (what, _short(res)))
    return False


def _short(res):
    try:
        return np.array2string(np.asarray(res, dtype=float), precision=6, threshold=20)
    except Exception:
        return repr(res)[:200]


def _vals(ctx, name, key, n_vec, length):
    if name == 'tie':
        return _fill(ctx.seed, key, n_vec, length, 'tie')
    if name.startswith('gen'):
        return _fill(ctx.seed, key + (int(name[3:]),), n_vec, length, 'gen')
    if name.startswith('pos'):
        return _fill(ctx.seed, key + (int(name[3:]),), n_vec, length, 'pos')
    raise ValueError(name)


def _cmp_tol(method, skind):
    """only the sigma_k path runs through the library's conjugate-gradient solve"""
    return TOL_CG if (method in WHITE and skind != 'none') else TOL_PLAIN


def _mask_class(*masks):
    return 'equal-count' if len({len(m) for m in masks}) == 1 else 'different-count'


# ----------------------------------------------------------------------------- cases
def run_case(case, ctx):
    kind = case['kind']
    if kind in ('common', 'differ', 'within', 'boot', 'bootdiffer', 'pool', 'nc', 'cvnc', 'fit', 'fitboot',
                'fitdiffer', 'mean', 'partials', 'partials_common', 'meanseq', 'cmpseq', 'poolseq', 'fitseq', 'meansel'):
        return globals()['_case_' + kind](case, ctx)
    # a shard descriptor handed to --replay (escaped exception): run the whole shard
    return run_shard(case.get('shard', case), ctx)


def _case_common(case, ctx):
    from rsatoolbox.rdm import compare
    n, method, skind, mask = case['n_cond'], case['method'], case['sigma'], case['mask']
    L = combi.n_pairs(n)
    keep = _keep(L, mask)
    sigma = _sigma(skind, n, ctx.seed)
    if case['vals'] == 'alpha01':
        Y = np.array(list(itertools.product((0.0, 1.0), repeat=L)))
        X = np.vstack([Y[5::9], _fill(ctx.seed, (n, 1), 2, L, 'gen')])
    else:
        X = _vals(ctx, case['vals'], (n, 11), 2, L)
        Y = _vals(ctx, case['vals'], (n, 12), 3, L)
    tol = _cmp_tol(method, skind)
    tag = 'method=%s,sigma_k=%s,masks=common' % (method, skind)
    kw = {'sigma_k': sigma} if method in WHITE else {}
    with ctx.guard('compare|' + tag, case):
        a1, a2 = _wrap(_with_mask(X, mask), case['rep']), _wrap(_with_mask(Y, mask), case['rep'])
        with _watch(ctx, case, 'compare|' + tag, rdm1=a1, rdm2=a2, sigma_k=sigma):
            got = compare(a1, a2, method=method, **kw)
        nt = _judge_compare(ctx, case, method, tag, got, X[:, keep], Y[:, keep], sigma, (n, keep), tol)
        ctx.case(case, nontrivial=bool(nt))
        # a stack compared with itself must see the same thing (single-stack code path)
        if case['vals'] != 'alpha01':
            a1 = _wrap(_with_mask(X, mask), case['rep'])
            with _watch(ctx, case, 'compare|' + tag, rdm1=a1, sigma_k=sigma):
                got2 = compare(a1, a1, method=method, **kw)
            _judge_compare(ctx, dict(case, self=True), method, tag, got2, X[:, keep], X[:, keep], sigma,
                           (n, keep), tol)
            ctx.case(dict(case, self=True), nontrivial=bool(nt))


def _case_differ(case, ctx):
    from rsatoolbox.rdm import compare
    n, method, skind = case['n_cond'], case['method'], case['sigma']
    L = combi.n_pairs(n)
    n1, n2 = case['shape']
    X = _with_mask(_fill(ctx.seed, (n, 21), n1, L, 'pos'), case['m1'])
    Y = _with_mask(_fill(ctx.seed, (n, 22), n2, L, 'pos'), case['m2'])
    kw = {'sigma_k': _sigma(skind, n, ctx.seed)} if method in WHITE else {}
    ctx.case(case)
    ctx.count('differ:' + _mask_class(case['m1'], case['m2']))
    a1, a2 = _wrap(X, case['rep']), _wrap(Y, case['rep'])
    _must_raise(ctx, case, 'compare|masks=between-stacks,%s' % _mask_class(case['m1'], case['m2']),
                lambda: compare(a1, a2, method=method, **kw),
                'compare(method=%s) of stacks missing entries %s vs %s' % (method, case['m1'], case['m2']),
                rdm1=a1, rdm2=a2, sigma_k=kw.get('sigma_k'))


def _case_within(case, ctx):
    from rsatoolbox.rdm import compare
    n, method, skind = case['n_cond'], case['method'], case['sigma']
    L = combi.n_pairs(n)
    het = _fill(ctx.seed, (n, 31), 2, L, 'pos')
    het[0, case['ma']] = np.nan
    het[1, case['mb']] = np.nan
    other = _with_mask(_fill(ctx.seed, (n, 32), case['n_other'], L, 'pos'), case['mc'])
    a, b = (het, other) if case['side'] == 0 else (other, het)
    kw = {'sigma_k': _sigma(skind, n, ctx.seed)} if method in WHITE else {}
    ctx.case(case)
    cls = _mask_class(case['ma'], case['mb'])
    ctx.count('within:' + cls)
    a1, a2 = _wrap(a, case['rep']), _wrap(b, case['rep'])
    _must_raise(ctx, case, 'compare|masks=within-stack,%s' % cls,
                lambda: compare(a1, a2, method=method, **kw),
                'compare(method=%s): one stack has RDMs missing %s and %s, the other stack %s'
                % (method, case['ma'], case['mb'], case['mc']),
                rdm1=a1, rdm2=a2, sigma_k=kw.get('sigma_k'))


def _boot_objects(ctx, n, n_model, n_data, vals='pos0'):
    from rsatoolbox.rdm import RDMs
    L = combi.n_pairs(n)
    Dm = _vals(ctx, vals, (n, 41), n_model, L)
    Dd = _vals(ctx, vals, (n, 42), n_data, L)
    return Dm, Dd, RDMs(Dm.copy()), RDMs(Dd.copy())


def _case_boot(case, ctx):
    from rsatoolbox.rdm import compare
    n, method, skind, idx = case['n_cond'], case['method'], case['sigma'], case['idx']
    Dm, Dd, model, data = _boot_objects(ctx, n, 2, 2)
    sample, keep = R.bootstrap_mask(idx)
    tag = 'method=%s,sigma_k=%s,masks=bootstrap' % (method, skind)
    with ctx.guard('compare|' + tag, case):
        ms = model.subsample_pattern('index', np.array(idx))
        ds = data.subsample_pattern('index', np.array(idx))
        want_m = np.array([R.bootstrap_vector(v, n, idx) for v in Dm])
        want_d = np.array([R.bootstrap_vector(v, n, idx) for v in Dd])
        if maxreldev(ms.dissimilarities, want_m) > 0 or maxreldev(ds.dissimilarities, want_d) > 0:
            ctx.fail('subsample_pattern|bootstrap|unexpected-missing-pattern-or-values', case,
                     'got %s expected %s' % (ms.dissimilarities.tolist(), want_m.tolist()))
            ctx.case(case)
            return
        if len(keep) < 3:
            ctx.exclude('fewer than 3 non-missing entries')
            ctx.case(case, nontrivial=False)
            return
        m = len(sample)
        sigma = _sigma(skind, m, ctx.seed)
        kw = {'sigma_k': sigma} if method in WHITE else {}
        with _watch(ctx, case, 'compare|' + tag, rdm1=ms, rdm2=ds, sigma_k=sigma):
            got = compare(ms, ds, method=method, **kw)
        nt = _judge_compare(ctx, case, method, tag, got, want_m[:, keep], want_d[:, keep], sigma, (m, keep),
                            _cmp_tol(method, skind))
        ctx.case(case, nontrivial=bool(nt))


def _case_bootdiffer(case, ctx):
    from rsatoolbox.rdm import compare
    n, method, skind = case['n_cond'], case['method'], case['sigma']
    Dm, Dd, model, data = _boot_objects(ctx, n, 1, 2)
    k1, k2 = R.bootstrap_mask(case['idx'])[1], R.bootstrap_mask(case['idx2'])[1]
    ms = model.subsample_pattern('index', np.array(case['idx2']))
    ds = data.subsample_pattern('index', np.array(case['idx']))
    kw = {'sigma_k': _sigma(skind, n, ctx.seed)} if method in WHITE else {}
    ctx.case(case)
    cls = 'equal-count' if len(k1) == len(k2) else 'different-count'
    _must_raise(ctx, case, 'compare|masks=between-stacks,%s' % cls,
                lambda: compare(ms, ds, method=method, **kw),
                'compare(method=%s) of a model resampled with %s and data resampled with %s'
                % (method, case['idx2'], case['idx']))


def _case_pool(case, ctx):
    from rsatoolbox.rdm import RDMs
    n, method, mask, which = case['n_cond'], case['method'], case['mask'], case['which']
    L = combi.n_pairs(n)
    keep = _keep(L, mask)
    X = _vals(ctx, case['vals'], (n, 51, case['n_rdm']), case['n_rdm'], L)
    skind = case.get('sigma', 'none')
    sigma = _sigma(skind, n, ctx.seed)
    tag = 'pool_rdm(%s)|method=%s,sigma_k=%s' % (which, method, skind)
    if which == 'inference':
        from rsatoolbox.util.inference_util import pool_rdm

        def call(arr):
            obj = RDMs(arr)
            with _watch(ctx, case, tag, rdms=obj):
                return pool_rdm(obj, method=method)
        want = R.pool_inference(method, X[:, keep])
    else:
        from rsatoolbox.util.pooling import pool_rdm

        def call(arr):
            obj = RDMs(arr)
            with _watch(ctx, case, tag, rdms=obj, sigma_k=sigma):
                return pool_rdm(obj, method=method, sigma_k=sigma)
        want = R.pool_fitter(method, X[:, keep], sigma, (n, keep))
    if skind == 'vector' and not _supported_without_nan(ctx, tag, lambda: call(X.copy())):
        ctx.case(case, nontrivial=False)
        return
    if want is None or any(M.is_degenerate('corr', r) for r in X[:, keep]):
        ctx.exclude('pooling undefined on the deleted vectors (zero norm / constant)')
        ctx.case(case, nontrivial=False)
        return
    with ctx.guard(tag, case):
        got = call(_with_mask(X, mask)).dissimilarities
        ctx.case(case)
        got = np.asarray(got, float)
        if got.shape != (1, L):
            ctx.fail(tag + '|shape', case, 'shape %r' % (got.shape,))
            return
        full = np.full(L, np.nan)
        full[keep] = want
        if not np.array_equal(np.isnan(got[0]), np.isnan(full)):
            ctx.fail(tag + '|missing-pattern-changed', case, 'pooled %s, common mask %s' % (got[0].tolist(), mask))
            return
        tol = TOL_FIT_CG if (which == 'fitter' and method in WHITE) else TOL_PLAIN
        ctx.dev(tag, maxreldev(got[0], full))
        if maxreldev(got[0], full) > tol:
            ctx.fail(tag + '|value-mismatch', case, 'pooled %s, reference on entry-deleted vectors %s (mask %s)'
                     % (got[0].tolist(), full.tolist(), mask))
        ctx.outcome([round(float(v), 8) for v in want[:2]])


_SUPPORT = {}


def _supported_without_nan(ctx, tag, fn):
    """a configuration that already raises on NaN-free input is not this property's business"""
    if tag not in _SUPPORT:
        try:
            fn()
            _SUPPORT[tag] = True
        except Exception:
            _SUPPORT[tag] = False
    if not _SUPPORT[tag]:
        ctx.exclude('configuration raises on NaN-free input as well (1-D sigma_k in util.matrix.get_v)')
    return _SUPPORT[tag]


def _case_nc(case, ctx):
    from rsatoolbox.rdm import RDMs
    from rsatoolbox.inference.noise_ceiling import boot_noise_ceiling
    n, method, mask = case['n_cond'], case['method'], case['mask']
    L = combi.n_pairs(n)
    keep = _keep(L, mask)
    X = _vals(ctx, case['vals'], (n, 61, case['n_rdm']), case['n_rdm'], L)
    if any(M.is_degenerate('corr', r) for r in X[:, keep]):
        want = None
    else:
        want = R.noise_ceiling_loo(method, X[:, keep], (n, keep))
    if want is None:
        ctx.exclude('noise ceiling undefined on the deleted vectors (zero norm / constant)')
        ctx.case(case, nontrivial=False)
        return
    tag = 'boot_noise_ceiling|method=%s' % method
    with ctx.guard(tag, case):
        obj = RDMs(_with_mask(X, mask))
        with _watch(ctx, case, tag, rdms=obj):
            got = boot_noise_ceiling(obj, method=method)
        ctx.case(case)
        tol = TOL_PLAIN
        for name, g, w in (('lower', got[0], want[0]), ('upper', got[1], want[1])):
            ctx.dev(tag, reldev(g, w))
            if not close(g, w, tol):
                ctx.fail(tag + '|%s-value-mismatch' % name, case,
                         '%s ceiling %.12g, reference on entry-deleted vectors %.12g (mask %s)' % (name, g, w, mask))
        ctx.outcome(round(float(want[0]), 8))


def _case_cvnc(case, ctx):
    """cross-validation noise ceiling on a pattern-bootstrap sample: pooled RDMs are resampled with
    the index vector, the test RDM carries the same bootstrap-induced missing entries"""
    from rsatoolbox.rdm import RDMs
    from rsatoolbox.inference.noise_ceiling import cv_noise_ceiling
    n, method, idx = case['n_cond'], case['method'], case['idx']
    L = combi.n_pairs(n)
    X = _vals(ctx, case['vals'], (n, 65), 3, L)
    sample, keep = R.bootstrap_mask(idx)
    tag = 'cv_noise_ceiling|method=%s,bootstrap' % method
    if len(keep) < 3:
        ctx.exclude('fewer than 3 non-missing entries')
        ctx.case(case, nontrivial=False)
        return
    p_train = R.pool_inference(method, X[:2].tolist())
    p_all = R.pool_inference(method, X.tolist())
    test = [R.bootstrap_vector(X[2], n, idx)[k] for k in keep]
    want = []
    for p in (p_train, p_all):
        pb = [R.bootstrap_vector(p, n, idx)[k] for k in keep] if p is not None else None
        if pb is None or R.nearly_degenerate(method, pb) or R.nearly_degenerate(method, test):
            want = None
            break
        want.append(M.similarity(method, pb, test, None, (len(sample), keep)))
    if want is None or any(w is None for w in want):
        ctx.exclude('noise ceiling undefined on the deleted vectors (zero norm / constant)')
        ctx.case(case, nontrivial=False)
        return
    with ctx.guard(tag, case):
        rdms = RDMs(X.copy())
        train = rdms.subset('index', [0, 1])
        test_rdms = rdms.subset('index', [2]).subsample_pattern('index', np.array(idx))
        with _watch(ctx, case, tag, rdms=rdms, train=train, test=test_rdms):
            got = cv_noise_ceiling(rdms, [(train, np.array(idx))], [(test_rdms, np.array(idx))], method=method,
                                   pattern_descriptor='index')
        ctx.case(case)
        for name, g, w in (('lower', got[0], want[0]), ('upper', got[1], want[1])):
            ctx.dev(tag, reldev(g, w))
            if not close(g, w, TOL_PLAIN):
                ctx.fail(tag + '|%s-value-mismatch' % name, case,
                         '%s ceiling %.12g, reference on entry-deleted vectors %.12g (index vector %s)'
                         % (name, g, w, idx))
        ctx.outcome(round(float(want[0]), 8))


def _judge_theta(ctx, case, tag, got, want, tol):
    got = np.asarray(got, float).ravel()
    want = np.asarray(want, float)
    if got.shape != want.shape:
        ctx.fail(tag + '|shape', case, 'theta shape %r' % (got.shape,))
        return
    ctx.dev(tag, maxreldev(got, want))
    if maxreldev(got, want) > tol:
        ctx.fail(tag + '|value-mismatch', case, 'theta %s, reference regression on entry-deleted vectors %s'
                 % (got.tolist(), want.tolist()))
    ctx.outcome([round(float(v), 7) for v in want])


def _case_fit(case, ctx):
    from rsatoolbox.rdm import RDMs
    from rsatoolbox.model import ModelWeighted
    from rsatoolbox.model.fitter import fit_regress
    n, method, skind, mask = case['n_cond'], case['method'], case['sigma'], case['mask']
    L = combi.n_pairs(n)
    keep = _keep(L, mask)
    Xm = _vals(ctx, case['vals'], (n, 71, case['n_model']), case['n_model'], L)
    Xd = _vals(ctx, case['vals'], (n, 72, case['n_data']), case['n_data'], L)
    sigma = _sigma(skind, n, ctx.seed)
    tag = 'fit_regress|method=%s,sigma_k=%s' % (method, skind)

    def call(m_arr, d_arr):
        mo, do = RDMs(m_arr), RDMs(d_arr)
        model = ModelWeighted('m', mo)
        with _watch(ctx, case, tag, model_rdms=mo, model_vectors=model.rdm, data=do, sigma_k=sigma):
            return fit_regress(model, do, method=method, sigma_k=sigma, ridge_weight=case['ridge'])
    if skind == 'vector' and method in WHITE and not _supported_without_nan(ctx, tag, lambda: call(Xm.copy(), Xd.copy())):
        ctx.case(case, nontrivial=False)
        return
    if case['n_model'] > len(keep) - (1 if method.startswith('corr') else 0) and case['ridge'] == 0:
        ctx.exclude('regression singular: more regressors than (centred) entries')
        ctx.case(case, nontrivial=False)
        return
    want = R.regress(method, Xm[:, keep], Xd[:, keep], sigma, (n, keep), case['ridge'])
    if want is None:
        ctx.exclude('regression undefined / singular on the deleted vectors')
        ctx.case(case, nontrivial=False)
        return
    with ctx.guard(tag, case):
        got = call(_with_mask(Xm, mask), _with_mask(Xd, mask))
        ctx.case(case)
        _judge_theta(ctx, case, tag, got, want, TOL_FIT_CG if method in WHITE else 1e-7)


def _case_fitboot(case, ctx):
    from rsatoolbox.model import ModelWeighted
    from rsatoolbox.model.fitter import fit_regress
    n, method, skind, idx = case['n_cond'], case['method'], case['sigma'], case['idx']
    Dm, Dd, model, data = _boot_objects(ctx, n, case['n_model'], case['n_data'], case['vals'])
    sample, keep = R.bootstrap_mask(idx)
    m = len(sample)
    sigma = _sigma(skind, m, ctx.seed)
    tag = 'fit_regress|method=%s,sigma_k=%s,bootstrap' % (method, skind)
    if skind == 'vector' and method in WHITE:
        ctx.exclude('configuration raises on NaN-free input as well (1-D sigma_k in util.matrix.get_v)')
        ctx.case(case, nontrivial=False)
        return
    if len(keep) < 3 or case['n_model'] > len(keep) - (1 if method.startswith('corr') else 0):
        ctx.exclude('fewer than 3 non-missing entries / singular regression')
        ctx.case(case, nontrivial=False)
        return
    want_m = np.array([R.bootstrap_vector(v, n, idx) for v in Dm])
    want_d = np.array([R.bootstrap_vector(v, n, idx) for v in Dd])
    want = R.regress(method, want_m[:, keep], want_d[:, keep], sigma, (m, keep), 0.0)
    if want is None:
        ctx.exclude('regression undefined / singular on the deleted vectors')
        ctx.case(case, nontrivial=False)
        return
    with ctx.guard(tag, case):
        ds = data.subsample_pattern('index', np.array(idx))
        mod = ModelWeighted('m', model)
        with _watch(ctx, case, tag, model_rdms=model, model_vectors=mod.rdm, data=ds, sigma_k=sigma):
            got = fit_regress(mod, ds, method=method, pattern_idx=np.array(idx),
                              pattern_descriptor='index', sigma_k=sigma)
        ctx.case(case)
        _judge_theta(ctx, case, tag, got, want, TOL_FIT_CG if method in WHITE else 1e-7)


def _case_fitdiffer(case, ctx):
    from rsatoolbox.rdm import RDMs
    from rsatoolbox.model import ModelWeighted
    from rsatoolbox.model.fitter import fit_regress
    n, method = case['n_cond'], case['method']
    L = combi.n_pairs(n)
    Xm = _with_mask(_fill(ctx.seed, (n, 81), 2, L, 'pos'), case['m1'])
    Xd = _with_mask(_fill(ctx.seed, (n, 82), 2, L, 'pos'), case['m2'])
    mo, do = RDMs(Xm), RDMs(Xd)
    ctx.case(case)
    _must_raise(ctx, case, 'fit_regress|masks=model-vs-data,%s' % _mask_class(case['m1'], case['m2']),
                lambda: fit_regress(ModelWeighted('m', mo), do, method=method),
                'fit_regress(method=%s) with model RDMs missing %s and data RDMs missing %s'
                % (method, case['m1'], case['m2']), model_rdms=mo, data=do)


def _weights(ctx, wkind, n_rdm, L, key):
    """-> (argument for RDMs.mean, reference weights, rdm_descriptors)"""
    g = rng_for(ctx.seed, 'c13w', *key)
    per_rdm = [float(v) for v in np.round(g.uniform(0.5, 3.0, size=n_rdm), 3)]
    per_entry = np.round(g.uniform(0.5, 3.0, size=(n_rdm, L)), 3)
    desc = {'w': list(per_rdm)}
    if wkind == 'none':
        return None, None, desc
    if wkind == 'name':
        return 'w', per_rdm, desc
    if wkind == 'rdm1d':
        return np.array(per_rdm), per_rdm, desc
    if wkind == 'rdmcol':
        return np.array(per_rdm).reshape(-1, 1), per_rdm, desc
    if wkind == 'rdmfull':
        return np.tile(np.array(per_rdm).reshape(-1, 1), (1, L)), per_rdm, desc
    if wkind == 'entry':
        return per_entry, per_entry.tolist(), desc
    raise ValueError(wkind)


def _judge_mean(ctx, case, tag, got, D, wref):
    """per-entry classification so that different defects get different signatures"""
    want, _ = R.weighted_nan_mean(D.tolist(), wref)
    got = np.asarray(got, float)
    if got.shape != (1, D.shape[1]):
        ctx.fail(tag + '|shape', case, 'shape %r' % (got.shape,))
        return
    got = got[0]
    n_rdm = D.shape[0]
    for e in range(D.shape[1]):
        have = int(np.sum(~np.isnan(D[:, e])))
        g, w = float(got[e]), want[e]
        if have == 0:
            if not np.isnan(g):
                ctx.fail(tag + '|number-where-no-RDM-has-the-entry', dict(case, entry=e),
                         'entry %d is missing in every RDM but the mean is %r; input %s' % (e, g, D.tolist()))
            continue
        cls = 'entry-in-all-RDMs' if have == n_rdm else 'entry-in-some-RDMs'
        if np.isnan(g):
            ctx.fail(tag + '|nan-where-an-RDM-has-the-entry,' + cls, dict(case, entry=e),
                     'entry %d: mean is NaN, reference %r; input %s' % (e, w, D.tolist()))
        elif not close(g, w, TOL_PLAIN):
            ctx.fail(tag + '|value-mismatch,' + cls, dict(case, entry=e),
                     'entry %d: mean %.12g, weighted mean over the RDMs that have it %.12g; input %s weights %s'
                     % (e, g, w, D.tolist(), wref))
        ctx.dev('mean', reldev(g, w))
    ctx.outcome([round(v, 8) if v == v else 'nan' for v in want[:3]])


def _case_mean(case, ctx):
    from rsatoolbox.rdm import RDMs
    n = case['n_cond']
    L = combi.n_pairs(n)
    masks = case['masks']
    D = _vals(ctx, case['vals'], (n, 91, len(masks)), len(masks), L)
    for r, m in enumerate(masks):
        if len(m):
            D[r, list(m)] = np.nan
    warg, wref, desc = _weights(ctx, case['weights'], len(masks), L, (n, len(masks)))
    tag = 'RDMs.mean|weights=%s' % WCLASS[case['weights']]
    with ctx.guard(tag, case):
        ctx.case(case, nontrivial=bool(np.isnan(D).any()))
        obj = RDMs(D.copy(), rdm_descriptors=desc)
        with _watch(ctx, case, tag, weights=warg, rdms=obj, descriptor=obj.rdm_descriptors.get('w')):
            got = obj.mean(warg).dissimilarities
        _judge_mean(ctx, case, tag, got, D, wref)


def _case_meanseq(case, ctx):
    """two averages that share ONE caller-owned weights array: stack A (masks_a), then stack B
    (masks_b).  Both results are judged against the reference with the weights as the caller made
    them; the array must come back bit-identical from each call."""
    from rsatoolbox.rdm import RDMs
    n = case['n_cond']
    L = combi.n_pairs(n)
    n_rdm = len(case['masks_a'])
    wk = case['weights']
    base = {'entry-int': 'entry', 'entry-f32': 'entry', 'name-shared-list': 'name'}.get(wk, wk)
    warg, wref, desc = _weights(ctx, base, n_rdm, L, (n, n_rdm, 13))
    if wk == 'entry-int':
        warg = np.round(warg * 4).astype(int)     # weights as counts
        wref = warg.astype(float).tolist()
    elif wk == 'entry-f32':
        warg = warg.astype(np.float32)
        wref = warg.astype(float).tolist()
    shared_list = desc['w']
    pristine = _bits(warg)
    cls = WCLASS[base]
    for step, masks in (('first', case['masks_a']), ('second', case['masks_b'])):
        D = _vals(ctx, 'pos0', (n, 95, n_rdm, step == 'second'), n_rdm, L)
        for r, m in enumerate(masks):
            if len(m):
                D[r, list(m)] = np.nan
        tag = 'RDMs.mean|weights=%s' % cls + ('' if step == 'first' else ',array-used-before')
        sub = dict(case, step=step)
        with ctx.guard(tag, sub):
            ctx.case(sub, nontrivial=bool(np.isnan(D).any()))
            # the SAME list object is handed to both stacks for the descriptor form
            obj = RDMs(D.copy(), rdm_descriptors={'w': shared_list} if wk == 'name-shared-list' else desc)
            with _watch(ctx, sub, 'RDMs.mean|weights=%s' % cls, weights=warg, rdms=obj,
                        descriptor=shared_list if wk == 'name-shared-list' else None):
                got = obj.mean(warg).dissimilarities
            _judge_mean(ctx, sub, tag, got, D, wref)
    if pristine is not None and _bits(warg) != pristine:
        ctx.count('meanseq:weights-array-changed')


def _case_cmpseq(case, ctx):
    """two comparisons with different common masks that share one sigma_k array (and run back to
    back in one process: anything the library remembers from the first must not leak)"""
    from rsatoolbox.rdm import compare
    n, method, skind = case['n_cond'], case['method'], case['sigma']
    L = combi.n_pairs(n)
    sigma = _sigma(skind, n, ctx.seed)
    sigma_ref = None if sigma is None else sigma.copy()
    kw = {'sigma_k': sigma} if method in WHITE else {}
    tol = _cmp_tol(method, skind)
    for step, mask in (('first', case['m1']), ('second', case['m2'])):
        keep = _keep(L, mask)
        X = _fill(ctx.seed, (n, 111, step == 'second'), 2, L, 'gen')
        Y = _fill(ctx.seed, (n, 112, step == 'second'), 2, L, 'gen')
        tag = 'method=%s,sigma_k=%s,masks=common' % (method, skind) + ('' if step == 'first' else ',second-call')
        sub = dict(case, step=step)
        with ctx.guard('compare|' + tag, sub):
            a1, a2 = _wrap(_with_mask(X, mask), case['rep']), _wrap(_with_mask(Y, mask), case['rep'])
            with _watch(ctx, sub, 'compare|method=%s,sigma_k=%s,masks=common' % (method, skind),
                        rdm1=a1, rdm2=a2, sigma_k=sigma):
                got = compare(a1, a2, method=method, **kw)
            nt = _judge_compare(ctx, sub, method, tag, got, X[:, keep], Y[:, keep], sigma_ref, (n, keep), tol)
            ctx.case(sub, nontrivial=bool(nt))


def _case_poolseq(case, ctx):
    from rsatoolbox.rdm import RDMs
    n, method, which, skind = case['n_cond'], case['method'], case['which'], case['sigma']
    L = combi.n_pairs(n)
    sigma = _sigma(skind, n, ctx.seed)
    sigma_ref = None if sigma is None else sigma.copy()
    if which == 'inference':
        from rsatoolbox.util.inference_util import pool_rdm
    else:
        from rsatoolbox.util.pooling import pool_rdm
    base = 'pool_rdm(%s)|method=%s,sigma_k=%s' % (which, method, skind)
    for step, mask in (('first', case['m1']), ('second', case['m2'])):
        keep = _keep(L, mask)
        X = _fill(ctx.seed, (n, 121, step == 'second'), 2, L, 'pos')
        want = R.pool_inference(method, X[:, keep]) if which == 'inference' else \
            R.pool_fitter(method, X[:, keep], sigma_ref, (n, keep))
        tag = base + ('' if step == 'first' else ',second-call')
        sub = dict(case, step=step)
        with ctx.guard(tag, sub):
            obj = RDMs(_with_mask(X, mask))
            with _watch(ctx, sub, base, rdms=obj, sigma_k=sigma):
                got = pool_rdm(obj, method=method) if which == 'inference' else \
                    pool_rdm(obj, method=method, sigma_k=sigma)
            ctx.case(sub)
            full = np.full(L, np.nan)
            full[keep] = want
            got = np.asarray(got.dissimilarities, float)
            tol = TOL_FIT_CG if (which == 'fitter' and method in WHITE) else TOL_PLAIN
            if got.shape != (1, L) or not np.array_equal(np.isnan(got[0]), np.isnan(full)):
                ctx.fail(tag + '|missing-pattern-changed', sub, 'pooled %s, common mask %s' % (got.tolist(), mask))
            elif maxreldev(got[0], full) > tol:
                ctx.fail(tag + '|value-mismatch', sub, 'pooled %s, reference on entry-deleted vectors %s (mask %s)'
                         % (got[0].tolist(), full.tolist(), mask))


def _case_fitseq(case, ctx):
    from rsatoolbox.rdm import RDMs
    from rsatoolbox.model import ModelWeighted
    from rsatoolbox.model.fitter import fit_regress
    n, method, skind = case['n_cond'], case['method'], case['sigma']
    L = combi.n_pairs(n)
    sigma = _sigma(skind, n, ctx.seed)
    sigma_ref = None if sigma is None else sigma.copy()
    base = 'fit_regress|method=%s,sigma_k=%s' % (method, skind)
    for step, mask in (('first', case['m1']), ('second', case['m2'])):
        keep = _keep(L, mask)
        Xm = _fill(ctx.seed, (n, 131, step == 'second'), 2, L, 'pos')
        Xd = _fill(ctx.seed, (n, 132, step == 'second'), 2, L, 'pos')
        want = R.regress(method, Xm[:, keep], Xd[:, keep], sigma_ref, (n, keep), 0.0)
        sub = dict(case, step=step)
        if want is None:
            ctx.exclude('regression undefined / singular on the deleted vectors')
            ctx.case(sub, nontrivial=False)
            continue
        tag = base + ('' if step == 'first' else ',second-call')
        with ctx.guard(tag, sub):
            mo, do = RDMs(_with_mask(Xm, mask)), RDMs(_with_mask(Xd, mask))
            model = ModelWeighted('m', mo)
            with _watch(ctx, sub, base, model_rdms=mo, model_vectors=model.rdm, data=do, sigma_k=sigma):
                got = fit_regress(model, do, method=method, sigma_k=sigma)
            ctx.case(sub)
            _judge_theta(ctx, sub, tag, got, want, TOL_FIT_CG if method in WHITE else 1e-7)


_SEL_CACHE = {}


def _sel_stack(ctx, masks, source):
    """-> (RDMs stack, descriptor name, reference dissimilarities, reference weights (rows or per-RDM))"""
    from rsatoolbox.rdm import RDMs
    from rsatoolbox.rdm.combine import rescale
    L = 6
    D = _fill(ctx.seed, (4, 141), 3, L, 'pos')
    for r, m in enumerate(masks):
        if len(m):
            D[r, list(m)] = np.nan
    g = rng_for(ctx.seed, 'c13selw')
    W = np.round(g.uniform(0.5, 3.0, size=(3, L)), 3)
    w1 = np.round(g.uniform(0.5, 3.0, size=3), 3)
    base = {'grp': list(SEL_GROUPS)}
    if source == 'ctor':
        return RDMs(D.copy(), rdm_descriptors=dict(base, w=W.copy())), 'w', D, W
    if source == 'set':
        r = RDMs(D.copy(), rdm_descriptors=base)
        r.rdm_descriptors['w'] = W.copy()
        return r, 'w', D, W
    if source == 'rows':
        return RDMs(D.copy(), rdm_descriptors=dict(base, w=[row.copy() for row in W])), 'w', D, W
    if source == '1d':
        return RDMs(D.copy(), rdm_descriptors=dict(base, w=w1.copy())), 'w', D, w1
    if source.startswith('rescale-'):
        key = (ctx.seed, repr(masks), source)
        if key not in _SEL_CACHE:
            r = rescale(RDMs(D.copy(), rdm_descriptors=base), method=source.split('-')[1])
            _SEL_CACHE[key] = (r.dissimilarities.copy(),
                               np.array(r.rdm_descriptors['rescalingWeights'], dtype=float))
        d0, w0 = _SEL_CACHE[key]
        # the stack as rescale() leaves it: 'rescalingWeights' held as 2-D ndarray
        r = RDMs(d0.copy(), rdm_descriptors=dict(base, rescalingWeights=w0.copy()))
        return r, 'rescalingWeights', d0, w0
    raise ValueError(source)


def _sel_apply(stack, op, by, arg):
    """-> list of (result stack, row numbers the reference model expects)"""
    idx = list(range(stack.n_rdm))
    desc = idx if by == 'index' else list(SEL_GROUPS)
    if op == 'none':
        return [(stack, idx)]
    if op in ('subset', 'subsample'):
        return [(getattr(stack, op)(by, arg), R.select_rows(op, desc, arg))]
    if op == 'getitem':
        return [(stack[arg], R.select_rows('getitem', idx, arg))]
    if op == 'getitem-ndarray':
        return [(stack[np.array(arg)], R.select_rows('getitem', idx, arg))]
    if op == 'iterate':
        return [(one, [j]) for j, one in enumerate(stack)]
    if '+' in op:
        first, second = op.split('+')
        (mid, rows1), = _sel_apply(stack, first, by, arg[0])
        # the second step addresses the RDMs of the intermediate stack: by position for [] and, for the
        # descriptor forms, by the 'index' value the intermediate stack reports for them
        if second == 'getitem':
            rows2 = R.select_rows('getitem', None, arg[1])
            return [(mid[arg[1]], [rows1[j] for j in rows2])]
        mid_desc = [int(v) for v in mid.rdm_descriptors['index']]
        rows2 = R.select_rows(second, mid_desc, arg[1])
        return [(getattr(mid, second)(by, arg[1]), [rows1[j] for j in rows2])]
    raise ValueError(op)


def _case_meansel(case, ctx):
    """stack with gaps + per-entry weights in a 2-D rdm descriptor -> select RDMs -> mean(weights=name):
    (a) the selected dissimilarity rows, (b) the descriptor carries ONE ROW PER SELECTED RDM equal to the
    source row, (c) the mean equals the per-entry weighted NaN-aware mean of the selected rows with the
    selected weight rows"""
    masks, source, op = case['masks'], case['source'], case['op']
    # signature classes: where the 2-D descriptor came from and the exact selection stay in the case
    cls = 'per-rdm-1d-descriptor' if source == '1d' else '2-D-descriptor'
    opc = 'two-selections' if '+' in op else op.replace('-ndarray', '')
    tag = 'RDMs.mean|weights=descriptor-name,%s,after-%s' % (cls, opc)
    with ctx.guard(tag, case):
        stack, name, D0, W0 = _sel_stack(ctx, masks, source)
        ctx.case(case, nontrivial=bool(np.isnan(D0).any()))
        wobj = stack.rdm_descriptors[name]
        with _watch(ctx, case, 'select(%s)|%s' % (opc, cls), rdms=stack,
                    descriptor=wobj if isinstance(wobj, np.ndarray) else None):
            results = _sel_apply(stack, op, case.get('by'), case.get('arg'))
            for sub, rows in results:
                Dsel = D0[rows]
                if sub.dissimilarities.shape != Dsel.shape or maxreldev(sub.dissimilarities, Dsel) > 0:
                    ctx.fail('select(%s)|%s|dissimilarity-rows-differ' % (opc, cls), case,
                             'rows %s expected, got %s' % (rows, sub.dissimilarities.tolist()))
                    continue
                try:
                    wsel = np.asarray(sub.rdm_descriptors[name], dtype=float)
                except (KeyError, TypeError, ValueError):
                    wsel = None
                Wexp = W0[rows]
                if wsel is None or wsel.shape != Wexp.shape or maxreldev(wsel, Wexp) > 0:
                    ctx.fail('select(%s)|%s|descriptor-rows-not-carried-along' % (opc, cls), case,
                             'descriptor %r after selecting rows %s: %s, expected %s'
                             % (name, rows, _short_any(sub.rdm_descriptors.get(name)), Wexp.tolist()))
                got = sub.mean(name).dissimilarities
                _judge_mean(ctx, dict(case, rows=rows), tag, got, Dsel, Wexp.tolist())
        ctx.outcome((opc, len(results)))


def _partial_objects(ctx, case, proportional):
    """partial RDMs objects for a covering; -> (objects, list of (values, subset order), all_conds)"""
    from rsatoolbox.rdm import RDMs
    parts = case['parts']
    g = rng_for(ctx.seed, 'c13part', len(parts), sum(map(sum, parts)))
    full = np.round(g.uniform(0.3, 3.0, size=6), 4)
    vk = case.get('vals', 'generic')
    if vk.endswith('-crossnobis'):
        # two of the six entries become small negative numbers (which ones depends on the covering)
        neg = g.choice(6, size=2, replace=False)
        full[neg] = -np.round(g.uniform(0.3, 0.8, size=2), 4)
    elif vk.endswith('-signed'):
        sign = np.where(g.uniform(size=6) < 0.5, -1.0, 1.0)
        sign[int(g.integers(6))] = -1.0
        full = full * sign
        look_sign = {}
        for k, (a, b) in enumerate(combi.pair_index(4)):
            look_sign[frozenset((a, b))] = sign[k]
    elif vk.endswith('-negative'):
        full = -full
    look = {}
    for k, (a, b) in enumerate(combi.pair_index(4)):
        look[frozenset((a, b))] = full[k]
    scales = [1.0, 2.5, 0.4]
    objs, spec = [], []
    for r, sub in enumerate(parts):
        order = list(sub)
        if case['order'] == 'desc2' and r >= 1:
            order = order[::-1]
        if proportional:
            vals = [scales[r] * look[frozenset((order[a], order[b]))] for a, b in combi.pair_index(len(order))]
        else:
            vals = np.round(g.uniform(0.3, 3.0, size=combi.n_pairs(len(order))), 4)
            if vk.endswith('-signed'):
                # independent sizes, but every RDM agrees on the sign of a pair (RDMs that contradict each
                # other in sign have no common scale to converge to and the iteration need not terminate)
                vals = vals * np.array([look_sign[frozenset((order[a], order[b]))]
                                        for a, b in combi.pair_index(len(order))])
            vals = list(vals)
        objs.append(RDMs(np.array([vals], dtype=float),
                         pattern_descriptors={'conds': ['c%d' % c for c in order]},
                         rdm_descriptors={'w': [1.0 + r]}))
        spec.append((vals, order))
    if case['all_patterns'] == 'given':
        all_conds = [0, 1, 2, 3]
    else:
        all_conds = []
        for _, order in spec:
            for c in order:
                if c not in all_conds:
                    all_conds.append(c)
    return objs, spec, all_conds


def _case_partials(case, ctx):
    from rsatoolbox.rdm import compare
    from rsatoolbox.rdm.combine import from_partials, rescale
    op = case['op']
    objs, spec, all_conds = _partial_objects(ctx, case, case['vals'].startswith('proportional'))
    want = np.array([R.embed_partial(v, o, all_conds) for v, o in spec])
    kw = {'all_patterns': ['c%d' % c for c in all_conds]} if case['all_patterns'] == 'given' else {}
    try:
        fp = from_partials(objs, **kw)
        ok = maxreldev(fp.dissimilarities, want) == 0 and \
            list(fp.pattern_descriptors['conds']) == ['c%d' % c for c in all_conds]
    except Exception as e:
        ok = False
        fp = None
        if op == 'embed':
            ctx.case(case)
            ctx.fail('from_partials|covering|raises:%s' % type(e).__name__, case, repr(e))
    if op == 'embed':
        if fp is not None:
            ctx.case(case)
            if not ok:
                ctx.fail('from_partials|covering|values-or-missing-pattern-misplaced', case,
                         'got %s (%s), expected %s over %s' % (fp.dissimilarities.tolist(),
                                                             fp.pattern_descriptors.get('conds'),
                                                             want.tolist(), all_conds))
        return
    if not ok:
        ctx.exclude('from_partials output differs from the reference embedding (reported by op=embed)')
        return
    D = np.array(fp.dissimilarities, dtype=float)
    n_rdm, L = D.shape
    if op == 'mean':
        warg, wref, _ = _weights(ctx, case['weights'], n_rdm, L, (4, n_rdm, 7))
        if case['weights'] == 'name':
            wref = [float(v) for v in fp.rdm_descriptors['w']]
        tag = 'RDMs.mean|weights=%s' % WCLASS[case['weights']]
        with ctx.guard(tag, case):
            ctx.case(case)
            with _watch(ctx, case, tag, weights=warg, rdms=fp, descriptor=fp.rdm_descriptors.get('w')):
                got = fp.mean(warg).dissimilarities
            _judge_mean(ctx, case, tag, got, D, wref)
    elif op == 'compare':
        rowmasks = [tuple(np.flatnonzero(np.isnan(r))) for r in D]
        ctx.case(case, nontrivial=len(set(rowmasks)) > 1)
        if len(set(rowmasks)) == 1:
            return   # all parts cover the same pairs: common mask, judged by partials_common
        method, skind = case['method'], case['sigma']
        kwc = {'sigma_k': _sigma(skind, 4, ctx.seed)} if method in WHITE else {}
        cls = 'equal-count' if len({len(m) for m in rowmasks}) == 1 else 'different-count'
        _must_raise(ctx, case, 'compare|masks=within-stack,%s' % cls,
                    lambda: compare(fp, fp, method=method, **kwc),
                    'compare(method=%s) of the from_partials stack of %s with itself' % (method, case['parts']),
                    rdm1=fp, sigma_k=kwc.get('sigma_k'))
    elif op == 'rescale':
        tag = 'rescale|method=%s' % case['rescale']
        if bool((D < 0).any()):
            ctx.count('rescale:stack-with-negative-entries')
        with ctx.guard(tag, case):
            ctx.case(case)
            try:
                with _alarm(20), _watch(ctx, case, tag, rdms=fp):
                    out = rescale(fp, method=case['rescale'], threshold=RESCALE_THRESHOLD)
            except _Timeout:
                ctx.exclude('rescale(threshold=%g) did not terminate within 20 s' % RESCALE_THRESHOLD)
                return
            O = np.asarray(out.dissimilarities, float)
            if O.shape != D.shape:
                ctx.fail(tag + '|shape', case, 'shape %r' % (O.shape,))
                return
            masks_kept = True
            for r in range(n_rdm):
                j = R.scale_factor(O[r], D[r])
                if not j['mask_same']:
                    masks_kept = False
                    ctx.fail(tag + '|missing-pattern-changed', dict(case, rdm=r),
                             'in %s out %s' % (D[r].tolist(), O[r].tolist()))
                    continue
                if j['c'] is None:
                    continue
                ctx.dev('rescale/proportional', j['dev'])
                if j['dev'] > 1e-9:
                    ctx.fail(tag + '|not-one-constant-per-RDM', dict(case, rdm=r),
                             'in %s out %s (best constant %r leaves %g)' % (D[r].tolist(), O[r].tolist(),
                                                                             j['c'], j['dev']))
                elif not j['c'] > 0:
                    ctx.fail(tag + '|constant-not-positive', dict(case, rdm=r), 'constant %r' % j['c'])
            present = [set(np.flatnonzero(~np.isnan(r)).tolist()) for r in D]
            # rescalingWeights: one weight per entry the RDM has, none where it has no entry
            W = out.rdm_descriptors.get('rescalingWeights')
            try:
                W = np.asarray(W, dtype=float)
            except (TypeError, ValueError):
                W = None
            if W is None or W.shape != D.shape:
                ctx.fail(tag + '|rescalingWeights-missing-or-misshaped', case, 'rescalingWeights %r' % (W,))
            elif not np.array_equal(np.isfinite(W), ~np.isnan(D)):
                ctx.fail(tag + '|rescalingWeights-not-finite-exactly-where-the-RDM-has-an-entry', case,
                         'weights %s for RDMs %s' % (W.tolist(), D.tolist()))
            if case['vals'].startswith('proportional') and masks_kept:
                # a common scale is observable on the entries two RDMs share (whole covering if it is
                # connected by shared pairs, else inside each connected group)
                ctx.count('rescale:overlap-connected' if R.overlap_connected(present)
                          else 'rescale:connected-groups-only')
                d = R.common_scale_dev(O.tolist())
                ctx.dev('rescale/common-scale', d)
                if d > TOL_RESCALE:
                    ctx.fail(tag + '|proportional-partials-not-on-common-scale', case,
                             'shared entries differ by %g relative: in %s out %s' % (d, D.tolist(), O.tolist()))
            ctx.outcome([round(float(v), 6) for v in O[0][~np.isnan(O[0])][:2]])
    else:
        raise ValueError(op)


def _case_partials_common(case, ctx):
    """two stacks embedded by from_partials over the same subset: common mask"""
    from rsatoolbox.rdm import RDMs, compare
    from rsatoolbox.rdm.combine import from_partials
    sub, method, skind = case['subset'], case['method'], case['sigma']
    k = combi.n_pairs(len(sub))
    A = _fill(ctx.seed, (len(sub), 101, sum(sub)), 2, k, 'gen')
    B = _fill(ctx.seed, (len(sub), 102, sum(sub)), 3, k, 'gen')
    names = ['c%d' % c for c in sub]
    allp = ['c0', 'c1', 'c2', 'c3']
    tag = 'method=%s,sigma_k=%s,masks=common(from_partials)' % (method, skind)
    with ctx.guard('compare|' + tag, case):
        fa = from_partials([RDMs(A[:1], pattern_descriptors={'conds': names}),
                            RDMs(A[1:], pattern_descriptors={'conds': names})], all_patterns=allp)
        fb = from_partials([RDMs(B, pattern_descriptors={'conds': names})], all_patterns=allp)
        wa = np.array([R.embed_partial(v, sub, [0, 1, 2, 3]) for v in A])
        wb = np.array([R.embed_partial(v, sub, [0, 1, 2, 3]) for v in B])
        if maxreldev(fa.dissimilarities, wa) > 0 or maxreldev(fb.dissimilarities, wb) > 0:
            ctx.exclude('from_partials output differs from the reference embedding (reported by op=embed)')
            return
        keep = R.present(wa[0])
        sigma = _sigma(skind, 4, ctx.seed)
        kw = {'sigma_k': sigma} if method in WHITE else {}
        with _watch(ctx, case, 'compare|' + tag, rdm1=fa, rdm2=fb, sigma_k=sigma):
            got = compare(fa, fb, method=method, **kw)
        nt = _judge_compare(ctx, case, method, tag, got, wa[:, keep], wb[:, keep], sigma, (4, keep),
                            _cmp_tol(method, skind))
        ctx.case(case, nontrivial=bool(nt))
