"""C10 - RDM container operations never change which value belongs to which pair (DESIGN 4/C10)

Explicit-state BFS over operation histories of real RDMs objects with self-describing values
(mc/selfdesc.py): every operation of the alphabet with every argument from a state-derived menu
is applied to every reachable state up to the depth bound; the invariant (every entry equals
the code of its own labels, every descriptor is its function of the id, exactly the ids the
list-of-ids model predicts are present) is evaluated on every produced object.
"""
import copy
import math

import numpy as np

from mc import bfs, selfdesc
from mc.runner import HarnessError
from mc.util import fingerprint

PROPERTY = 'C10'
LEVEL = 'model_checking'
RULE = ('States = RDMs objects reachable from the initial objects (n_rdm in {1,3} x n_cond in {2,4} x '
        'list/ndarray descriptors x with/without a missing entry) by sequences of the C10 operation '
        'alphabet with state-derived argument menus; de-duplicated by (rid order, cid order, NaN mask, '
        'container and element type of every descriptor). One evaluation = one transition executed on '
        'the real object and judged by the invariant + list-of-ids model. Non-trivial = every '
        'transition (each runs a library operation); distinct = distinct operation history.'
        " Also: every to_df descriptor column against the object's own descriptors in every state; receiver dtype x appended dtype x value kind for append / concat / subsample_pattern / reorder / get_matrices.")
ASSUMPTIONS = ['state abstraction: the key holds everything an operation reads except numeric values, which '
               'are a function of the key by the invariant asserted before insertion',
               'inadmissible calls (empty selections, out-of-range indices, concat in different condition '
               'order without a unique aligning descriptor) are not generated']
BOUNDS = {'quick': {'depth': 3}, 'thorough': {'depth': 4, 'transition_cap_per_shard': 60000}}

NANP = ((0, 0, 1),)          # the missing entry of the 'nan' initial states: RDM 0, conditions (0,1)
RD_ALL = ('rid', 'grp', 'rname', 'rbig')
PD_ALL = ('cid', 'name', 'cat', 'pgrp', 'big')


# ----------------------------------------------------------------------------- model / invariant
def new_model(nan, rd_some=None, pd=PD_ALL):
    return {'nan': frozenset(nan), 'rd_some': dict(rd_some or {}), 'pd': tuple(pd)}


def invariant(obj, model):
    errs = selfdesc.verify(obj, nan_pairs=model['nan'], check_desc=False)
    if errs and errs[0][0] in ('descriptor-lost', 'shape'):
        return errs
    rids, cids = selfdesc.read_ids(obj)
    for name in RD_ALL + ('rflt',):
        f = selfdesc.RDM_DESC[name]
        have = model['rd_some'].get(name)
        if name == 'rflt' and have is None:
            continue
        if name not in obj.rdm_descriptors or obj.rdm_descriptors[name] is None:
            errs.append(('descriptor-lost', 'rdm descriptor %r missing' % name))
            continue
        vals = list(obj.rdm_descriptors[name])
        if len(vals) != len(rids):
            errs.append(('descriptor-mismatch', 'rdm descriptor %r has %d values for %d RDMs' % (name, len(vals), len(rids))))
            continue
        for v, r in zip(vals, rids):
            if have is None or r in have:
                if not selfdesc._eq(v, f(r)):
                    errs.append(('descriptor-mismatch', 'rdm descriptor %r = %r for rids %r' % (name, vals, rids)))
                    break
            else:
                if not (v is None or (isinstance(v, float) and math.isnan(v))):
                    errs.append(('descriptor-mismatch', 'rdm descriptor %r = %r: RDM %d never had one' % (name, vals, r)))
                    break
    for name in model['pd']:
        f = selfdesc.PAT_DESC[name]
        if name not in obj.pattern_descriptors:
            errs.append(('descriptor-lost', 'pattern descriptor %r missing' % name))
            continue
        vals = list(obj.pattern_descriptors[name])
        if len(vals) != len(cids) or not all(selfdesc._eq(v, f(c)) for v, c in zip(vals, cids)):
            errs.append(('descriptor-mismatch', 'pattern descriptor %r = %r for cids %r' % (name, vals, cids)))
    return errs


def canon(obj, model):
    return (selfdesc.canon(obj), tuple(sorted((k, tuple(sorted(v))) for k, v in model['rd_some'].items())),
            model['pd'], tuple(sorted(model['nan'])))


def _expect(new, want_rids=None, want_cids=None, multiset_c=False):
    errs = []
    try:
        rids, cids = selfdesc.read_ids(new)
    except Exception as e:
        return [('descriptor-lost', 'rid/cid unreadable: %r' % (e,))]
    if want_rids is not None and list(rids) != list(want_rids):
        errs.append(('wrong-rdms', 'holds RDMs %r, requested %r' % (rids, list(want_rids))))
    if want_cids is not None:
        if multiset_c:
            if sorted(cids) != sorted(want_cids):
                errs.append(('wrong-conditions', 'holds conditions %r, requested (multiset) %r' % (cids, list(want_cids))))
        elif list(cids) != list(want_cids):
            errs.append(('wrong-conditions', 'holds conditions %r, requested %r' % (cids, list(want_cids))))
    return errs


def _uniq(seq):
    out = []
    for v in seq:
        if not any(selfdesc._eq(v, w) for w in out):
            out.append(v)
    return out


def _plain(v):
    if isinstance(v, (np.integer,)):
        return int(v)
    if isinstance(v, (np.floating,)):
        return float(v)
    if isinstance(v, np.str_):
        return str(v)
    return v


def _other(obj, model, shift, order=None, drop=None, extra=None, container=None):
    """a second operand over the same conditions (optionally in another order), fresh RDM ids"""
    rids, cids = selfdesc.read_ids(obj)
    oc = list(cids) if order is None else [cids[i] for i in order]
    rd = [k for k in RD_ALL if k != drop] + ([extra] if extra else [])
    cont = container or ('ndarray' if isinstance(obj.pattern_descriptors['cid'], np.ndarray) else 'list')
    o = selfdesc.build([shift, shift + 1], oc, rdm_desc=tuple(rd), pat_desc=tuple(model['pd']) if 'cid' in model['pd'] else PD_ALL,
                       container=cont, measure=obj.dissimilarity_measure)
    return o


# ----------------------------------------------------------------------------- transitions
def _warm(o):
    """read-only calls on the object itself before an in-place operation: whatever such a call may
    leave behind on the object (a remembered grouping, a cached square form) must not survive the
    in-place change - the operations that follow in the history are judged on the changed object"""
    try:
        for by in list(o.rdm_descriptors):
            v = o.rdm_descriptors[by]
            if len(v) and v[0] is not None:
                o.subsample(by, [v[0]])
                o.subset(by, v[0])
        for by in list(o.pattern_descriptors)[:3]:
            v = o.pattern_descriptors[by]
            if len(v):
                o.subsample_pattern(by, [v[0], v[-1]])
                o.subset_pattern(by, [v[0], v[-1]])
        o.get_matrices()
        o.get_vectors()
        if o.n_rdm:
            o[0]
    except Exception:
        pass


def _witnesses(o):
    """objects a caller may hold that were built from what the accessors hand out (the dictionary form, the
    vector array): an in-place operation on `o` re-orders o, not them - their values stay with their labels"""
    from rsatoolbox.rdm.rdms import RDMs, rdms_from_dict
    out = []
    try:
        out.append(('rdms_from_dict(to_dict())', rdms_from_dict(o.to_dict())))
        out.append(('RDMs(get_vectors())', RDMs(o.get_vectors(), dissimilarity_measure=o.dissimilarity_measure,
                                               descriptors=copy.deepcopy(o.descriptors),
                                               rdm_descriptors=copy.deepcopy(o.rdm_descriptors),
                                               pattern_descriptors=copy.deepcopy(o.pattern_descriptors))))
    except Exception:
        pass
    return out


def _witness_errors(wit, nan):
    errs = []
    for name, w in wit:
        for kind, msg in selfdesc.verify(w, nan_pairs=nan, check_desc=False):
            errs.append(('object-built-from-accessor-changed', '%s: %s %s' % (name, kind, msg)))
            break
    return errs


def enabled(obj, model):
    from rsatoolbox.rdm import rdms as R
    from rsatoolbox.rdm import combine as CMB
    rids, cids = selfdesc.read_ids(obj)
    nr, nc = len(rids), len(cids)
    T = []
    # the missing-entry model is keyed by RDM id: entries of RDMs the object no longer holds are
    # dropped (a fresh RDM with a re-used id, e.g. appended after the old one was selected away, is
    # complete) - harness bookkeeping, found by the thorough tier at depth 4
    if any(r not in rids for r, _, _ in model['nan']):
        model = dict(model, nan=frozenset(e for e in model['nan'] if e[0] in rids))

    def add(label, fn, sig=None):
        T.append(bfs.Transition(list(label), fn, sig or label[0]))

    def same(m=model):
        return m

    # --- indexing and iteration ----------------------------------------------------------
    for i in sorted({0, nr - 1}):
        add(('getitem', i), lambda o, i=i: [(n := o[i], same(), _expect(n, [rids[i]], cids))[0:3]])
        add(('iter', i), lambda o, i=i: [(n := list(o)[i], same(), _expect(n, [rids[i]], cids))[0:3]])
    if nr >= 2:
        for idx in ([0, nr - 1], list(range(nr))[::-1]):
            add(('getitem', idx), lambda o, idx=idx: [(n := o[idx], same(), _expect(n, [rids[i] for i in idx], cids))[0:3]])
        add(('len-iter',), lambda o: [(None, same(), [] if (len(o) == nr and len(list(o)) == nr) else
                                       [('wrong-rdms', 'len()=%r, iteration yields %d of %d' % (len(o), len(list(o)), nr))])])
    # --- subset / subsample of RDMs --------------------------------------------------------
    for by in [None, 'index'] + [k for k in RD_ALL if k not in model['rd_some']]:
        desc = [_plain(v) for v in obj.rdm_descriptors[by or 'index']]   # by=None means 'index'
        u = _uniq(desc)
        menu = [u[0]] + ([u[-1]] if len(u) > 1 else []) + ([[u[0], u[-1]]] if len(u) > 1 else [[u[0]]])
        for val in menu:
            vs = val if isinstance(val, list) else [val]
            want = [r for r, d in zip(rids, desc) if any(selfdesc._eq(d, v) for v in vs)]
            add(('subset', by, val), lambda o, by=by, val=val, want=want:
                [(n := o.subset(by, val), same(), _expect(n, want, cids))[0:3]])
        rep = [u[-1], u[0], u[-1]] if len(u) > 1 else [u[0], u[0]]
        want = [r for v in rep for r, d in zip(rids, desc) if selfdesc._eq(d, v)]
        add(('subsample', by, rep), lambda o, by=by, rep=rep, want=want:
            [(n := o.subsample(by, rep), same(), _expect(n, want, cids))[0:3]])
        # a single value instead of a list
        want1 = [r for r, d in zip(rids, desc) if selfdesc._eq(d, u[-1])]
        add(('subsample', by, u[-1]), lambda o, by=by, v=u[-1], want1=want1:
            [(n := o.subsample(by, v), same(), _expect(n, want1, cids))[0:3]])
    # --- subset / subsample of conditions -----------------------------------------------------
    if nc >= 2:
        for by in [None, 'index'] + list(model['pd']):
            desc = [_plain(v) for v in obj.pattern_descriptors[by or 'index']]   # by=None means 'index'
            u = _uniq(desc)
            menu = []
            for val in ([[u[0], u[-1]]] if len(u) > 1 else []) + [u[0]]:
                vs = val if isinstance(val, list) else [val]
                want = [c for c, d in zip(cids, desc) if any(selfdesc._eq(d, v) for v in vs)]
                if len(want) >= 2:
                    menu.append((val, want))
            for val, want in menu:
                add(('subset_pattern', by, val), lambda o, by=by, val=val, want=want:
                    [(n := o.subset_pattern(by, val), same(), _expect(n, rids, want))[0:3]])
            reps = [[u[-1], u[0], u[-1]] if len(u) > 1 else [u[0], u[0]]]
            if nc <= 4:
                # a condition drawn three times: every pair of its copies (also non-adjacent ones) is NaN
                reps.append([u[0], u[0], u[0]] + ([u[-1]] if len(u) > 1 else []))
            for rep in reps:
                want = [c for v in rep for c, d in zip(cids, desc) if selfdesc._eq(d, v)]
                add(('subsample_pattern', by, rep), lambda o, by=by, rep=rep, want=want:
                    [(n := o.subsample_pattern(by, rep), same(), _expect(n, rids, want, multiset_c=True))[0:3]])
    # --- reorder / sort_by (in place) -----------------------------------------------------------
    if nc >= 2:
        perms = {'reverse': list(range(nc))[::-1], 'swap01': [1, 0] + list(range(2, nc)),
                 'rotate': list(range(1, nc)) + [0]}
        for pname, p in perms.items():
            for form in ('list', 'ndarray'):
                if form == 'ndarray' and pname != 'reverse':
                    continue
                arg = np.array(p) if form == 'ndarray' else list(p)

                def f(o, arg=arg, p=p):
                    _warm(o)
                    wit = _witnesses(o)
                    r = o.reorder(arg)
                    return [(o, same(), _expect(o, rids, [cids[i] for i in p]) + _witness_errors(wit, model['nan']) +
                             ([] if r is None else [('returns-value', 'in-place operation returned %r' % type(r))]))]
                add(('reorder', pname, form), f)
        for by in model['pd']:
            desc = [_plain(v) for v in obj.pattern_descriptors[by]]
            order = sorted(range(nc), key=lambda i: desc[i])   # python sort is stable
            def f_sort(o, by=by, order=order):
                _warm(o)
                wit = _witnesses(o)
                o.sort_by(**{by: 'alpha'})
                return [(o, same(), _expect(o, rids, [cids[i] for i in order]) + _witness_errors(wit, model['nan']))]
            add(('sort_by', by, 'alpha'), f_sort)
            if len(set(map(str, desc))) == nc:
                target = list(reversed(desc))
                for form in ('list', 'ndarray'):
                    arg = np.array(target) if form == 'ndarray' else list(target)
                    add(('sort_by', by, 'explicit-' + form), lambda o, by=by, arg=arg:
                        [(_warm(o), o.sort_by(**{by: arg}), o, same(), _expect(o, rids, list(reversed(cids))))[2:5]])
    # --- append (in place) and concat ---------------------------------------------------------------
    if max(rids) < 5 and nr <= 3 and set(obj.rdm_descriptors) <= set(RD_ALL) | {'index'}:
        def f_append(o):
            other = _other(o, model, 5)
            fp = fingerprint([other.dissimilarities, other.rdm_descriptors, other.pattern_descriptors])
            _warm(o)
            wit = _witnesses(o)
            o.append(other)
            extra = _expect(o, rids + [5, 6], cids) + _witness_errors(wit, model['nan'])
            if fingerprint([other.dissimilarities, other.rdm_descriptors, other.pattern_descriptors]) != fp:
                extra.append(('argument-modified', 'append changed the appended object'))
            return [(o, same(), extra)]
        if not model['rd_some']:
            add(('append',), f_append)

        def mk_concat(form, order=None, drop=None, extra_d=None):
            def f(o):
                other = _other(o, model, 5, order=order, drop=drop, extra=extra_d)
                twin = copy.deepcopy(o)
                if form == 'varargs':
                    n = R.concat(o, other)
                else:
                    n = R.concat([o, other])
                m = model
                if drop or extra_d:
                    rs = dict(model['rd_some'])
                    if drop:
                        rs[drop] = frozenset(rs.get(drop, frozenset(rids)) & frozenset(rids)) if drop in rs else frozenset(rids)
                    if extra_d:
                        rs[extra_d] = frozenset([5, 6])
                    m = dict(model, rd_some=rs)
                ex = _expect(n, rids + [5, 6], cids)
                if fingerprint([o.dissimilarities, o.rdm_descriptors, o.pattern_descriptors]) != \
                        fingerprint([twin.dissimilarities, twin.rdm_descriptors, twin.pattern_descriptors]):
                    ex.append(('argument-modified', 'concat changed its first argument'))
                return [(n, m, ex)]
            return f
        if not model['rd_some']:
            add(('concat', 'varargs'), mk_concat('varargs'))
            add(('concat', 'list'), mk_concat('list'))
            add(('concat', 'missing-rdm-descriptor'), mk_concat('varargs', drop='rname'), 'concat,missing-rdm-descriptor')
            add(('concat', 'extra-rdm-descriptor'), mk_concat('varargs', extra_d='rflt'), 'concat,extra-rdm-descriptor')
            uniq_align = [k for k in model['pd'] if len(set(map(str, obj.pattern_descriptors[k]))) == nc]
            if nc >= 2 and uniq_align:
                add(('concat', 'other-order'), mk_concat('varargs', order=list(range(nc))[::-1]), 'concat,other-order')
    add(('concat', 'single'), lambda o: [(n := R.concat(o), same(), _expect(n, rids, cids))[0:3]], 'concat,single')
    add(('concat', 'single-list'), lambda o: [(n := R.concat([o]), same(), _expect(n, rids, cids))[0:3]], 'concat,single')
    # --- copy / conversions -----------------------------------------------------------------------
    add(('copy',), lambda o: [(n := o.copy(), same(), _expect(n, rids, cids))[0:3]])
    add(('deepcopy',), lambda o: [(n := copy.deepcopy(o), same(), _expect(n, rids, cids))[0:3]])

    def rebuild(kind):
        def f(o):
            arr = o.get_matrices() if kind == 'matrices' else o.get_vectors()
            n = R.RDMs(np.array(arr), dissimilarity_measure=o.dissimilarity_measure,
                       descriptors=copy.deepcopy(o.descriptors),
                       rdm_descriptors=copy.deepcopy(o.rdm_descriptors),
                       pattern_descriptors=copy.deepcopy(o.pattern_descriptors))
            return [(n, same(), _expect(n, rids, cids))]
        return f
    add(('rebuild', 'matrices'), rebuild('matrices'))
    add(('rebuild', 'vectors'), rebuild('vectors'))
    add(('dict-roundtrip',), lambda o: [(n := R.rdms_from_dict(copy.deepcopy(o.to_dict())), same(), _expect(n, rids, cids))[0:3]])
    if all(np.ndim(v) == 0 for vals in obj.rdm_descriptors.values() for v in vals):
        # admissible only with scalar descriptor values (a demoted array-valued object descriptor
        # such as permute_rdms' p_inv is outside the descriptor types the property names)
        add(('to_df',), lambda o: [(None, same(), _check_df(o, model))])
    # --- permutation -----------------------------------------------------------------------------
    if nc >= 2:
        for pname, p in (('reverse', list(range(nc))[::-1]), ('rotate', list(range(1, nc)) + [0])):
            def f(o, p=p):
                n = R.permute_rdms(o, np.array(p))
                return [(n, same(), _expect(n, rids, [cids[i] for i in p]))]
            add(('permute_rdms', pname), f)

            def g(o, p=p):
                n = R.inverse_permute_rdms(R.permute_rdms(o, np.array(p)))
                return [(n, same(), _expect(n, rids, cids))]
            add(('permute-inverse', pname), g, 'inverse_permute_rdms')
    # --- in-place operations change only the object they are called on ----------------------------------
    # derive a second object, apply an in-place operation to one of the two, the other must still
    # satisfy the invariant and keep its labelled content (aliasing would be hidden by the deep copies
    # the search works on, so it is probed here explicitly; no new state is produced)
    if nc >= 2 and not model['rd_some']:
        derivs = {
            'getitem': lambda o: o[0],
            'subset': lambda o: o.subset('rid', rids[0]),
            'subsample': lambda o: o.subsample('rid', [rids[-1], rids[0]]),
            'subset_pattern': lambda o: o.subset_pattern('cid', sorted(set(cids))),
            'subsample_pattern': lambda o: o.subsample_pattern('cid', sorted(set(cids))),
            'copy': lambda o: o.copy(),
            'concat': lambda o: R.concat(o),
        }
        inplace = {
            'reorder': lambda x: x.reorder(list(range(x.n_cond))[::-1]),
            'sort_by': lambda x: x.sort_by(name='alpha'),
            # (append requires the appended object to carry the same rdm descriptors)
            'append': lambda x: x.append(_other(x, model, 5)) if (
                max(selfdesc.read_ids(x)[0]) < 5 and set(x.rdm_descriptors) <= set(RD_ALL) | {'index'}) else None,
        }

        def mk_twin(dname, iname, on):
            def f(o):
                child = derivs[dname](o)
                target, other = (child, o) if on == 'derived' else (o, child)
                fp = fingerprint([other.dissimilarities, selfdesc._strip(other.rdm_descriptors),
                                  selfdesc._strip(other.pattern_descriptors)])
                inplace[iname](target)
                ex = [('other-object-' + k, msg) for k, msg in invariant(other, model)]
                if not ex and fingerprint([other.dissimilarities, selfdesc._strip(other.rdm_descriptors),
                                           selfdesc._strip(other.pattern_descriptors)]) != fp:
                    ex.append(('other-object-changed', '%s on the %s object changed the %s object'
                               % (iname, on, 'source' if on == 'derived' else 'derived')))
                return [(None, model, ex)]
            return f
        for dname in derivs:
            for iname in inplace:
                for on in ('derived', 'source'):
                    add(('twin', dname, iname, on), mk_twin(dname, iname, on), 'in-place:' + iname)
    # --- from_partials ---------------------------------------------------------------------------------
    if nc >= 3 and len(set(cids)) == nc and nr >= 2 and len(set(rids)) == nr and not model['rd_some']:
        def mk_fp(all_patterns, reorder_second=False, all_reversed=False):
            def f(o):
                # two partial objects: first RDM over all but the last condition, the others over all
                # but the first; aligned on the unique descriptor 'name'
                names = list(o.pattern_descriptors['name'])
                a = o.subset('rid', rids[0]).subset_pattern('name', names[:-1])
                b = o.subset('rid', rids[1:]).subset_pattern('name', names[1:])
                if reorder_second:
                    # the second partial lists its conditions in another relative order
                    b = b.copy()
                    b.reorder(list(range(b.n_cond))[::-1])
                kw = {}
                want_c = cids[:-1] + [cids[-1]]
                if all_patterns:
                    allp = list(names)[::-1] if all_reversed else list(names)
                    kw = {'all_patterns': allp}
                    want_c = list(cids)[::-1] if all_reversed else list(cids)
                n = CMB.from_partials([a, b], descriptor='name', **kw)
                nan = set(model['nan'])
                for c in cids[:-1]:
                    nan.add((rids[0], min(c, cids[-1]), max(c, cids[-1])))
                for r in rids[1:]:
                    for c in cids[1:]:
                        nan.add((r, min(c, cids[0]), max(c, cids[0])))
                m = dict(model, nan=frozenset(nan))
                # conditions are identified through the aligning descriptor; the statement requires
                # every retained condition to keep all its descriptor values
                ex = []
                got_names = list(n.pattern_descriptors.get('name', []))
                if got_names != [selfdesc.PAT_DESC['name'](c) for c in want_c]:
                    ex.append(('wrong-conditions', 'aligning descriptor %r, expected conditions %r' % (got_names, want_c)))
                if 'cid' not in n.pattern_descriptors:
                    ex.append(('pattern-descriptors-dropped', 'only %r kept of %r' % (
                        sorted(n.pattern_descriptors), sorted(o.pattern_descriptors))))
                    return [(None, m, ex)]
                return [(n, m, ex + _expect(n, rids, want_c))]
            return f
        add(('from_partials', 'union'), mk_fp(False))
        add(('from_partials', 'all_patterns'), mk_fp(True))
        add(('from_partials', 'union,second-partial-reordered'), mk_fp(False, reorder_second=True))
        add(('from_partials', 'all_patterns-reversed,second-partial-reordered'), mk_fp(True, True, True))
    return T


def _missing(v):
    return v is None or (isinstance(v, (float, np.floating)) and math.isnan(v))


def _same_label(a, b):
    return (_missing(a) and _missing(b)) or selfdesc._eq(a, b)


def _check_df(o, model):
    """every DataFrame row: the dissimilarity is the code of the labels in that row"""
    errs = []
    df = o.to_df()
    rids, cids = selfdesc.read_ids(o)
    n = len(cids)
    if len(df) != len(rids) * n * (n - 1) // 2:
        return [('df-rows', '%d rows for %d RDMs x %d pairs' % (len(df), len(rids), n * (n - 1) // 2))]
    for row in df.itertuples(index=False):
        r, a, b = int(row.rid), int(row.cid_1), int(row.cid_2)
        v = row.dissimilarity
        if a == b or (r, min(a, b), max(a, b)) in model['nan']:
            ok = math.isnan(v)
        else:
            ok = v == selfdesc.code(r, a, b)
        if not ok:
            errs.append(('df-label-value-association', 'row rid=%d cid=(%d,%d) value %r' % (r, a, b, v)))
            break
        for name in model['pd']:
            f = selfdesc.PAT_DESC[name]
            if not (selfdesc._eq(getattr(row, name + '_1'), f(a)) and selfdesc._eq(getattr(row, name + '_2'), f(b))):
                errs.append(('df-descriptor-mismatch', 'row rid=%d cid=(%d,%d) %s=(%r,%r)' % (
                    r, a, b, name, getattr(row, name + '_1'), getattr(row, name + '_2'))))
                break
    # every descriptor of the object - the 'index' descriptors included (columns rdm_index, pattern_index_1/2) -
    # is exported with the values the object itself holds for the RDM / the two conditions of that row
    ix = np.triu_indices(n, 1)
    npairs = n * (n - 1) // 2
    for dname, vals in o.rdm_descriptors.items():
        col = 'rdm_index' if dname == 'index' else dname
        if col not in df.columns:
            errs.append(('df-descriptor-column-missing', 'no column %r' % col))
            continue
        want = [v for v in list(vals) for _ in range(npairs)]
        got = list(df[col])
        bad = [k for k in range(len(want)) if not _same_label(got[k], want[k])]
        if bad:
            errs.append(('df-rdm-descriptor-column', 'column %r row %d holds %r, the object\'s %r of that RDM is %r' % (
                col, bad[0], got[bad[0]], dname, want[bad[0]])))
    for dname, vals in o.pattern_descriptors.items():
        vals = list(vals)
        for p in (0, 1):
            col = ('pattern_index' if dname == 'index' else dname) + '_%d' % (p + 1)
            if col not in df.columns:
                errs.append(('df-descriptor-column-missing', 'no column %r' % col))
                continue
            want = [vals[i] for i in ix[p]] * len(rids)
            got = list(df[col])
            bad = [k for k in range(len(want)) if not _same_label(got[k], want[k])]
            if bad:
                errs.append(('df-pattern-descriptor-column', 'column %r row %d holds %r, the object\'s %r of that '
                             'condition is %r' % (col, bad[0], got[bad[0]], dname, want[bad[0]])))
    return errs


# ----------------------------------------------------------------------------- initial states
def _initials():
    out = []
    for n_rdm in (1, 3):
        for n_cond in (2, 4):
            for cont in ('list', 'ndarray'):
                for nan in (False, True):
                    name = 'init:r%d,c%d,%s,%s' % (n_rdm, n_cond, cont, 'nan' if nan else 'full')
                    out.append((name, n_rdm, n_cond, cont, nan))
    return out


def _make_initial(name):
    for nm, n_rdm, n_cond, cont, nan in _initials():
        if nm == name:
            nanp = NANP if nan else ()
            obj = selfdesc.build(list(range(n_rdm)), list(range(n_cond)), rdm_desc=RD_ALL, pat_desc=PD_ALL,
                                 container=cont, nan_pairs=nanp)
            return (nm, obj, new_model(nanp))
    raise HarnessError('unknown initial state %r' % name)


def _split(nm, depth):
    """shards for one initial state: one depth-1 search judging every first transition, plus one
    sub-search per DISTINCT depth-1 successor (representative first transition)"""
    import copy as _c
    init = _make_initial(nm)
    out = [{'kind': 'bfs', 'init': nm, 'depth': 1, 'first': None}]
    seen = {canon(init[1], init[2])}
    for i, tr in enumerate(enabled(init[1], init[2])):
        try:
            res = tr.apply(_c.deepcopy(init[1]))
        except Exception:
            continue
        for o, m, extra in res:
            if o is None or extra or invariant(o, m):
                continue
            k = canon(o, m)
            if k not in seen:
                seen.add(k)
                out.append({'kind': 'bfs', 'init': nm, 'depth': depth, 'first': i})
    return out


DTYPES = ['float64', 'float32', 'int64', 'int16', 'bool']


def _dtype_stack(dtype, kind, rids, n_cond=3):
    """a stack stored with the given dtype; kind: 'whole' (whole numbers), 'fraction' (values .. + 0.5 / 0.1),
    'nan' (one missing pair) - only what the dtype can hold"""
    from rsatoolbox.rdm import RDMs
    n_pairs = n_cond * (n_cond - 1) // 2
    v = np.array([[10.0 * r + k + 1 for k in range(n_pairs)] for r in rids])
    if dtype == 'bool':
        v = (v.astype(int) % 2).astype(float)
    if kind == 'fraction':
        v = v + np.array([0.5, 0.1, 0.25][:n_pairs])
    if kind == 'nan':
        v[0, 1] = np.nan
    return RDMs(v.astype(dtype), rdm_descriptors={'rid': list(rids)},
                pattern_descriptors={'cid': list(range(n_cond))}), v


def _dtypes(ctx, only=None):
    """stacks stored as integers / single precision / booleans: every operation that joins or re-arranges
    values keeps each pair's value EXACTLY (as a number) - joining never casts a value to the receiver's type"""
    import rsatoolbox.rdm as R
    for recv in DTYPES:
        for other in DTYPES:
            for kind in ('whole', 'fraction', 'nan'):
                if kind != 'whole' and other not in ('float64', 'float32'):
                    continue
                for op in ('append', 'concat', 'concat-reversed', 'subsample_pattern', 'reorder', 'get_matrices'):
                    case = {'kind': 'dtype', 'recv': recv, 'other': other, 'values': kind, 'op': op}
                    if only is not None and only != case:
                        continue
                    ctx.case(case)
                    sig = '%s|stored-dtype' % op.split('-')[0]
                    with ctx.guard(sig, case):
                        a, va = _dtype_stack(recv, 'whole', [0, 1])
                        b, vb = _dtype_stack(other, kind, [5])
                        va = a.dissimilarities.astype(float)          # what the receiver holds, as numbers
                        vb = b.dissimilarities.astype(float)
                        if op == 'append':
                            a.append(b)
                            got, want = a.dissimilarities, np.concatenate([va, vb])
                        elif op == 'concat':
                            got, want = R.concat([a, b]).dissimilarities, np.concatenate([va, vb])
                        elif op == 'concat-reversed':
                            got, want = R.concat([b, a]).dissimilarities, np.concatenate([vb, va])
                        elif op == 'subsample_pattern':
                            if kind != 'whole' or other != recv:
                                continue
                            got = a.subsample_pattern('cid', [0, 2, 2]).get_matrices()
                            m = a.get_matrices().astype(float)
                            idx = [0, 2, 2]
                            want = m[:, idx][:, :, idx]
                            for q in range(3):
                                want[:, q, q] = 0
                            want[:, 1, 2] = want[:, 2, 1] = np.nan
                        elif op == 'reorder':
                            if kind != 'whole' or other != recv:
                                continue
                            m = a.get_matrices().astype(float)
                            a.reorder([2, 0, 1])
                            got, want = a.get_matrices(), m[:, [2, 0, 1]][:, :, [2, 0, 1]]
                        else:
                            if kind != 'whole' or other != recv:
                                continue
                            got = a.get_matrices()
                            want = np.zeros((2, 3, 3))
                            iu = np.triu_indices(3, 1)
                            for q in range(2):
                                want[q][iu] = va[q]
                                want[q] = want[q] + want[q].T
                        got = np.asarray(got, dtype=float)
                        if got.shape != want.shape or not np.array_equal(got, want, equal_nan=True):
                            ctx.fail(sig + '|value-changed', case, 'values %r, the sources hold %r' % (
                                got.tolist(), want.tolist()))
                        ctx.outcome((recv, other, kind, op))


def shards(tier, seed):
    out = [{'kind': 'ncond'}, {'kind': 'dtype'}]
    for nm, n_rdm, n_cond, cont, nan in _initials():
        if tier == 'quick':
            if (n_rdm, n_cond) == (1, 2):
                out.append({'kind': 'bfs', 'init': nm, 'depth': 3, 'first': None})
            else:
                out += _split(nm, 3)
        else:
            out += _split(nm, 4)
    return out


def run_shard(shard, ctx):
    if shard['kind'] == 'ncond':
        return _ncond(ctx)
    if shard['kind'] == 'dtype':
        return _dtypes(ctx)
    init = _make_initial(shard['init'])
    cap = BOUNDS[ctx.tier].get('transition_cap_per_shard')
    if shard['first'] is None:
        bfs.search([init], enabled, canon, invariant, shard['depth'], ctx, cap=cap)
        return
    # thorough: take transition number `first` from the initial state, then search from there
    name, obj, model = init
    tr = enabled(obj, model)[shard['first']]
    sub = []

    def one_step(o, m):
        return [tr]
    # depth-1 step through the normal machinery (judged like any other transition)
    bfs.search([init], lambda o, m: [t for t in enabled(o, m) if t.label == tr.label] if o is obj else [],
               canon, invariant, 1, ctx, on_state=lambda o, m, h: sub.append((o, m, h)))
    for o, m, h in sub[1:]:
        bfs.search([(list(h), o, m)], enabled, canon, invariant, shard['depth'] - 1, ctx, cap=cap)


def _ncond(ctx):
    """the number of conditions is recovered from the vector length for every size 1..5000"""
    from rsatoolbox.rdm import RDMs
    from rsatoolbox.util.rdm_utils import batch_to_vectors
    for n in range(1, 5001):
        L = n * (n - 1) // 2
        case = {'kind': 'ncond', 'n': n}
        ctx.case(case, nontrivial=n > 1)
        ctx.transitions += 1
        with ctx.guard('RDMs|n_cond-from-vector-length', case):
            if n <= 60:
                got = RDMs(np.zeros((2, L))).n_cond
                sq = RDMs(np.zeros((1, n, n)))
                if sq.n_cond != n or sq.dissimilarities.shape != (1, L):
                    ctx.fail('RDMs|n_cond-from-matrix', case, 'n_cond=%r shape=%r' % (sq.n_cond, sq.dissimilarities.shape))
            else:
                got = batch_to_vectors(np.broadcast_to(np.zeros(1), (1, L)))[2]
            if got != n:
                ctx.fail('RDMs|n_cond-from-vector-length', case, 'vector length %d -> n_cond %r, expected %d' % (L, got, n))
    ctx.states += 1


def run_case(case, ctx):
    if case.get('kind') == 'ncond':
        return _ncond(ctx)
    if case.get('kind') == 'dtype':
        return _dtypes(ctx, only={k: case[k] for k in ('kind', 'recv', 'other', 'values', 'op')})
    hist = case['history']
    name = hist[0]
    init = _make_initial(name)
    bfs.replay(init, hist[1:], enabled, invariant, ctx, match=lambda a, b: _norm(a) == _norm(b))


def _norm(label):
    import json
    from mc.runner import jsonable
    return json.dumps(jsonable(label))
