"""C07 - upper noise ceiling is unbeatable; lower is leave-one-group-out and not above it
(DESIGN 4/C07).

Bounded exhaustive exploration of boot_noise_ceiling / cv_noise_ceiling / pool_rdm:

* data stacks: every stack of 2 (thorough: 3) vectors over {0,1,2}^3, a subset of the stacks
  over {0,1,2}^6 under every common NaN mask of <= 2 entries, and fixed generic fills
  (positive, signed, tied) for 2-4 RDMs x 3-4 conditions;
* every grouping of the RDMs by an rdm descriptor (all set partitions x label namings);
* candidates: all vectors over {0,1,2,3}^L' (L' = non-missing entries), the data RDMs, the
  reference pooled RDM, the library's pooled RDM and its +-eps e_i perturbations, scored by ONE
  vectorised compare() call;
* rescaling / shifting of every individual data RDM;
* cross-validated ceiling on every set structure the fold generators produce for <= 4 RDM
  groups (random=True: every shuffle outcome / deviation bounded), through cv_noise_ceiling and
  through the real crossval() (both of its noise-ceiling branches: ceil_set given / None);
  sets_k_fold with 4..12 rdm groups (every remainder n_groups mod k_rdm), each fold on its own;
* every ordered pair of methods in two consecutive calls on ONE RDMs object; every call must leave
  its arguments bit-identical;
* the ceilings stored by eval_bootstrap / _rdm / _pattern, bootstrap_crossval and eval_dual_bootstrap
  (eval_fixed and crossval are covered above) per OBSERVED resample (recording wrappers around
  bootstrap_sample* / sets_k_fold in inference.evaluate, draws enumerated through the RNG environment)
  with rdm descriptor groups that hold several RDMs;
* stacks of 34-40 RDMs in 20-24 descriptor groups with string / float / spread-int labels (sizes
  at which numpy changes its set-membership algorithm);
* pattern folds over descriptors that do not ascend along the conditions, and objects re-ordered in
  place before the call;
* the other measures the routines accept (spearman, kendall, tau-b, tau-a; euclid / neg_riem_dist in
  pool_rdm): structural clauses only, pool_rdm of both modules against the reference pool.

Judged against mc/ref/c07_ref.py (plain-loop pooling and leave-one-group-out).
"""
import contextlib
import functools
import itertools

import numpy as np

from mc import combi
from mc.choice import Env, Stats, explore
from mc.ref import c07_ref as R
from mc.rngenv import RngEnv, installed
from mc.util import close, reldev, rng_for, fingerprint

PROPERTY = 'C07'
LEVEL = 'exploration'
RULE = ('One evaluation = one execution of library code judged by the reference: (boot) one '
        'boot_noise_ceiling call on (data stack, common NaN mask, grouping labels, method); '
        '(candidates) one vectorised compare() of all candidates against that stack; (inv) one pair of '
        'boot_noise_ceiling calls before/after transforming one RDM; (leak) one perturbation of a left-out '
        'group followed by sets_leave_one_out_rdm + pool_rdm and a recorded boot_noise_ceiling; (cv) one '
        'fold-generator call + cv_noise_ceiling, or + the real crossval() (always for pattern-only sets with '
        'ceil_set None, whose per-fold ceilings are each compared with the reference at that fold\'s TEST '
        'conditions; additionally for the sets of every other generator), under one fully specified sequence '
        'of random draws; the reference prediction of a fold always pools the REMAINING rdm groups (complement of '
        'the fold\'s test groups), not whatever the training set holds; (ev) one call of an evaluation routine (N = 2 resamples) under one '
        'fully specified draw history, every stored bound judged against the reference ceiling of the observed '
        'resample; (seq) one pair of consecutive '
        'noise-ceiling calls with two methods on one RDMs object. Around every such call the caller-owned '
        'arguments are fingerprinted and must be bit-identical afterwards. Stacks: all ordered stacks of 2 '
        '(thorough: 3; quick: strided triples) vectors over {0,1,2}^3; a strided subset of ordered pairs over '
        '{0,1,2}^6 x every common NaN mask of <=2 entries; fixed fills for 2-4 RDMs x 3-4 conditions x '
        'every set partition of the RDMs x label namings x NaN masks; methods cosine, corr, rho-a '
        '(optimality, leave-one-group-out) and cosine_cov, corr_cov (ordering only). Non-trivial = the '
        'measure is defined for every data RDM and every pooled prediction involved (otherwise the input '
        'is excluded and counted, not judged); distinct = distinct case descriptor '
        '(data or fill key, mask, labels, method, sub-check parameters, draw sequence).')
ASSUMPTIONS = [
    'mc/ref/c07_ref.py (normalise-then-average pooling, closed-form optimum) is correct; its '
    'optimum is cross-checked against the exhaustive candidate grid in every optimality case',
    'candidate scores are computed by the library compare() (its agreement with the '
    'definitions is property C03)',
    'real values outside the enumerated alphabets are represented by fixed generic fills only',
    'the best-fitting RDM of several remaining groups weights every remaining RDM equally',
    'optimality of the upper bound is demanded for singleton groups only (statement); for '
    'whitened measures only lower <= upper is demanded; the cross-validated upper bound is '
    'only used for the ordering under leave-one-RDM-out with singleton groups',
    'for spearman, kendall, tau-b, tau-a (and euclid / neg_riem_dist in pool_rdm) only the structural clauses are '
    'demanded: the pooled RDM is the mean of the tie-averaged ranks (plain mean), the lower bound is its '
    'leave-one-group-out score, the upper bound its score on all data; no optimality, no ordering',
    'the leak check observes predictions through the public sets_leave_one_out_rdm + pool_rdm '
    'and through a recording wrapper around the name pool_rdm in inference.noise_ceiling',
]
TOL = 1e-9
TOL_CG = 1e-6
TOLERANCES = {'bound vs reference': TOL, 'candidate above upper': TOL,
              'lower<=upper plain': TOL, 'lower<=upper whitened (cg)': TOL_CG,
              'invariance': TOL, 'leak': 'bit-identical'}
BOUNDS = {
    'quick': {
        'n_rdm': [2, 3, 4], 'n_cond': [3, 4], 'n_cond (pattern cross-validation)': [6, 7],
        'tier A': ['all 729 ordered pairs over {0,1,2}^3', '324 ordered triples over {0,1,2}^3 (strided) x all 5 '
                   'groupings x 3 namings', '40 ordered pairs over {0,1,2}^6 (strided) x all 22 common NaN masks of <= 2'],
        'tier B': '3 fills (positive, tied integers, signed) per (n_rdm, n_cond) x every set partition of the RDMs '
                  '(2/5/15) x namings (asc, desc, strings, all k! for k<=3) x all 22 NaN masks (n_cond 4)',
        'candidates': 'all of {0,1,2,3}^(non-missing entries) (64..4096) + data RDMs + reference pooled + library pooled +- {1e-3, 0.3}*e_i',
        'transforms': 'each single RDM x {0.5, 3} (cosine), x {0.5, 3} and +1 combined (corr)',
        'leak': 'every single entry and all entries of every left-out group changed',
        'cv': '7 generators; every partition of <=4 RDMs x every k / group size; k_fold_rdm every shuffle outcome; '
              'k_fold, sets_random, k_fold_pattern, of_k_pattern: all draws with <= 1 non-default answer (2 fills); '
              'pattern-only sets (ceil_set None) through the real crossval(): k in {1,2,3}, group sizes 3-5, n_cond '
              '6,7,10 (unequal folds) and 12 (six condition groups of two), every fold judged separately; the sets '
              'of every other generator also through crossval(ceil_set=...)',
        'k_fold with many groups': 'sets_k_fold with 4,5 rdm groups (k_rdm 2), 5..9 (k_rdm 3), 9..12 (k_rdm 4) = every '
                                   'remainder, singleton groups and two doubled groups, k_pattern 1 and 2; every fold '
                                   'judged on its own against the pooled RDM of the REMAINING groups; no test group in '
                                   'the training / ceiling set; shuffled order with <= 1 non-default answer',
        'other accepted measures': 'spearman, kendall, tau-b, tau-a (reference pool = mean of tie-averaged ranks; structure '
                                   'only: lower = leave-one-group-out, upper = score of the pooled RDM, NaN masks, leak, '
                                   'arguments unchanged): all 729 pairs over {0,1,2}^3, 2 fills x n_rdm 2-4 x n_cond 3-4 x '
                                   'every partition x 3 masks, cv generators loo_rdm / k_fold_rdm / k_fold / k_fold_pattern / '
                                   'loo_pattern; pool_rdm of util.inference_util and util.pooling for every measure they '
                                   'accept (euclid / neg_riem_dist: plain mean; unknown measure refused)',
        'evaluation routines': 'eval_bootstrap, eval_bootstrap_rdm, eval_bootstrap_pattern (boot_noise_ceil on / off), '
                               'bootstrap_crossval (boot_type both / rdm / pattern, k_rdm 1 / 2), eval_dual_bootstrap (k_rdm 1 / 2); '
                               'N = 2 resamples, 5-6 RDMs in 3 descriptor groups of up to 2 RDMs (and the default descriptor), 5 '
                               'conditions; every draw history with <= 1 non-default answer for one method per setting, the '
                               'all-default history for cosine, corr, rho-a, spearman; every stored per-resample bound against '
                               'the reference leave-one-group-out (or cross-validated) ceiling of the OBSERVED resample',
        'large stacks': '34-40 RDMs in 20 / 22 / 24 descriptor groups of 1-2 RDMs (members never adjacent) with string, '
                        'non-integral float and widely spread integer labels, n_cond 4-5: boot_noise_ceiling (all 7 '
                        'reference measures, a NaN mask), sets_leave_one_out_rdm structure + leak, cv_noise_ceiling on '
                        'sets_leave_one_out_rdm / sets_k_fold_rdm (k 2, 3, 7; per fold) and through crossval',
        'pattern descriptor orders': 'folds over a pattern descriptor that does not ascend along the conditions: unique '
                                     'non-alphabetical strings, interleaved category labels (6-12 conditions), and objects '
                                     're-ordered in place before the call (reorder, sort_by(reindex=False)); sets_k_fold, '
                                     'sets_random, sets_k_fold_pattern, sets_of_k_pattern, sets_leave_one_out_pattern; '
                                     'random=False and every shuffle with <= 1 non-default answer; every fold on its own',
        'call sequences': 'every ordered pair of the 5 methods on ONE RDMs object through boot_noise_ceiling, '
                          'cv_noise_ceiling, eval_fixed, crossval (n_rdm 2-4, n_cond 3-4, 2 fills); every '
                          'noise-ceiling / pool_rdm / crossval call of the whole check leaves its arguments bit-identical'},
    'thorough': {
        'n_rdm': [2, 3, 4], 'n_cond': [3, 4], 'n_cond (pattern cross-validation)': [6, 7],
        'tier A': ['all 729 ordered pairs and all 19683 ordered triples over {0,1,2}^3 x all 5 groupings',
                   '729 ordered pairs over {0,1,2}^6 (strided) x all 22 common NaN masks of <= 2'],
        'tier B': '6 fills per (n_rdm, n_cond), otherwise as quick',
        'candidates': 'as quick', 'transforms': 'as quick', 'leak': 'as quick',
        'cv': 'as quick with <= 2 non-default answers, 6 fills, n_cond 6 and 7 for every pattern generator; '
              'pattern-only sets through crossval(): k in {1,2,3,4}, n_cond 6,7,9,10,11,12,13',
        'k_fold with many groups': 'as quick, shuffled order for every (k_rdm, n_groups), 6 fills',
        'other accepted measures': 'as quick with 3 fills',
        'evaluation routines': 'as quick with <= 2 non-default answers (eval_dual_bootstrap: 1)',
        'large stacks': 'as quick with 2 fills and every measure on every generator',
        'pattern descriptor orders': 'as quick, shuffles for every variant',
        'call sequences': 'as quick with 4 fills'},
}

PLAIN = ['cosine', 'corr', 'rho-a']
WHITE = ['cosine_cov', 'corr_cov']
ORDER = ['cosine', 'corr', 'cosine_cov', 'corr_cov']
ALL = PLAIN + WHITE
# rank-pooled measures the ceiling routines also accept: structure only (leave-one-group-out, the pooled RDM
# scores the upper bound, NaN handling, arguments unchanged), no optimality / ordering demanded
RANKS = ['spearman', 'kendall', 'tau-b', 'tau-a']
REFD = PLAIN + RANKS        # measures with a reference pooled RDM and reference bounds
TRANSFORMS = {'cosine': [(0.5, 0.0), (3.0, 0.0)],
              'corr': [(0.5, 0.0), (3.0, 0.0), (1.0, 1.0), (3.0, 1.0), (0.5, 1.0)]}
UNDEF = 'measure undefined for a data RDM (zero norm / constant / < 3 entries)'


# ------------------------------------------------------------------------------ data
@functools.lru_cache(maxsize=None)
def _alpha(name):
    alpha, length = {'012^3': ((0, 1, 2), 3), '012^6': ((0, 1, 2), 6),
                     '0123^3': ((0, 1, 2, 3), 3), '0123^4': ((0, 1, 2, 3), 4),
                     '0123^5': ((0, 1, 2, 3), 5), '0123^6': ((0, 1, 2, 3), 6)}[name]
    return np.array(list(itertools.product(alpha, repeat=length)), dtype=float)


def _fill(seed, n_rdm, length, key, style):
    """fixed generic fills: 0 positive generic, 1 signed generic (crossnobis-like),
    2 small integers with ties"""
    g = rng_for(seed, 'c07fill', n_rdm, length, key, style)
    if style == 0:
        x = g.uniform(0.2, 3.0, size=(n_rdm, length))
    elif style == 1:
        x = g.normal(size=(n_rdm, length))
        x[:, 0] += 0.4
    else:
        x = np.floor(g.uniform(0, 4, size=(n_rdm, length)))
        x[:, 0] += 0.5      # never all-zero
        x[:, -1] += 1.0     # never constant
    return np.round(x, 4)


def _data(case, seed):
    """the complete (NaN-free) data stack of a case as ndarray n_rdm x L"""
    if 'data' in case:
        return np.array(case['data'], dtype=float)
    f = case['fill']
    return _fill(seed, f['n_rdm'], f['L'], f['key'], f['style'])


def _masked(x, mask):
    x = np.array(x, dtype=float)
    if len(mask):
        x[:, list(mask)] = np.nan
    return x


def _rdms(x, labels=None, n_cond=None, cgrp=None):
    from rsatoolbox.rdm import RDMs
    x = np.asarray(x, dtype=float)
    rd = {'rid': list(range(x.shape[0]))}
    if labels is not None:
        rd['grp'] = list(labels)
    pd = None
    if n_cond is not None:
        pd = {'cid': list(range(n_cond)), 'cname': CNAMES[:n_cond]}
        if cgrp is not None:
            pd['cgrp'] = list(cgrp)
    return RDMs(x.copy(), rdm_descriptors=rd, pattern_descriptors=pd)


# unique condition names that do NOT ascend along the conditions (presentation order, not alphabetical)
CNAMES = ['q3', 'a7', 'm1', 'z0', 'b5', 'k2', 'y9', 'c4', 'x8', 'd6', 'w2', 'e1', 'v5']


def _scrambled(n):
    """a fixed permutation of range(n) far from the identity: odd positions, then even ones backwards"""
    order = list(range(n))
    return order[1::2] + order[0::2][::-1]


def _state(obj):
    """everything a caller owns in an argument, as plain nested containers"""
    if obj is None or isinstance(obj, (int, float, str)):
        return obj
    if isinstance(obj, np.ndarray):
        return np.array(obj)
    if isinstance(obj, (list, tuple)):
        return [_state(o) for o in obj]
    if isinstance(obj, dict):
        return {str(k): (np.asarray(v).tolist() if not isinstance(v, dict) else _state(v)) for k, v in obj.items()}
    if hasattr(obj, 'dissimilarities'):         # RDMs
        return [np.array(obj.dissimilarities), _state(obj.rdm_descriptors), _state(obj.pattern_descriptors),
                _state(obj.descriptors)]
    if hasattr(obj, 'rdm_obj'):                 # fixed model
        return [_state(obj.rdm_obj), np.array(obj.rdm)]
    return repr(type(obj))


class _Unchanged:
    """with _Unchanged(ctx, sigp, case, rdms=rdms, ceil_set=...): <library call>  -- every caller-owned
    argument must be bit-identical afterwards (signature <sigp>|modifies-argument:<name>)"""

    def __init__(self, ctx, sigp, case, **args):
        self.ctx, self.sigp, self.case, self.args = ctx, sigp, case, args

    def __enter__(self):
        self.before = {k: fingerprint(_state(v)) for k, v in self.args.items()}
        return self

    def __exit__(self, et, ev, tb):
        if et is None:
            for k, v in self.args.items():
                if fingerprint(_state(v)) != self.before[k]:
                    self.ctx.fail('%s|modifies-argument:%s' % (self.sigp, k), self.case,
                                  'the caller-owned argument %r is not bit-identical after the call' % k)
        return False


def _group_class(labels, n_rdm):
    if labels is None or len(set(labels)) == n_rdm:
        return 'singleton'
    return 'grouped'


def _cfg(method, labels, n_rdm, mask):
    return 'method=%s,groups=%s,nan=%d' % (method, _group_class(labels, n_rdm), 1 if len(mask) else 0)


def _labelings(n_rdm, full):
    """(rgs, tag, labels): every set partition of the RDMs with several namings of the groups"""
    out = []
    for rgs in combi.set_partitions(n_rdm):
        k = max(rgs) + 1
        names = combi.namings(k, full_upto=3 if full else 0)
        if not full:
            names = names[:3]
        for tag, mapping in names:
            if k == 1 and tag != 'asc':
                continue    # one group: leave-one-out undefined, generated once and counted
            out.append((rgs, tag, [mapping[g] for g in rgs]))
    return out


# ------------------------------------------------------------------------------ shards
def shards(tier, seed):
    thorough = tier == 'thorough'
    out = []
    # A3: Tier-A, n_cond = 3, stacks of 2: all ordered pairs, sharded by first vector
    for i in range(27):
        out.append({'kind': 'A3x2', 'first': i})
    # A3, stacks of 3 with every grouping
    if thorough:
        for i in range(27):
            for j0 in range(0, 27, 9):
                out.append({'kind': 'A3x3', 'first': i, 'second': [j0, j0 + 9], 'third': 'all'})
    else:
        for i in range(27):
            out.append({'kind': 'A3x3', 'first': i, 'second': [0, 27], 'third': 'stride'})
    # A6: Tier-A, n_cond = 4, pairs over {0,1,2}^6 x NaN masks x candidate grid
    n_pairs = 729 if thorough else 40
    per = 3 if thorough else 1
    for t0 in range(0, n_pairs, per):
        out.append({'kind': 'A6', 't': [t0, min(n_pairs, t0 + per)], 'dense': thorough})
    # B: fills, every grouping, masks, invariance, leak
    fills = [(0, 0), (0, 2), (0, 1)] if not thorough else [(0, 0), (0, 2), (0, 1), (1, 0), (1, 2), (1, 1)]
    for n_rdm in (2, 3, 4):
        for n_cond in (3, 4):
            for key, style in fills:
                for part in ('bounds', 'inv', 'leak'):
                    chunks = 3 if (part == 'bounds' and n_cond == 4 and n_rdm > 2) else 1
                    for c in range(chunks):
                        out.append({'kind': 'B', 'part': part, 'n_rdm': n_rdm, 'n_cond': n_cond,
                                    'key': key, 'style': style, 'chunk': [c, chunks]})
    # CV: cross-validated ceilings on every small set structure
    cvfills = fills[:2] if not thorough else fills
    for gen in ('loo_rdm', 'k_fold_rdm', 'k_fold', 'random', 'loo_pattern', 'k_fold_pattern', 'of_k_pattern'):
        if gen in ('loo_rdm', 'k_fold_rdm'):
            conds = [3, 4]
        elif gen in ('k_fold', 'random') and not thorough:
            conds = [6]
        elif gen in ('k_fold_pattern', 'of_k_pattern'):
            # pattern-only sets (ceil_set None) through the real crossval(): every fold needs >= 3 test
            # conditions; 7, 10, 11, 13 give unequal fold sizes; 12 = six condition groups of two
            conds = [6, 7, 10, 12] if not thorough else [6, 7, 9, 10, 11, 12, 13]
        else:
            conds = [6, 7]
        for n_rdm in (2, 3, 4):
            for n_cond in conds:
                if gen == 'of_k_pattern' and n_cond == 12:
                    continue
                for key, style in cvfills:
                    parts = 1
                    if gen in ('k_fold', 'k_fold_rdm', 'random') and n_rdm >= 3:
                        # split by set partition of the RDMs (5 / 15 of them)
                        parts = combi.BELL[n_rdm] if thorough else (5 if n_rdm == 4 else 1)
                    for c in range(parts):
                        out.append({'kind': 'CV', 'gen': gen, 'n_rdm': n_rdm, 'n_cond': n_cond,
                                    'key': key, 'style': style, 'chunk': [c, parts]})
    # KF: sets_k_fold with enough rdm groups for every remainder n_groups mod k_rdm, each fold judged
    for k_rdm in (2, 3, 4):
        for key, style in cvfills:
            out.append({'kind': 'KF', 'k_rdm': k_rdm, 'key': key, 'style': style})
    # SEQ: two noise ceilings in a row on ONE RDMs object, every ordered pair of methods
    for op in SEQ_OPS:
        for n_rdm in (2, 3, 4):
            out.append({'kind': 'SEQ', 'op': op, 'n_rdm': n_rdm})
    # RK: the other measures the ceiling routines accept (spearman, kendall, tau-b, tau-a; euclid /
    # neg_riem_dist for pool_rdm): structure only; pool_rdm of both modules against the reference pool
    for part in ('A0', 'A1', 'A2', 'fill2', 'fill3', 'fill4', 'cv2', 'cv3', 'cv4', 'pool'):
        out.append({'kind': 'RK', 'part': part})
    # EV: the noise ceilings stored by the evaluation routines, per observed resample, with rdm groups
    # that hold several RDMs
    for routine in EV_ROUTINES:
        for variant in (0, 1):
            if thorough and routine == 'bootstrap_crossval':
                for si in range(6):     # one shard per (boot_type, k_rdm): draws with <= 2 non-default answers
                    out.append({'kind': 'EV', 'routine': routine, 'variant': variant, 'setting': si})
            else:
                out.append({'kind': 'EV', 'routine': routine, 'variant': variant})
    # SZ: stacks of 34-40 RDMs in 20-24 descriptor groups of 1-2 RDMs with string / float / spread-int labels
    # (sizes at which numpy switches its set-membership algorithms), direct ceiling routines
    for kind in SZ_LABEL_KINDS:
        for struct in range(3):
            out.append({'kind': 'SZ', 'labels': kind, 'struct': struct})
    # PD: pattern descriptors that do not ascend along the conditions, pattern folds
    for gen in ('k_fold', 'random', 'k_fold_pattern', 'of_k_pattern', 'loo_pattern'):
        for n_rdm in (2, 3):
            out.append({'kind': 'PD', 'gen': gen, 'n_rdm': n_rdm})
    return out


SZ_LABEL_KINDS = ['str', 'float', 'spread']
# (pattern descriptor used for the folds, in-place re-ordering of the object before the call)
PD_VARIANTS = [('cname', None), ('index', 'reorder'), ('index', 'sort_by'), ('cname', 'reorder'), ('cgrp', None),
               ('cgrp', 'reorder')]
PD_CGRP = {6: ['t', 'b', 't', 'm', 'b', 'm'], 7: ['t', 'b', 't', 'b', 'b', 't', 'b'],
           9: ['t', 'b', 'm', 'm', 't', 'b', 'b', 'm', 't'], 10: ['t', 'b', 'm', 't', 'b', 'b', 'm', 't', 'm', 't'],
           12: [4, 1, 5, 0, 1, 3, 2, 4, 0, 5, 3, 2]}
EV_ROUTINES = ['eval_bootstrap', 'eval_bootstrap_rdm', 'eval_bootstrap_pattern', 'bootstrap_crossval',
               'eval_dual_bootstrap']
EV_LABELS = [[12, 12, 11, 11, 10], ['cz', 'ca', 'cz', 'cm', 'ca', 'cm']]    # groups of 2 (+1) RDMs, interleaved
KF_GROUPS = {2: [4, 5], 3: [5, 6, 7, 8, 9], 4: [9, 10, 11, 12]}     # every remainder 0..k-1
SEQ_OPS = ['boot_noise_ceiling', 'cv_noise_ceiling', 'eval_fixed', 'crossval']
A6_MASKS = list(combi.masks(6, 2))     # () + 6 + 15 = 22


def _a6_pair(t):
    """t-th ordered pair of the strided subset of {0,1,2}^6 x {0,1,2}^6 (deterministic)"""
    i = (37 * t + 5) % 729
    j = (101 * t + 13 + 7 * (t // 729)) % 729
    return i, j


def run_shard(shard, ctx):
    kind = shard['kind']
    if kind == 'A3x2':
        V = _alpha('012^3')
        a = V[shard['first']]
        for b in V:
            data = [a.tolist(), b.tolist()]
            for m in ALL:
                run_case({'kind': 'boot', 'data': data, 'n_cond': 3, 'mask': [], 'labels': None,
                          'method': m, 'cands': 'grid'}, ctx)
            # the same two singleton groups through an explicit descriptor, every naming
            for rgs, tag, labels in _labelings(2, True):
                for m in PLAIN:
                    run_case({'kind': 'boot', 'data': data, 'n_cond': 3, 'mask': [], 'labels': labels,
                              'method': m, 'cands': None}, ctx)
    elif kind == 'A3x3':
        V = _alpha('012^3')
        a = V[shard['first']]
        labs = _labelings(3, False)
        for j in range(*shard['second']):
            if shard['third'] == 'all':
                thirds = range(27)
            else:
                if (j + shard['first']) % 3:
                    continue
                thirds = sorted({(5 * j + 2 * shard['first'] + 1) % 27, (11 * j + shard['first'] + 14) % 27,
                                 (7 * j + 3 * shard['first'] + 23) % 27, j})
            for k in thirds:
                data = [a.tolist(), V[j].tolist(), V[k].tolist()]
                for m in ALL:
                    run_case({'kind': 'boot', 'data': data, 'n_cond': 3, 'mask': [], 'labels': None,
                              'method': m, 'cands': 'grid' if m in PLAIN else None}, ctx)
                for rgs, tag, labels in labs:
                    if tag != 'desc' and shard['third'] == 'all':
                        continue    # thorough: one naming per partition (namings are covered in B)
                    for m in PLAIN:
                        run_case({'kind': 'boot', 'data': data, 'n_cond': 3, 'mask': [],
                                  'labels': labels, 'method': m, 'cands': None}, ctx)
    elif kind == 'A6':
        V = _alpha('012^6')
        for t in range(*shard['t']):
            i, j = _a6_pair(t)
            data = [V[i].tolist(), V[j].tolist()]
            for mask in A6_MASKS:
                for m in ALL:
                    cands = None
                    if m in PLAIN:
                        # rho-a ranks every candidate in python (0.3 s for 4096): full grid on the
                        # unmasked stack for every third pair, on masked stacks always (<= 1024)
                        cands = 'grid'
                        if m == 'rho-a' and not len(mask) and not shard['dense'] and t % 3:
                            cands = 'local'
                    run_case({'kind': 'boot', 'data': data, 'n_cond': 4, 'mask': list(mask),
                              'labels': None, 'method': m, 'cands': cands}, ctx)
    elif kind == 'B':
        _shard_b(shard, ctx)
    elif kind == 'CV':
        _shard_cv(shard, ctx)
    elif kind == 'KF':
        _shard_kf(shard, ctx)
    elif kind == 'SEQ':
        _shard_seq(shard, ctx)
    elif kind == 'RK':
        _shard_rk(shard, ctx)
    elif kind == 'EV':
        _shard_ev(shard, ctx)
    elif kind == 'SZ':
        _shard_sz(shard, ctx)
    elif kind == 'PD':
        _shard_pd(shard, ctx)
    else:
        raise ValueError(kind)


def _sz_labels(kind, struct):
    """group label of every RDM: 20 groups of 2 / 22 groups (12 of them pairs) / 24 groups alternating 2, 1;
    members of a group are never neighbours; label values are strings, non-integral floats or integers
    spread over a wide range, in an order unrelated to the group number"""
    sizes = [[2] * 20, [2] * 12 + [1] * 10, [2, 1] * 12][struct]
    n_groups = len(sizes)
    members = [g for g, k in enumerate(sizes) for _ in range(k)]
    n = len(members)
    members = [members[(7 * i) % n] for i in range(n)]          # 7 is coprime to 40, 34, 36
    code = [(5 * g + 3) % n_groups if n_groups % 5 else (7 * g + 3) % n_groups for g in range(n_groups)]
    if kind == 'str':
        names = ['sub-%02d' % (3 + 2 * c) for c in code]
    elif kind == 'float':
        names = [0.25 + 1.5 * c for c in code]
    else:
        names = [1000 + 97 * c for c in code]
    assert len(set(names)) == n_groups
    return [names[g] for g in members]


def _shard_sz(shard, ctx):
    labels = _sz_labels(shard['labels'], shard['struct'])
    n_rdm = len(labels)
    thorough = ctx.tier == 'thorough'
    for n_cond in (4, 5):
        L = n_cond * (n_cond - 1) // 2
        for style in ([0, 2] if thorough else [[0, 2][(n_cond + shard['struct']) % 2]]):
            fill = {'n_rdm': n_rdm, 'L': L, 'key': 0, 'style': style}
            masks = [[]] + ([[1, 4]] if n_cond == 5 else [])
            for mask in masks:
                # (pooling ranks costs the library 36 rankdata calls per fold: the rank measures once)
                for m in (REFD if (not len(mask) and n_cond == 4) else ['cosine', 'corr']):
                    run_case({'kind': 'boot', 'fill': fill, 'n_cond': n_cond, 'mask': mask, 'labels': labels,
                              'method': m, 'cands': None}, ctx)
            # the training set of every fold is exactly the remaining groups; its pooled RDM does not move
            # when the left-out group's data change
            run_case({'kind': 'leak', 'fill': fill, 'n_cond': n_cond, 'mask': [], 'labels': labels,
                      'method': PLAIN[(shard['struct'] + n_cond) % 2], 'each_entry': False, 'group_stride': 5}, ctx)
            for gen, params in [('loo_rdm', {}), ('k_fold_rdm', {'k_rdm': 2}), ('k_fold_rdm', {'k_rdm': 3}),
                                ('k_fold_rdm', {'k_rdm': 7})]:
                for mi, m in enumerate(PLAIN + ['tau-a']):
                    if gen == 'k_fold_rdm' and mi != (params['k_rdm'] + n_cond) % 4 and not thorough:
                        continue
                    if gen == 'loo_rdm' and mi >= 2 and n_cond == 5 and not thorough:
                        continue
                    case = {'kind': 'cv', 'gen': gen, 'fill': fill, 'n_cond': n_cond, 'mask': [],
                            'labels': labels, 'params': params, 'random': False, 'method': m,
                            'per_fold': gen == 'k_fold_rdm'}
                    _cv_exec(case, Env([]), ctx)
                    if gen == 'loo_rdm' and mi == n_cond % 4:
                        _cv_exec(dict(case, via='crossval', per_fold=False), Env([]), ctx)


def _shard_pd(shard, ctx):
    gen, n_rdm = shard['gen'], shard['n_rdm']
    thorough = ctx.tier == 'thorough'
    labelings = [[12, 11, 10][:n_rdm]] + ([[11, 10, 11]] if n_rdm == 3 else [])
    if gen == 'k_fold':
        confs = [(6, {'k_rdm': n_rdm, 'k_pattern': 2}), (7, {'k_rdm': 2, 'k_pattern': 2}),
                 (10, {'k_rdm': 1, 'k_pattern': 3}), (12, {'k_rdm': 2, 'k_pattern': 2})]
    elif gen == 'random':
        confs = [(6, {'n_rdm': 1, 'n_pattern': 3, 'n_cv': 2}), (7, {'n_rdm': 0, 'n_pattern': 4, 'n_cv': 1})]
    elif gen == 'k_fold_pattern':
        confs = [(7, {'k': 2}), (10, {'k': 3}), (12, {'k': 3})]
    elif gen == 'of_k_pattern':
        confs = [(7, {'size': 3}), (10, {'size': 3})]
    else:
        confs = [(6, {}), (9, {})]
    for n_cond, params in confs:
        fill = {'n_rdm': n_rdm, 'L': n_cond * (n_cond - 1) // 2, 'key': 0, 'style': 0 if n_cond % 2 else 2}
        for labels in labelings:
            if gen in ('k_fold', 'random') and len(set(labels)) <= params.get('n_rdm', params.get('k_rdm', 1)) - 1:
                continue
            if gen == 'k_fold' and len(set(labels)) < params['k_rdm']:
                continue
            for vi, (pdesc, inplace) in enumerate(PD_VARIANTS):
                if gen == 'loo_pattern' and pdesc != 'cgrp':
                    continue
                if n_cond == 12 and pdesc != 'cgrp':
                    continue        # 12 conditions = six groups of two: folds over the grouping descriptor
                if pdesc == 'cgrp' and gen in ('random', 'of_k_pattern'):
                    continue        # group counts too small for these generators' test sets
                if pdesc == 'cgrp' and gen == 'k_fold' and n_cond not in (12,):
                    continue
                if pdesc == 'cgrp' and gen == 'k_fold_pattern' and n_cond != 12:
                    continue
                p = dict(params, cgrp=PD_CGRP[n_cond]) if pdesc == 'cgrp' else params
                for mi, m in enumerate(PLAIN + ['spearman']):
                    if mi == 3 and vi % 2:
                        continue
                    randoms = [False] if gen in ('loo_pattern',) else ([True] if gen == 'random' else [False, True])
                    for random in randoms:
                        case = {'kind': 'cv', 'gen': gen, 'fill': fill, 'n_cond': n_cond, 'mask': [],
                                'labels': labels, 'params': p, 'random': random, 'method': m,
                                'pdesc': pdesc, 'inplace': inplace, 'per_fold': True}
                        if not random:
                            _cv_exec(case, Env([]), ctx)
                            if gen in ('k_fold', 'loo_pattern') and mi == vi % 3:
                                _cv_exec(dict(case, via='crossval', per_fold=False), Env([]), ctx)
                            continue
                        # shuffled folds: every draw with <= 1 non-default answer for one method and variant
                        deep = mi == vi % 3 and labels is labelings[0] and (thorough or vi in (0, 1))
                        stats = Stats()
                        for _env, _ in explore(lambda env: _cv_exec(case, env, ctx), bound=1 if deep else 0,
                                               max_exec=3000, stats=stats):
                            pass
                        if stats.capped:
                            ctx.count('cap_hit')


def _shard_ev(shard, ctx):
    routine, variant = shard['routine'], shard['variant']
    thorough = ctx.tier == 'thorough'
    labels = EV_LABELS[variant]
    n_cond = 5
    fill = {'n_rdm': len(labels), 'L': n_cond * (n_cond - 1) // 2, 'key': 0, 'style': [0, 2][variant]}
    if routine.startswith('eval_bootstrap'):
        settings = [{'boot_noise_ceil': True}, {'boot_noise_ceil': False}]
    elif routine == 'bootstrap_crossval':
        settings = [{'boot_type': bt, 'k_rdm': k} for bt in ('both', 'rdm', 'pattern') for k in (1, 2)]
    else:
        settings = [{'k_rdm': 1}, {'k_rdm': 2}]
    for si, setting in enumerate(settings):
        if shard.get('setting', si) != si:
            continue
        for desc in ('grp', 'index'):
            for mi, m in enumerate(PLAIN + ['spearman']):
                if desc == 'index' and mi != (si + variant) % 3:
                    continue        # default descriptor (every RDM its own group): one method per setting
                case = {'kind': 'ev', 'routine': routine, 'fill': fill, 'n_cond': n_cond, 'labels': labels,
                        'desc': desc, 'setting': setting, 'method': m}
                # every draw history with <= 1 non-default answer for one method per setting, the
                # all-default history (= the data itself as every resample) for the others
                deep = mi == (si + variant) % 3 and desc == 'grp' and setting.get('boot_noise_ceil', True)
                if not routine.startswith('eval_bootstrap') and not thorough and si % 2 != variant:
                    deep = False    # quick: k_rdm 1 under draws with the first labelling, k_rdm 2 with the second
                bound = (2 if thorough and routine != 'eval_dual_bootstrap' else 1) if deep else 0
                stats = Stats()
                for _env, _ in explore(lambda env: _ev_exec(case, env, ctx), bound=bound, max_exec=4000,
                                       stats=stats):
                    pass
                if stats.capped:
                    ctx.count('cap_hit')


POOL_METHODS = {'inference_util': ALL + RANKS + ['euclid', 'neg_riem_dist', 'no-such-measure'],
                'pooling': PLAIN + RANKS + ['euclid', 'no-such-measure']}


def _shard_rk(shard, ctx):
    part = shard['part']
    thorough = ctx.tier == 'thorough'
    styles = [0, 2] if not thorough else [0, 2, 1]
    if part[0] == 'A':
        # every ordered pair over {0,1,2}^3 (all tie patterns), default grouping
        V = _alpha('012^3')
        for i in range(int(part[1]) * 9, int(part[1]) * 9 + 9):
            for b in V:
                for m in RANKS:
                    run_case({'kind': 'boot', 'data': [V[i].tolist(), b.tolist()], 'n_cond': 3, 'mask': [],
                              'labels': None, 'method': m, 'cands': None}, ctx)
    elif part.startswith('fill'):
        n_rdm = int(part[4])
        for n_cond in (3, 4):
            L = n_cond * (n_cond - 1) // 2
            masks = [[]] if n_cond == 3 else [[], [1], [0, 4]]
            for style in styles:
                fill = {'n_rdm': n_rdm, 'L': L, 'key': 0, 'style': style}
                for rgs, tag, labels in [(None, 'index', None)] + [x for x in _labelings(n_rdm, False)
                                                                   if x[1] == 'desc']:
                    for mask in masks:
                        for m in RANKS:
                            run_case({'kind': 'boot', 'fill': fill, 'n_cond': n_cond, 'mask': mask,
                                      'labels': labels, 'method': m, 'cands': None}, ctx)
                    if labels is not None and len(set(labels)) < 2:
                        continue
                    for m in RANKS + ['euclid']:
                        # the left-out group's data changed (every entry: stacks of 3; all at once: always)
                        run_case({'kind': 'leak', 'fill': fill, 'n_cond': n_cond, 'mask': masks[-1],
                                  'labels': labels, 'method': m, 'each_entry': n_rdm == 3 and labels is None,
                                  'public_only': m == 'euclid'}, ctx)
    elif part.startswith('cv'):
        n_rdm = int(part[2])
        for style in styles:
            for rgs, tag, labels in [x for x in _labelings(n_rdm, False) if x[1] == 'desc']:
                n_groups = len(set(labels))
                todo = []
                for n_cond, mask in ((4, []), (4, [2])):
                    if n_groups >= 2:
                        todo.append(('loo_rdm', n_cond, mask, {}))
                        todo.append(('k_fold_rdm', n_cond, mask, {'k_rdm': 2}))
                if n_groups >= 2:
                    todo.append(('k_fold', 6, [], {'k_rdm': 2, 'k_pattern': 2}))
                    todo.append(('k_fold', 6, [], {'k_rdm': n_groups, 'k_pattern': 1}))
                if n_groups == n_rdm:
                    todo.append(('k_fold_pattern', 7, [], {'k': 2}))
                    todo.append(('loo_pattern', 6, [], {'cgrp': [5, 3, 5, 3, 3, 5]}))
                for gen, n_cond, mask, params in todo:
                    fill = {'n_rdm': n_rdm, 'L': n_cond * (n_cond - 1) // 2, 'key': 0, 'style': style}
                    for m in RANKS:
                        case = {'kind': 'cv', 'gen': gen, 'fill': fill, 'n_cond': n_cond, 'mask': mask,
                                'labels': labels, 'params': params, 'random': False, 'method': m,
                                'per_fold': gen == 'k_fold'}
                        _cv_exec(case, Env([]), ctx)
                        if gen in ('loo_rdm', 'k_fold') and not len(mask) and m == RANKS[n_groups % 4]:
                            _cv_exec(dict(case, via='crossval', per_fold=False), Env([]), ctx)
    elif part == 'pool':
        V = _alpha('012^3')
        for module, methods in sorted(POOL_METHODS.items()):
            for m in methods:
                for i in range(0, 27, 2):
                    for j in sorted({i, (5 * i + 3) % 27, (11 * i + 7) % 27}):
                        run_case({'kind': 'pool', 'module': module, 'method': m, 'n_cond': 3, 'mask': [],
                                  'data': [V[i].tolist(), V[j].tolist()]}, ctx)
                for n_rdm in (2, 3, 4):
                    for n_cond in (3, 4):
                        for style in styles:
                            for mask in ([[]] if n_cond == 3 else [[], [1], [0, 4]]):
                                run_case({'kind': 'pool', 'module': module, 'method': m, 'n_cond': n_cond,
                                          'mask': mask, 'fill': {'n_rdm': n_rdm, 'L': n_cond * (n_cond - 1) // 2,
                                                                 'key': 0, 'style': style}}, ctx)
    else:
        raise ValueError(part)


def _shard_kf(shard, ctx):
    k_rdm = shard['k_rdm']
    thorough = ctx.tier == 'thorough'
    for n_groups in KF_GROUPS[k_rdm]:
        # every group one RDM (descending names); and the first two groups with two RDMs each, interleaved
        variants = [[10 + n_groups - 1 - g for g in range(n_groups)]]
        doubled = [10 + n_groups - 1 - g for g in range(n_groups)]
        doubled[2:2] = [doubled[1]]
        doubled.append(doubled[0])
        variants.append(doubled)
        for labels in variants:
            for k_pattern in (1, 2):
                n_cond = 4 if k_pattern == 1 else 6
                fill = {'n_rdm': len(labels), 'L': n_cond * (n_cond - 1) // 2, 'key': shard['key'],
                        'style': shard['style']}
                for m in PLAIN:
                    case = {'kind': 'cv', 'gen': 'k_fold', 'fill': fill, 'n_cond': n_cond, 'mask': [],
                            'labels': labels, 'params': {'k_rdm': k_rdm, 'k_pattern': k_pattern},
                            'random': False, 'method': m, 'per_fold': True}
                    _cv_exec(case, Env([]), ctx)
                    rotating = m == PLAIN[(n_groups + k_pattern) % 3]
                    if rotating and labels is variants[0]:
                        _cv_exec(dict(case, via='crossval', per_fold=False), Env([]), ctx)
                        if n_groups % k_rdm == k_rdm - 1 or thorough:
                            # shuffled group order: every draw with <= 1 non-default answer
                            rc = dict(case, random=True)
                            stats = Stats()
                            for _env, _ in explore(lambda env: _cv_exec(rc, env, ctx), bound=1,
                                                   max_exec=5000, stats=stats):
                                pass
                            if stats.capped:
                                ctx.count('cap_hit')


def _shard_seq(shard, ctx):
    thorough = ctx.tier == 'thorough'
    n_rdm = shard['n_rdm']
    for n_cond in (3, 4):
        for key, style in ([(0, 0), (0, 1)] if not thorough else [(0, 0), (0, 1), (0, 2), (1, 0)]):
            fill = {'n_rdm': n_rdm, 'L': n_cond * (n_cond - 1) // 2, 'key': key, 'style': style}
            for first in ALL:
                for second in ALL:
                    run_case({'kind': 'seq', 'op': shard['op'], 'fill': fill, 'n_cond': n_cond,
                              'first': first, 'second': second}, ctx)


def _shard_b(shard, ctx):
    n_rdm, n_cond = shard['n_rdm'], shard['n_cond']
    L = n_cond * (n_cond - 1) // 2
    fill = {'n_rdm': n_rdm, 'L': L, 'key': shard['key'], 'style': shard['style']}
    masks = [()] if n_cond == 3 else list(combi.masks(L, 2))
    labs = _labelings(n_rdm, True)
    if shard['part'] == 'bounds':
        for mask in masks[shard['chunk'][0]::shard['chunk'][1]]:
            for m in ALL:
                run_case({'kind': 'boot', 'fill': fill, 'n_cond': n_cond, 'mask': list(mask),
                          'labels': None, 'method': m, 'cands': 'grid' if m in PLAIN else None}, ctx)
            for rgs, tag, labels in labs:
                if len(mask) and tag not in ('asc', 'desc', 'str'):
                    continue
                for m in ALL:
                    single = len(set(labels)) == n_rdm
                    if m in WHITE and not single:
                        continue    # nothing is demanded of whitened measures with real groups
                    run_case({'kind': 'boot', 'fill': fill, 'n_cond': n_cond, 'mask': list(mask),
                              'labels': labels, 'method': m,
                              'cands': 'local' if (single and m in PLAIN) else None}, ctx)
    elif shard['part'] == 'inv':
        for mask in masks[:1] + masks[3:4] + masks[12:13]:
            for rgs, tag, labels in [(None, 'index', None)] + [x for x in labs if x[1] == (
                    'str' if len(mask) == 1 else 'desc')]:
                for m in ('cosine', 'corr'):
                    for which in range(n_rdm):
                        for a, b in TRANSFORMS[m]:
                            run_case({'kind': 'inv', 'fill': fill, 'n_cond': n_cond, 'mask': list(mask),
                                      'labels': labels, 'method': m, 'which': which,
                                      'scale': a, 'shift': b}, ctx)
    elif shard['part'] == 'leak':
        for mask in masks[:1] + masks[9:10]:
            for rgs, tag, labels in [(None, 'index', None)] + [x for x in labs if x[1] in ('desc', 'str')]:
                if labels is not None and len(set(labels)) < 2:
                    continue
                # every single entry of the left-out group on the complete stack ('desc' naming);
                # the whole group at once for the other naming and under the NaN mask
                each = not len(mask) and tag != 'str'
                for m in PLAIN:
                    run_case({'kind': 'leak', 'fill': fill, 'n_cond': n_cond, 'mask': list(mask),
                              'labels': labels, 'method': m, 'each_entry': each}, ctx)


# ------------------------------------------------------------------------------ cases
def run_case(case, ctx):
    kind = case['kind']
    if kind == 'boot':
        _case_boot(case, ctx)
    elif kind == 'inv':
        _case_inv(case, ctx)
    elif kind == 'leak':
        _case_leak(case, ctx)
    elif kind == 'cv':
        _cv_exec(case, Env(case.get('choices', [])), ctx)
    elif kind == 'seq':
        _case_seq(case, ctx)
    elif kind == 'pool':
        _case_pool(case, ctx)
    elif kind == 'ev':
        _ev_exec(case, Env(case.get('choices', [])), ctx)
    else:
        raise ValueError(kind)


def _defined(method, stack):
    return all(R.data_defined(method, v) for v in stack)


def _case_boot(case, ctx):
    from rsatoolbox.inference import boot_noise_ceiling
    method, mask, labels = case['method'], case['mask'], case['labels']
    full = _data(case, ctx.seed)
    n_rdm = full.shape[0]
    stack = R.delete_entries(full.tolist(), mask)      # what the bounds must depend on
    if not _defined(method, stack):
        ctx.exclude(UNDEF)
        return
    cfg = _cfg(method, labels, n_rdm, mask)
    sigp = 'boot_noise_ceiling|' + cfg
    singleton = _group_class(labels, n_rdm) == 'singleton'
    ref_labels = list(range(n_rdm)) if labels is None else list(labels)
    # ---- what the reference says (None = undefined for this input -> excluded and counted)
    want_lo = want_up = None
    order = False
    if method in REFD:
        want_lo, info = R.lower_bound(method, stack, ref_labels)
        if want_lo is None:
            ctx.exclude('lower bound: ' + info)
        if singleton:
            want_up = R.upper_bound(method, stack)
            if want_up is None:
                ctx.exclude('upper bound: pooled RDM of all data undefined (direction vanishes)')
            elif method in PLAIN and not close(want_up, R.max_score(method, stack), TOL):
                # the two reference routes disagree: oracle problem, not a library defect
                raise AssertionError('reference pooled score %.12g != closed-form optimum %.12g'
                                     % (want_up, R.max_score(method, stack)))
    if singleton and method in ORDER:
        base = method if method in PLAIN else ('corr' if 'corr' in method else 'cosine')
        order = (R.upper_bound(base, stack) is not None and R.lower_bound(base, stack)[0] is not None)
        if not order and method in WHITE:     # (plain: already counted above)
            ctx.exclude('ordering: a pooled RDM is undefined (direction vanishes)')
    if want_lo is None and want_up is None and not order:
        return
    # ---- the library
    with ctx.guard(sigp, case):
        rdms = _rdms(_masked(full, mask), labels)
        desc = 'index' if labels is None else 'grp'
        with _Unchanged(ctx, 'boot_noise_ceiling|method=%s' % method, case, rdms=rdms):
            lo, up = boot_noise_ceiling(rdms, method=method, rdm_descriptor=desc)
        lo, up = float(lo), float(up)
        ctx.case(case)
        ctx.outcome((round(lo, 9), round(up, 9)))
        if want_lo is not None:
            ctx.dev('lower/' + method, reldev(lo, want_lo))
            if not close(lo, want_lo, TOL):
                ctx.fail(sigp + '|lower!=leave-one-group-out', case,
                         'lower bound %.12g, mean over left-out groups of sim(left-out, pooled '
                         'rest) = %.12g; data=%s mask=%s labels=%s' % (
                             lo, want_lo, full.tolist(), list(mask), ref_labels))
        if want_up is not None:
            ctx.dev('upper/' + method, reldev(up, want_up))
            if not close(up, want_up, TOL):
                ctx.fail(sigp + ('|upper!=best-achievable' if method in PLAIN else '|upper!=score-of-pooled-rdm'), case,
                         'upper bound %.12g, %s %.12g; data=%s mask=%s' % (
                             up, 'highest achievable average similarity' if method in PLAIN else
                             'average similarity of the data RDMs to the mean of their tie-averaged ranks',
                             want_up, full.tolist(), list(mask)))
            if case.get('cands'):
                _candidates(case, ctx, rdms, full, stack, mask, method, up, sigp)
        if order:
            tol = TOL_CG if method in WHITE else TOL
            if np.isnan(lo) or np.isnan(up):
                ctx.fail(sigp + '|bound-is-nan', case, 'lower %r upper %r for data=%s mask=%s' % (
                    lo, up, full.tolist(), list(mask)))
            else:
                ctx.dev('lower-upper/' + method, max(0.0, lo - up))
                if lo > up + tol:
                    ctx.fail(sigp + '|lower>upper', case, 'lower %.12g > upper %.12g; data=%s mask=%s' % (
                        lo, up, full.tolist(), list(mask)))


@functools.lru_cache(maxsize=None)
def _grid(n_present):
    return _alpha('0123^%d' % n_present)


def _candidates(case, ctx, rdms, full, stack, mask, method, up, sigp):
    """score every candidate in one vectorised compare() call against the data RDMs"""
    from rsatoolbox.rdm import compare
    from rsatoolbox.util.inference_util import pool_rdm
    L = full.shape[1]
    present = [k for k in range(L) if k not in set(mask)]
    blocks, tags = [], []

    def add(rows, tag):
        rows = np.atleast_2d(np.asarray(rows, dtype=float))
        blocks.append(rows)
        tags.extend([tag] * len(rows))
    if case['cands'] == 'grid':
        add(_grid(len(present)), 'grid')
    add(np.array(stack), 'data-rdm')
    ref_p = R.pooled(method, stack)
    add(ref_p, 'ref-pooled')
    with _Unchanged(ctx, 'pool_rdm|method=%s' % method, case, rdms=rdms):
        lib_p = pool_rdm(rdms, method=method)
    lib_p = np.asarray(lib_p.get_vectors(), dtype=float)[0][present]
    add(lib_p, 'lib-pooled')
    scale = float(np.max(np.abs(lib_p))) or 1.0
    for eps in (1e-3, 0.3):
        for k in range(len(present)):
            for sgn in (1.0, -1.0):
                p = lib_p.copy()
                p[k] += sgn * eps * scale
                add(p, 'pooled-perturbation')
    cands = np.vstack(blocks)
    ok = np.array([R.data_defined(method, c) for c in cands])
    n_bad = int((~ok).sum())
    if n_bad:
        ctx.excluded['candidate for which the measure is undefined'] += n_bad
    cands = cands[ok]
    tags = [t for t, o in zip(tags, ok) if o]
    wide = np.full((len(cands), L), np.nan)
    wide[:, present] = cands
    scores = np.asarray(compare(wide, rdms, method=method), dtype=float)
    if scores.shape != (len(cands), full.shape[0]):
        ctx.fail(sigp + '|candidate-scores-shape', case, 'shape %r' % (scores.shape,))
        return
    avg = scores.mean(axis=1)
    ctx.count('candidates scored', len(cands))
    ctx.case(dict(case, sub='candidates'))
    if np.isnan(avg).any():
        ctx.fail(sigp + '|candidate-score-nan', case, 'NaN score for candidate %s, data=%s' % (
            cands[int(np.argmax(np.isnan(avg)))].tolist(), full.tolist()))
        return
    worst = int(np.argmax(avg))
    ctx.dev('candidate-upper/' + method, max(0.0, float(avg[worst] - up)))
    if avg[worst] > up + TOL:
        ctx.fail(sigp + '|candidate-beats-upper:%s' % tags[worst], case,
                 'candidate %s scores %.12g > upper bound %.12g; data=%s mask=%s' % (
                     cands[worst].tolist(), avg[worst], up, full.tolist(), list(mask)))
    for tag in ('ref-pooled', 'lib-pooled'):
        if tag not in tags:
            ctx.fail(sigp + '|pooled-rdm-undefined:%s' % tag, case,
                     'the measure is undefined for the %s RDM %s although the best-fitting RDM of the data '
                     'is well defined (%s); data=%s mask=%s' % (tag, lib_p.tolist(), ref_p, full.tolist(), list(mask)))
            continue
        i = tags.index(tag)
        if avg[i] < up - TOL:       # (above the bound is reported as candidate-beats-upper)
            ctx.fail(sigp + '|pooled-rdm-does-not-attain-upper:%s' % tag, case,
                     '%s RDM %s scores %.12g, upper bound %.12g; data=%s mask=%s' % (
                         tag, cands[i].tolist(), avg[i], up, full.tolist(), list(mask)))


def _case_inv(case, ctx):
    """bounds unchanged when ONE data RDM is rescaled (cosine) / shifted and rescaled (corr)"""
    from rsatoolbox.inference import boot_noise_ceiling
    method, mask, labels = case['method'], case['mask'], case['labels']
    full = _data(case, ctx.seed)
    stack = R.delete_entries(full.tolist(), mask)
    if not _defined(method, stack):
        ctx.exclude(UNDEF)
        return
    ref_labels = list(range(len(stack))) if labels is None else list(labels)
    single = len(set(ref_labels)) < 2
    base = method
    if R.upper_bound(base, stack, ref_labels) is None or (
            not single and R.lower_bound(base, stack, ref_labels)[0] is None):
        ctx.exclude('invariance: a pooled RDM is undefined (direction vanishes)')
        return
    tkind = 'rescale' if case['shift'] == 0 else 'shift+rescale'
    sigp = 'boot_noise_ceiling|method=%s,transform=%s' % (method, tkind)
    with ctx.guard(sigp, case):
        desc = 'index' if labels is None else 'grp'
        lo0, up0 = boot_noise_ceiling(_rdms(_masked(full, mask), labels), method=method, rdm_descriptor=desc)
        moved = full.copy()
        moved[case['which']] = case['scale'] * moved[case['which']] + case['shift']
        lo1, up1 = boot_noise_ceiling(_rdms(_masked(moved, mask), labels), method=method, rdm_descriptor=desc)
        ctx.case(case, nontrivial=not single)
        ctx.outcome((round(float(lo0), 9), round(float(up0), 9)))
        ctx.dev('invariance/' + method, max(reldev(lo0, lo1), reldev(up0, up1)))
        if not single and not close(lo0, lo1, TOL):
            ctx.fail(sigp + '|lower-changed', case, 'lower %.12g -> %.12g when RDM %d -> %g*RDM+%g; data=%s' % (
                lo0, lo1, case['which'], case['scale'], case['shift'], full.tolist()))
        if not close(up0, up1, TOL):
            ctx.fail(sigp + '|upper-changed', case, 'upper %.12g -> %.12g when RDM %d -> %g*RDM+%g; data=%s' % (
                up0, up1, case['which'], case['scale'], case['shift'], full.tolist()))


def _ceiling_through(op, rdms, method, n_cond, ctx, case):
    """(lower, upper) of the complete stack (every RDM its own group) through one public entry point"""
    from rsatoolbox.inference import boot_noise_ceiling, cv_noise_ceiling, eval_fixed, crossval
    from rsatoolbox.inference.crossvalsets import sets_leave_one_out_rdm
    sigp = '%s|method=%s' % (op, method)
    if op == 'boot_noise_ceiling':
        with _Unchanged(ctx, sigp, case, rdms=rdms):
            out = boot_noise_ceiling(rdms, method=method)
    elif op == 'eval_fixed':
        model = _fixed_model(rdms, n_cond, ctx.seed)
        with _Unchanged(ctx, sigp, case, data=rdms, models=model):
            out = eval_fixed(model, rdms, method=method).noise_ceiling
    else:
        train_set, test_set, ceil_set = sets_leave_one_out_rdm(rdms, 'index')
        if op == 'cv_noise_ceiling':
            with _Unchanged(ctx, sigp, case, rdms=rdms, ceil_set=ceil_set, test_set=test_set):
                out = cv_noise_ceiling(rdms, ceil_set, test_set, method=method)
        else:
            model = _fixed_model(rdms, n_cond, ctx.seed)
            with _Unchanged(ctx, sigp, case, rdms=rdms, train_set=train_set, test_set=test_set,
                            ceil_set=ceil_set, models=model):
                out = crossval(model, rdms, train_set, test_set, ceil_set=ceil_set, method=method).noise_ceiling
    out = np.asarray(out, dtype=float)
    if out.shape != (2,):
        raise AssertionError('noise ceiling of shape %r' % (out.shape,))
    return float(out[0]), float(out[1])


def _fixed_model(rdms, n_cond, seed):
    from rsatoolbox.model import ModelFixed
    from rsatoolbox.rdm import RDMs
    vec = np.round(rng_for(seed, 'c07model', n_cond).uniform(0.2, 3.0, size=n_cond * (n_cond - 1) // 2), 4)
    pd = {k: list(v) for k, v in rdms.pattern_descriptors.items() if k != 'index'}
    return ModelFixed('m', RDMs(vec.reshape(1, -1), pattern_descriptors=pd))


def _case_seq(case, ctx):
    """two noise ceilings in a row on ONE RDMs object: the second must be what it is on the original
    data (reference for the plain measures; the same call on a private fresh copy for all measures)"""
    op, first, second, n_cond = case['op'], case['first'], case['second'], case['n_cond']
    full = _data(case, ctx.seed)
    stack = full.tolist()
    if not (_defined(first, stack) and _defined(second, stack)):
        ctx.exclude(UNDEF)
        return
    for m in (first, second):
        base = m if m in PLAIN else ('corr' if 'corr' in m else 'cosine')
        if R.upper_bound(base, stack) is None or R.lower_bound(base, stack)[0] is None:
            ctx.exclude('sequence: a pooled RDM is undefined (direction vanishes)')
            return
    sigp = 'noise-ceiling-sequence|first=%s,second=%s' % (first, second)
    with ctx.guard(sigp, case):
        alone = _ceiling_through(op, _rdms(full, None, n_cond), second, n_cond, ctx, case)
        shared = _rdms(full, None, n_cond)
        _ceiling_through(op, shared, first, n_cond, ctx, case)
        after = _ceiling_through(op, shared, second, n_cond, ctx, case)
        ctx.case(case)
        ctx.outcome((round(after[0], 9), round(after[1], 9)))
        tol = TOL_CG if second in WHITE else TOL
        bad = not (close(after[0], alone[0], tol) and close(after[1], alone[1], tol))
        want = None
        if second in PLAIN:
            want = (R.lower_bound(second, stack)[0], R.upper_bound(second, stack))
            bad = bad or not (close(after[0], want[0], TOL) and close(after[1], want[1], TOL))
        if bad:
            ctx.fail(sigp + '|depends-on-earlier-call', case,
                     '%s(method=%s) after %s(method=%s) on the same RDMs object gives (lower, upper) = %r; on a fresh '
                     'copy of the data %r; reference %r; data=%s' % (op, second, op, first, after, alone, want,
                                                                     full.tolist()))


@contextlib.contextmanager
def _record_evaluate(desc):
    """observe what the evaluation routines resample and how they split it: recording wrappers around the
    names bootstrap_sample* and sets_k_fold in the namespace of inference.evaluate (nothing in the tree is
    edited).  Every record is a snapshot taken at call time."""
    import rsatoolbox.inference.evaluate as ev
    log = {'samples': [], 'splits': []}

    def snap(rdms):
        return {'vectors': np.array(rdms.get_vectors(), dtype=float),
                'labels': [x.item() if hasattr(x, 'item') else x for x in rdms.rdm_descriptors[desc]],
                'n_cond': int(rdms.n_cond)}

    def sampler(orig):
        def wrapped(*a, **k):
            out = orig(*a, **k)
            log['samples'].append(dict(snap(out[0]), draws=[np.asarray(o).tolist() for o in out[1:]]))
            return out
        return wrapped

    def splitter(orig):
        def wrapped(*a, **k):
            out = orig(*a, **k)
            src = a[0] if a else k['rdms']
            rec = snap(src)
            rec['test_labels'] = [[x.item() if hasattr(x, 'item') else x for x in te[0].rdm_descriptors[desc]]
                                  for te in out[1]]
            rec['test_n_cond'] = [int(te[0].n_cond) for te in out[1]]
            log['splits'].append(rec)
            return out
        return wrapped
    names = {'bootstrap_sample': sampler, 'bootstrap_sample_rdm': sampler, 'bootstrap_sample_pattern': sampler,
             'sets_k_fold': splitter}
    saved = {n: getattr(ev, n) for n in names}
    for n, w in names.items():
        setattr(ev, n, w(saved[n]))
    try:
        yield log
    finally:
        for n, f in saved.items():
            setattr(ev, n, f)


class _Replayable(dict):
    """case descriptor that carries the draw history answered so far when it is written out (an
    exception inside a guard is recorded with the draws that led to it, so --replay reproduces it)"""

    def __init__(self, case, env):
        dict.__init__(self, case)
        self._env = env

    def items(self):
        return list(dict(self, choices=list(self._env.choices)).items())


def _resample_reference(method, rec, test_labels=None):
    """reference (lower, upper-or-None, why-not) of one observed resample: leave-one-group-out over the
    resample's own groups, or - with test_labels (one list per fold) - the cross-validated lower bound from
    the REMAINING groups; entries missing from all RDMs (pairs of two copies of one condition) ignored"""
    vec, labels = rec['vectors'], rec['labels']
    missing = [k for k in range(vec.shape[1]) if np.isnan(vec[:, k]).any()]
    stack = R.delete_entries(vec.tolist(), missing)
    if len(stack[0]) < 3 or not _defined(method, stack):
        return None, None, UNDEF
    if test_labels is None:
        lo, info = R.lower_bound(method, stack, labels)
        if lo is None:
            return None, None, 'lower bound: ' + str(info)
        sizes = set(len(v) for v in R.groups_of(labels).values())
        up = R.upper_bound(method, stack, labels) if len(sizes) == 1 else None
        return lo, up, None
    folds = []
    for tl in test_labels:
        tl = set(tl)
        test = [i for i, g in enumerate(labels) if g in tl]
        rest = [i for i, g in enumerate(labels) if g not in tl]
        if not rest:
            rest = list(range(len(labels)))       # no cross-validation over RDMs
        folds.append((rest, test, list(range(rec['n_cond']))))
    lo, info = R.cv_lower(method, vec.tolist(), rec['n_cond'], folds, missing)
    if lo is None:
        return None, None, 'cv lower bound: ' + str(info)
    return lo, None, None


def _ev_exec(case, env, ctx):
    """one execution of an evaluation routine under one fully specified draw history; every stored noise
    ceiling is compared with the reference ceiling of the resample it belongs to"""
    import rsatoolbox.inference as inf
    routine, method, desc, setting = case['routine'], case['method'], case['desc'], case['setting']
    labels, n_cond = case['labels'], case['n_cond']
    full = _data(case, ctx.seed)
    N = 2
    sigp = '%s|method=%s,%s' % (routine, method, ','.join('%s=%s' % kv for kv in sorted(setting.items())))
    with ctx.guard(sigp, _Replayable(case, env)):
        rdms = _rdms(full, labels, n_cond)
        model = _fixed_model(rdms, n_cond, ctx.seed)
        kw = dict(method=method, N=N, rdm_descriptor=desc)
        if routine == 'eval_bootstrap':
            kw.update(pattern_descriptor='index', boot_noise_ceil=setting['boot_noise_ceil'])
        elif routine == 'eval_bootstrap_pattern':
            kw.update(pattern_descriptor='index', boot_noise_ceil=setting['boot_noise_ceil'])
        elif routine == 'eval_bootstrap_rdm':
            kw.update(boot_noise_ceil=setting['boot_noise_ceil'])
        elif routine == 'bootstrap_crossval':
            kw.update(k_pattern=1, k_rdm=setting['k_rdm'], n_cv=1, boot_type=setting['boot_type'],
                      use_correction=False, pattern_descriptor='index')
        else:
            kw.update(k_pattern=1, k_rdm=setting['k_rdm'], n_cv=1, use_correction=False, pattern_descriptor='index')
        try:
            with installed(RngEnv(env)), _record_evaluate(desc) as log, \
                    _Unchanged(ctx, '%s|method=%s' % (routine, method), case, data=rdms, models=model):
                res = getattr(inf, routine)(model, rdms, **kw)
        except (ValueError, FloatingPointError, ZeroDivisionError):
            # the routine cannot go on when the measure is undefined for an RDM of a resample it drew
            # (e.g. constant over the entries that are left): such a draw history is excluded, not judged
            for rec in log['samples'] + log['splits']:
                if _resample_reference(method, rec)[2] not in (None, 'lower bound: single group: nothing is '
                                                                      'left to predict from'):
                    ctx.exclude('resample: measure undefined for a resampled RDM (routine raised)')
                    return
            raise
        nc = np.asarray(res.noise_ceiling, dtype=float)
        done = dict(case, choices=list(env.choices))
        ctx.case(done)
        ctx.outcome(np.round(nc, 9))
        # ---- which stored value belongs to which observed resample
        pairs = []      # (stored lower, stored upper, reference record, test labels or None, where)
        if routine.startswith('eval_bootstrap'):
            if not setting['boot_noise_ceil']:
                if nc.shape != (2,):
                    ctx.fail(sigp + '|noise-ceiling-shape', done, 'shape %r' % (nc.shape,))
                    return
                rec = {'vectors': full, 'labels': labels if desc == 'grp' else list(range(len(labels))), 'n_cond': n_cond}
                pairs.append((nc[0], nc[1], rec, None, 'complete data'))
            else:
                if nc.shape != (2, N) or len(log['samples']) != N:
                    ctx.fail(sigp + '|noise-ceiling-shape', done, 'shape %r for %d resamples (%d observed)' % (
                        nc.shape, N, len(log['samples'])))
                    return
                for i, rec in enumerate(log['samples']):
                    pairs.append((nc[0, i], nc[1, i], rec, None, 'resample %d (draws %s)' % (i, rec['draws'])))
        else:
            comps = 3 if routine == 'eval_dual_bootstrap' else 1
            want_shape = (2, N, 1, 3) if comps == 3 else (2, N, 1)
            if nc.shape != want_shape:
                ctx.fail(sigp + '|noise-ceiling-shape', done, 'shape %r, expected %r' % (nc.shape, want_shape))
                return
            flat = nc.reshape(2, N, comps)
            # slots that hold a value, in the order the routine fills them <-> observed sets_k_fold calls
            slots = [(i, c) for i in range(N) for c in range(comps) if not np.isnan(flat[:, i, c]).all()]
            if len(slots) != len(log['splits']):
                ctx.exclude('resample does not allow the cross-validation (NaN stored) or NaN ceiling')
                if len(slots) > len(log['splits']):
                    ctx.fail(sigp + '|noise-ceiling-shape', done, '%d stored ceilings for %d observed splits' % (
                        len(slots), len(log['splits'])))
                    return
                # a stored NaN for an observed split: keep the order by dropping nothing and judging NaN below
                slots = [(i, c) for i in range(N) for c in range(comps)][:len(log['splits'])]
            for (i, c), rec in zip(slots, log['splits']):
                tl = rec['test_labels'] if setting['k_rdm'] > 1 else None
                pairs.append((flat[0, i, c], flat[1, i, c], rec, tl, 'resample %d component %d' % (i, c)))
        base = method
        for lo, up, rec, tl, where in pairs:
            want_lo, want_up, why = _resample_reference(base, rec, tl)
            if want_lo is None:
                ctx.exclude('resample: ' + str(why))
                continue
            ctx.dev('resample-lower/' + method, reldev(lo, want_lo))
            if not close(lo, want_lo, TOL):
                ctx.fail(sigp + '|stored-lower!=leave-one-group-out-of-the-resample', done,
                         '%s: stored lower bound %.12g, reference %.12g (%s); resample group labels %s; '
                         'data labels %s, rdm_descriptor=%r; data=%s' % (
                             where, lo, want_lo, 'cross-validated, test groups %s' % tl if tl else
                             'leave-one-group-out over the groups of the resample', rec['labels'], labels, desc,
                             full.tolist()))
                break
            if want_up is not None and method in REFD:
                ctx.dev('resample-upper/' + method, reldev(up, want_up))
                if not close(up, want_up, TOL):
                    ctx.fail(sigp + '|stored-upper!=score-of-pooled-rdm-of-the-resample', done,
                             '%s: stored upper bound %.12g, average similarity to the pooled RDM of the resample '
                             '%.12g; resample group labels %s; data=%s' % (where, up, want_up, rec['labels'],
                                                                            full.tolist()))
                    break


def _case_pool(case, ctx):
    """pool_rdm (util.inference_util = what the ceilings use; util.pooling = what the fitters use) against the
    reference pool: missing entries stay missing, the argument is unchanged, and the pooled RDM is worth what
    the reference pool is worth (plain mean itself for euclid / neg_riem_dist); unknown measures are refused"""
    import importlib
    method, mask, module = case['method'], case['mask'], case['module']
    pool = importlib.import_module('rsatoolbox.util.' + module).pool_rdm
    full = _data(case, ctx.seed)
    L = full.shape[1]
    stack = R.delete_entries(full.tolist(), mask)
    present = [k for k in range(L) if k not in set(mask)]
    sigp = 'pool_rdm|module=%s,method=%s,nan=%d' % (module, method, 1 if len(mask) else 0)
    rdms = _rdms(_masked(full, mask))
    if method == 'no-such-measure':
        try:
            pool(rdms, method=method)
        except ValueError:
            ctx.case(case)
            ctx.outcome('refused')
        else:
            ctx.case(case)
            ctx.fail(sigp + '|unknown-measure-accepted', case, 'pool_rdm returned a pooled RDM for method %r' % method)
        return
    plain_mean = method in ('euclid', 'neg_riem_dist')
    base = 'euclid' if plain_mean else (method if method in REFD else ('corr' if 'corr' in method else 'cosine'))
    if not _defined(base, stack):
        ctx.exclude(UNDEF)
        return
    ref_p = R.pooled(base, stack)
    want = None
    if ref_p is not None and not plain_mean:
        want = R.mean_sim(base, ref_p, stack)
    if ref_p is None or (want is None and not plain_mean):
        ctx.exclude('pool: pooled RDM of all data undefined (direction vanishes)')
        return
    with ctx.guard(sigp, case):
        with _Unchanged(ctx, 'pool_rdm|module=%s,method=%s' % (module, method), case, rdms=rdms):
            out = pool(rdms, method=method)
        vec = np.asarray(out.get_vectors(), dtype=float)
        ctx.case(case)
        if vec.shape != (1, L):
            ctx.fail(sigp + '|shape', case, 'pooled RDM has vectors of shape %r' % (vec.shape,))
            return
        vec = vec[0]
        if sorted(np.flatnonzero(np.isnan(vec)).tolist()) != sorted(mask):
            ctx.fail(sigp + '|missing-entries', case, 'pooled RDM is missing entries %s, the data %s; data=%s' % (
                np.flatnonzero(np.isnan(vec)).tolist(), sorted(mask), full.tolist()))
            return
        got_p = vec[present].tolist()
        ctx.outcome([round(v, 9) for v in got_p])
        if plain_mean:
            if not all(close(a, b, TOL) for a, b in zip(got_p, ref_p)):
                ctx.fail(sigp + '|pooled!=mean', case, 'pooled %s, mean of the data RDMs %s; data=%s' % (
                    got_p, ref_p, full.tolist()))
            return
        got = R.mean_sim(base, got_p, stack)
        if got is None or not close(got, want, TOL):
            ctx.fail(sigp + '|pooled-rdm-not-equivalent-to-reference-pool', case,
                     'pooled %s scores %r on the data (reference measure), the reference pool %s scores %.12g; '
                     'data=%s mask=%s' % (got_p, got, ref_p, want, full.tolist(), list(mask)))


@contextlib.contextmanager
def _record_pooling():
    """record every pooling call made by inference.noise_ceiling (harness-side attribute
    replacement; nothing in the tree is edited)"""
    import rsatoolbox.inference.noise_ceiling as nc
    orig = nc.pool_rdm
    calls = []

    def rec(*a, **k):
        out = orig(*a, **k)
        src = a[0] if a else k.get('rdms')
        try:
            rid = tuple(int(x) for x in src.rdm_descriptors['rid'])
        except Exception:
            rid = None
        calls.append((rid, fingerprint(np.array(out.get_vectors(), dtype=float))))
        return out
    nc.pool_rdm = rec
    try:
        yield calls
    finally:
        nc.pool_rdm = orig


def _public_predictions(x, labels, method):
    """{left-out rid tuple: (train rid tuple, fingerprint of pool_rdm(train))} via the public
    sets_leave_one_out_rdm + pool_rdm"""
    from rsatoolbox.inference.crossvalsets import sets_leave_one_out_rdm
    from rsatoolbox.util.inference_util import pool_rdm
    rdms = _rdms(x, labels)
    _, test_set, ceil_set = sets_leave_one_out_rdm(rdms, 'index' if labels is None else 'grp')
    out = {}
    for test, ceil in zip(test_set, ceil_set):
        left = tuple(sorted(int(r) for r in test[0].rdm_descriptors['rid']))
        train = tuple(sorted(int(r) for r in ceil[0].rdm_descriptors['rid']))
        out[left] = (train, fingerprint(np.array(pool_rdm(ceil[0], method=method).get_vectors(), dtype=float)))
    return out


def _recorded_predictions(x, labels, method):
    from rsatoolbox.inference import boot_noise_ceiling
    with _record_pooling() as calls:
        boot_noise_ceiling(_rdms(x, labels), method=method,
                           rdm_descriptor='index' if labels is None else 'grp')
    out = {}
    for rid, fp in calls:
        if rid is not None:
            out.setdefault(tuple(sorted(rid)), fp)
    return out


def _case_leak(case, ctx):
    """the prediction for a left-out group must not depend on that group's dissimilarities:
    perturb every entry of every RDM of the group (one at a time, and all at once) and require
    the pooled RDM of the remaining groups to be bit-identical"""
    method, mask, labels = case['method'], case['mask'], case['labels']
    full = _data(case, ctx.seed)
    n_rdm, L = full.shape
    stack = R.delete_entries(full.tolist(), mask)
    if not _defined(method, stack):
        ctx.exclude(UNDEF)
        return
    ref_labels = list(range(n_rdm)) if labels is None else list(labels)
    groups = R.groups_of(ref_labels)
    present = [k for k in range(L) if k not in set(mask)]
    cfg = _cfg(method, labels, n_rdm, mask)
    with ctx.guard('leave-one-group-out|' + cfg, case):
        x0 = _masked(full, mask)
        pub0 = _public_predictions(x0, labels, method)
        rec0 = {} if case.get('public_only') else _recorded_predictions(x0, labels, method)
        all_rids = set(range(n_rdm))
        for gi, (g, members) in enumerate(groups.items()):
            if gi % case.get('group_stride', 1):
                continue
            left = tuple(sorted(members))
            rest = tuple(sorted(all_rids - set(members)))
            sub = dict(case, group=list(left))
            if left not in pub0:
                ctx.fail('sets_leave_one_out_rdm|groups=%s|group-never-left-out' % _group_class(labels, n_rdm), sub,
                         'no fold leaves out exactly the RDMs %s (labels %s); folds leave out %s' % (
                             list(left), ref_labels, sorted(pub0)))
                continue
            if pub0[left][0] != rest:
                ctx.fail('sets_leave_one_out_rdm|groups=%s|training-set-is-not-the-remaining-groups' % _group_class(labels, n_rdm), sub,
                         'fold leaving out RDMs %s trains on RDMs %s, remaining groups are %s (labels %s)' % (
                             list(left), list(pub0[left][0]), list(rest), ref_labels))
            if rest not in rec0:
                ctx.count('recorder: boot_noise_ceiling made no pooling call on exactly the remaining groups')
            perturbations = [[(r, k) for r in members for k in present]]
            if case.get('each_entry', True):
                perturbations += [[(r, k)] for r in members for k in present]
            for pert in perturbations:
                moved = full.copy()
                for r, k in pert:
                    moved[r, k] = moved[r, k] * 1.5 + 1.0
                x1 = _masked(moved, mask)
                pub1 = _public_predictions(x1, labels, method)
                ctx.case(dict(sub, perturbed=[list(p) for p in pert]) if len(pert) == 1
                         else dict(sub, perturbed='all'))
                if pub1.get(left, (None, None))[1] != pub0[left][1]:
                    ctx.fail('pool_rdm|%s|prediction-depends-on-left-out-group' % cfg,
                             dict(sub, perturbed=[list(p) for p in pert]),
                             'pooled RDM of the folds training set changed when entries %s of the left-out '
                             'RDMs %s were changed; data=%s labels=%s' % (pert, list(left), full.tolist(), ref_labels))
                if rest in rec0:
                    rec1 = _recorded_predictions(x1, labels, method)
                    if rec1.get(rest) != rec0[rest]:
                        ctx.fail('boot_noise_ceiling|%s|prediction-depends-on-left-out-group' % cfg,
                                 dict(sub, perturbed=[list(p) for p in pert]),
                                 'the pooled RDM of RDMs %s used inside boot_noise_ceiling changed when entries %s '
                                 'of the left-out RDMs %s were changed; data=%s labels=%s' % (
                                     list(rest), pert, list(left), full.tolist(), ref_labels))
        ctx.outcome(sorted(pub0.items()))


# ------------------------------------------------------------------------------ cross-validation
def _shard_cv(shard, ctx):
    gen, n_rdm, n_cond = shard['gen'], shard['n_rdm'], shard['n_cond']
    thorough = ctx.tier == 'thorough'
    rdm_only = gen in ('loo_rdm', 'k_fold_rdm')
    L = n_cond * (n_cond - 1) // 2
    fill = {'n_rdm': n_rdm, 'L': L, 'key': shard['key'], 'style': shard['style']}
    masks = [[]]
    if rdm_only and n_cond == 4:
        masks = [[], [1], [0, 4]]
    partition_no = {rgs: i for i, rgs in enumerate(combi.set_partitions(n_rdm))}
    pattern_only = gen in ('k_fold_pattern', 'of_k_pattern')
    for rgs, tag, labels in _labelings(n_rdm, False):
        if partition_no[rgs] % shard['chunk'][1] != shard['chunk'][0]:
            continue
        n_groups = len(set(labels))
        if pattern_only and not (tag == 'desc' and partition_no[rgs] in (1, combi.BELL[n_rdm] - 1)):
            continue    # the rdm grouping plays no role for pattern-only sets: singletons + one grouping
        for mask in masks:
            for params, random in _cv_params(gen, n_groups, n_cond, thorough):
                if random and tag != 'desc' and n_groups > 1 and not (thorough and gen == 'k_fold_rdm'):
                    continue        # draws and label names are independent: one naming under draws
                methods = PLAIN + (WHITE if (gen == 'loo_rdm' and n_groups == n_rdm) or
                                   (pattern_only and not random) else [])
                for m in methods:
                    case = {'kind': 'cv', 'gen': gen, 'fill': fill, 'n_cond': n_cond, 'mask': mask,
                            'labels': labels, 'params': params, 'random': random, 'method': m}
                    if not random:
                        _cv_exec(case, Env([]), ctx)
                        if tag == 'desc' and not pattern_only and not len(mask):
                            # the same sets handed to crossval() (ceil_set branch of its noise ceiling)
                            _cv_exec(dict(case, via='crossval'), Env([]), ctx)
                        continue
                    rotating = m == PLAIN[(n_groups + len(params)) % 3]
                    first2 = (shard['key'], shard['style']) in ((0, 0), (0, 2))
                    if gen == 'k_fold_rdm':
                        bound = None            # every shuffle outcome (<= 4! = 24)
                    elif not thorough:
                        bound = 1 if rotating else 0    # deviations explored for one method per case
                    elif rotating:
                        bound = 2 if (n_rdm <= 3 and n_cond == 6 and first2) else 1
                    else:
                        bound = 1 if first2 else 0
                    stats = Stats()
                    for _env, _ in explore(lambda env: _cv_exec(case, env, ctx), bound=bound,
                                           max_exec=5000, stats=stats):
                        pass
                    if stats.capped:
                        ctx.count('cap_hit')
                    if gen == 'random' and rotating:
                        _cv_exec(dict(case, via='crossval'), Env([]), ctx)


def _cv_params(gen, n_groups, n_cond, thorough=True):
    """(params, random) for every admissible parameter of the generator"""
    out = []
    if gen == 'loo_rdm':
        if n_groups >= 2:
            out.append(({}, False))
    elif gen == 'k_fold_rdm':
        for k in range(2, n_groups + 1):
            out.append(({'k_rdm': k}, False))
            out.append(({'k_rdm': k}, True))
    elif gen == 'k_fold':
        for k in range(1, n_groups + 1):
            for kp in (1, 2):
                out.append(({'k_rdm': k, 'k_pattern': kp}, False))
                if k > 1:
                    out.append(({'k_rdm': k, 'k_pattern': kp}, True))
    elif gen == 'random':
        for nr in range(0, n_groups):
            for npat in ((0, 3, 4) if thorough else (0, 3)):
                out.append(({'n_rdm': nr, 'n_pattern': npat, 'n_cv': 2 if (thorough or npat) else 1}, True))
    elif gen == 'loo_pattern':
        out.append(({'cgrp': [0, 0, 0, 1, 1, 1, 1][:n_cond] if n_cond == 7 else [5, 3, 5, 3, 3, 5]}, False))
        out.append(({'cgrp': (['b', 'a', 'a', 'b', 'a', 'b', 'b'])[:n_cond]}, False))
    elif gen == 'k_fold_pattern':
        if n_cond == 12:
            # folds over six condition groups of two (grouping pattern descriptor, scrambled order)
            for k in (2, 3):
                out.append(({'k': k, 'cgrp': [4, 1, 5, 0, 1, 3, 2, 4, 0, 5, 3, 2]}, False))
            return out
        for k in (1, 2, 3, 4):
            if k > 1 and n_cond < 3 * k:
                continue        # crossval skips folds with < 3 conditions
            if k == 4 and not thorough:
                continue
            out.append(({'k': k}, False))
            if k > 1:
                out.append(({'k': k}, True))
    elif gen == 'of_k_pattern':
        if n_cond == 12:
            return out
        for size in (3, 4, 5):
            if n_cond // size >= 2:
                out.append(({'size': size}, False))
                if size == 3:
                    out.append(({'size': size}, True))
    return out


def _crossval(case, ctx, rdms, train_set, test_set, ceil_set, method, pdesc):
    """Result.noise_ceiling of the real crossval() for one fixed model on the given sets"""
    from rsatoolbox.inference import crossval
    model = _fixed_model(rdms, case['n_cond'], ctx.seed)
    with _Unchanged(ctx, 'crossval|method=%s' % method, case, rdms=rdms, train_set=train_set,
                    test_set=test_set, ceil_set=ceil_set, models=model):
        res = crossval(model, rdms, train_set, test_set, ceil_set=ceil_set, method=method,
                       pattern_descriptor=pdesc)
    return res.noise_ceiling


def _cv_exec(case, env, ctx):
    """one execution: build the sets with the real generator (random draws answered by env),
    run cv_noise_ceiling (or, for ceil_set None, what crossval does instead) and judge"""
    from rsatoolbox.inference import cv_noise_ceiling
    from rsatoolbox.inference import crossvalsets as cvs
    gen, method, labels, mask = case['gen'], case['method'], case['labels'], case['mask']
    params, n_cond = case['params'], case['n_cond']
    full = _data(case, ctx.seed)
    n_rdm = full.shape[0]
    sigp = 'cv_noise_ceiling|gen=%s,method=%s,nan=%d' % (gen, method, 1 if len(mask) else 0)
    pdesc = 'index'
    with ctx.guard(sigp, _Replayable(case, env)):
        rdms = _rdms(_masked(full, mask), labels, n_cond, params.get('cgrp'))
        if case.get('inplace') == 'reorder':
            rdms.reorder(np.array(_scrambled(n_cond)))          # permutes every pattern descriptor, 'index' too
        elif case.get('inplace') == 'sort_by':
            rdms.sort_by(reindex=False, cname='alpha')
        pdesc = case.get('pdesc', 'index')
        with installed(RngEnv(env)):
            if gen == 'loo_rdm':
                train_set, test_set, ceil_set = cvs.sets_leave_one_out_rdm(rdms, 'grp')
            elif gen == 'k_fold_rdm':
                train_set, test_set, ceil_set = cvs.sets_k_fold_rdm(
                    rdms, k_rdm=params['k_rdm'], random=case['random'], rdm_descriptor='grp')
            elif gen == 'k_fold':
                train_set, test_set, ceil_set = cvs.sets_k_fold(
                    rdms, k_rdm=params['k_rdm'], k_pattern=params['k_pattern'], random=case['random'],
                    pattern_descriptor=pdesc, rdm_descriptor='grp')
            elif gen == 'random':
                train_set, test_set, ceil_set = cvs.sets_random(
                    rdms, n_rdm=params['n_rdm'], n_pattern=params['n_pattern'], n_cv=params['n_cv'],
                    pattern_descriptor=pdesc, rdm_descriptor='grp')
            elif gen == 'loo_pattern':
                pdesc = 'cgrp'
                train_set, test_set, ceil_set = cvs.sets_leave_one_out_pattern(rdms, 'cgrp')
            elif gen == 'k_fold_pattern':
                if 'cgrp' in params:
                    pdesc = 'cgrp'
                train_set, test_set, ceil_set = cvs.sets_k_fold_pattern(
                    rdms, pattern_descriptor=pdesc, k=params['k'], random=case['random'])
            elif gen == 'of_k_pattern':
                train_set, test_set, ceil_set = cvs.sets_of_k_pattern(
                    rdms, pattern_descriptor=pdesc, k=params['size'], random=case['random'])
            else:
                raise ValueError(gen)
        done = dict(case, choices=list(env.choices))
        # which RDMs / conditions does every fold hold (self-describing descriptors)
        folds = []
        for tr, te in zip(train_set, test_set):
            folds.append(([int(r) for r in tr[0].rdm_descriptors['rid']],
                          [int(r) for r in te[0].rdm_descriptors['rid']],
                          [int(c) for c in te[0].pattern_descriptors['cid']]))
        if ceil_set is not None:
            # RDM-level cross-validation: no rdm group of a fold's test set may be in its training /
            # ceiling set, and the reference prediction uses the REMAINING groups only
            grp_of = dict(enumerate(labels))
            everyone = set(range(n_rdm))
            ref_folds = []
            for i, (tr, te, conds) in enumerate(folds):
                if set(te) == everyone:     # no cross-validation over RDMs in this fold
                    ref_folds.append((sorted(everyone), te, conds))
                    continue
                ce = [int(r) for r in ceil_set[i][0].rdm_descriptors['rid']]
                tg = set(grp_of[r] for r in te)
                for name, ids in (('training', tr), ('ceiling', ce)):
                    both = sorted(str(g) for g in tg & set(grp_of[r] for r in ids))
                    if both:
                        ctx.fail('sets|gen=%s|test-group-in-%s-set' % (gen, name), done,
                                 'fold %d: rdm groups %s are in the test set (RDMs %s) and in the %s set (RDMs %s); '
                                 'labels=%s params=%s' % (i, both, te, name, ids, labels, params))
                ref_folds.append((sorted(r for r in everyone if grp_of[r] not in tg), te, conds))
            folds = ref_folds
        via = 'crossval' if (ceil_set is None or case.get('via') == 'crossval') else 'direct'
        if via == 'crossval':
            sigp = 'crossval|gen=%s,method=%s,ceil_set=%s' % (gen, method, 'none' if ceil_set is None else 'given')
        if ceil_set is None:
            # pattern-only sets: crossval() reports per fold the leave-one-RDM-out ceiling of the
            # complete data at the fold's TEST conditions
            wants = []
            for tr, te, conds in folds:
                sub = [R.restrict(v, n_cond, conds) for v in full.tolist()]
                if len(sub[0]) < 3 or not _defined(method, sub):
                    ctx.exclude('cv: ' + UNDEF)
                    return
                base = method if method in REFD else ('corr' if 'corr' in method else 'cosine')
                want_lo, info = R.lower_bound(base, sub)
                want_up = R.upper_bound(base, sub)
                if want_lo is None or want_up is None:
                    ctx.exclude('cv lower bound: ' + str(info if want_lo is None else 'pooled RDM undefined'))
                    return
                wants.append((want_lo, want_up))
            nc = np.asarray(_crossval(case, ctx, rdms, train_set, test_set, None, method, pdesc), dtype=float)
            ctx.case(done)
            ctx.outcome(np.round(nc, 9))
            if nc.shape != (2, len(folds)):
                ctx.fail(sigp + '|noise-ceiling-shape', done, 'Result.noise_ceiling has shape %r for %d folds' % (
                    nc.shape, len(folds)))
                return
            for i, (want_lo, want_up) in enumerate(wants):
                lo, up = float(nc[0, i]), float(nc[1, i])
                if method in REFD:
                    ctx.dev('cv-lower/' + method, reldev(lo, want_lo))
                    ctx.dev('cv-upper/' + method, reldev(up, want_up))
                    if not close(lo, want_lo, TOL):
                        ctx.fail(sigp + '|fold-lower!=leave-one-rdm-out-at-test-conditions', done,
                                 'fold %d (test conditions %s): lower %.12g, leave-one-RDM-out reference at the test '
                                 'conditions %.12g; all folds: %s; data=%s' % (
                                     i, folds[i][2], lo, want_lo, nc.tolist(), full.tolist()))
                        break
                    if not close(up, want_up, TOL):
                        ctx.fail(sigp + '|fold-upper!=best-achievable-at-test-conditions', done,
                                 'fold %d (test conditions %s): upper %.12g, highest achievable average similarity at '
                                 'the test conditions %.12g; all folds: %s; data=%s' % (
                                     i, folds[i][2], up, want_up, nc.tolist(), full.tolist()))
                        break
                if method in ORDER and (np.isnan(lo) or np.isnan(up) or
                                        lo > up + (TOL_CG if method in WHITE else TOL)):
                    ctx.fail(sigp + '|lower>upper', done, 'fold %d: lower %.12g upper %.12g; data=%s' % (
                        i, lo, up, full.tolist()))
                    break
            return
        want, info = R.cv_lower(method if method in REFD else ('corr' if 'corr' in method else 'cosine'),
                                full.tolist(), n_cond, folds, mask)
        if want is None:
            ctx.exclude('cv lower bound: ' + str(info))
            return
        if via == 'crossval':
            nc = np.asarray(_crossval(case, ctx, rdms, train_set, test_set, ceil_set, method, pdesc), dtype=float)
            if nc.shape != (2,):
                ctx.case(done)
                ctx.fail(sigp + '|noise-ceiling-shape', done, 'Result.noise_ceiling has shape %r' % (nc.shape,))
                return
            lo, up = nc
        else:
            with _Unchanged(ctx, 'cv_noise_ceiling|method=%s' % method, done, rdms=rdms, ceil_set=ceil_set,
                            test_set=test_set):
                lo, up = cv_noise_ceiling(rdms, ceil_set, test_set, method=method, pattern_descriptor=pdesc)
        lo, up = float(lo), float(up)
        ctx.case(done)
        ctx.outcome((round(lo, 9), round(up, 9)))
        if method in REFD:
            ctx.dev('cv-lower/' + method, reldev(lo, want))
            if not close(lo, want, TOL):
                ctx.fail(sigp + '|lower!=train-pool-at-test-conditions', done,
                         'lower bound %.12g, mean over folds of sim(test RDMs, pooled RDM of the remaining rdm groups '
                         'at the test conditions) %.12g; data=%s labels=%s folds(remaining,test,conds)=%s' % (
                             lo, want, full.tolist(), labels, folds))
            if case.get('per_fold') and via == 'direct':
                # every fold on its own: cv_noise_ceiling on the one-fold lists
                for i in range(len(folds)):
                    lo_i, _ = cv_noise_ceiling(rdms, [ceil_set[i]], [test_set[i]], method=method,
                                               pattern_descriptor=pdesc)
                    ctx.case(dict(done, fold=i))
                    if not close(lo_i, info[i], TOL):
                        ctx.fail(sigp + '|fold-lower!=remaining-groups-pool-at-test-conditions', dict(done, fold=i),
                                 'fold %d: lower bound %.12g, sim(test RDMs %s, pooled RDM of the remaining RDMs %s at '
                                 'conditions %s) %.12g; labels=%s data=%s' % (
                                     i, lo_i, folds[i][1], folds[i][0], folds[i][2], info[i], labels, full.tolist()))
                        break
        if gen == 'loo_rdm' and len(set(labels)) == n_rdm and method in ORDER:
            base = method if method in PLAIN else ('corr' if 'corr' in method else 'cosine')
            if R.upper_bound(base, R.delete_entries(full.tolist(), mask)) is None:
                ctx.exclude('ordering: a pooled RDM is undefined (direction vanishes)')
            elif np.isnan(lo) or np.isnan(up) or lo > up + (TOL_CG if method in WHITE else TOL):
                ctx.fail(sigp + '|lower>upper', done, 'lower %.12g upper %.12g; data=%s' % (lo, up, full.tolist()))
