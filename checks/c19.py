"""C19 - searchlights hold exactly the voxels in radius; RDMs match direct computation (DESIGN 4/C19)

E: every binary mask of every small volume shape x radii x thresholds x every centre against a
brute-force geometric oracle; searchlight RDMs on both sides of the chunking limit against direct
computation.  C: evaluate_models_searchlight under EVERY completion order of the queued joblib
tasks (virtual backend, mc/vjoblib.py) for n_jobs in {1,2,3}.
"""
import copy
import itertools
import math

import numpy as np

from mc import choice, vjoblib
from mc.util import rng_for, fingerprint

PROPERTY = 'C19'
LEVEL = 'model_checking'
RULE = ('(a) every binary mask of every volume shape with <= 8 (thorough 12) voxels and structured masks of 4x4x4 / '
        '5x5x5, x radius in {1,1.5,2,2.5,3} x threshold in {0.5,0.75,1} x every centre, real '
        'get_volume_searchlight / _get_searchlight_neighbors against brute force, every mask also Fortran-ordered, as a '
        'strided view, as uint8 / float 0-1 array and as nested list (indices must address the C-order flattened '
        'volume); (b) get_searchlight_RDMs for '
        'n_centres in {1,5,999,1000,1001,1100} x methods x event vectors; (c) evaluate_models_searchlight on 1-4 '
        '(thorough 5) centres under every completion order of the virtual joblib backend for n_jobs in {1,2,3} '
        '(states/transitions = nodes/edges of the schedule tree). One evaluation = one judged library call; '
        'non-trivial = mask with at least one voxel / more than one schedule; distinct = distinct (shape, mask, '
        'radius, threshold) or (case, schedule).')
ASSUMPTIONS = ['worker processes (pickling, memory) are outside the virtual-backend model; one free-running loky run is '
               'a conformance run only',
               'conditions of a searchlight RDM are in sorted order of the distinct event labels (the RDMs object '
               'carries no pattern descriptor)']
BOUNDS = {'quick': {'max_voxels_exhaustive': 8, 'schedule_tasks': '1..4'},
          'thorough': {'max_voxels_exhaustive': 12, 'schedule_tasks': '1..5'}}
RADII = [1, 1.5, 2, 2.5, 3]
THRESH = [0.5, 0.75, 1.0]


def _shapes(tier):
    out = [(1, 1, 1), (2, 1, 1), (1, 1, 3), (2, 2, 1), (1, 2, 3), (2, 2, 2), (1, 2, 4), (1, 1, 8)]
    if tier == 'thorough':
        out += [(3, 3, 1), (2, 5, 1), (2, 2, 3), (1, 3, 4), (3, 2, 2)]
    return out


def shards(tier, seed):
    out = []
    for sh in _shapes(tier):
        n = sh[0] * sh[1] * sh[2]
        nm = 2 ** n
        step = 256 if n > 8 else nm
        for lo in range(0, nm, step):
            out.append({'kind': 'masks', 'shape': list(sh), 'range': [lo, min(nm, lo + step)]})
    for size in (4, 5):
        for struct in ('full', 'shell', 'half', 'checker'):
            out.append({'kind': 'structured', 'size': size, 'struct': struct})
    for n_centres in (1, 5, 999, 1000, 1001, 1100):
        for method in ('euclidean', 'correlation'):
            for ev in ('ints-unbalanced', 'strings', 'two-conds'):
                if n_centres > 5 and ev != 'ints-unbalanced' and method == 'correlation':
                    continue
                out.append({'kind': 'rdms', 'n_centres': n_centres, 'method': method, 'events': ev})
    # centre lists in the caller's own order (rotated, scrambled), below and above the chunking limit, and
    # designs with one observation per condition whose labels are not in ascending order
    for method in ('euclidean', 'correlation'):
        for n_centres in (5, 1001):
            for order in ('rotated', 'scrambled'):
                out.append({'kind': 'rdms', 'n_centres': n_centres, 'method': method, 'events': 'ints-unbalanced',
                            'centre_order': order})
            for ev in ('distinct-unsorted', 'distinct-strings'):
                out.append({'kind': 'rdms', 'n_centres': n_centres, 'method': method, 'events': ev})
    for method in ('euclidean', 'correlation'):
        for n_centres in (5, 1001):
            out.append({'kind': 'rdms', 'n_centres': n_centres, 'method': method, 'events': 'ints-unbalanced',
                        'zero_cols': True})
    # data in other units (volts, raw scanner units) and six-digit condition codes
    for method in ('euclidean', 'correlation'):
        for n_centres in (5, 1001):
            for scale in (1e-5, 1e4):
                out.append({'kind': 'rdms', 'n_centres': n_centres, 'method': method, 'events': 'ints-unbalanced',
                            'scale': scale})
            out.append({'kind': 'rdms', 'n_centres': n_centres, 'method': method, 'events': 'big-ids'})
    # integer / float32 typed data and further label kinds, below and above the chunking limit
    for method in ('euclidean', 'correlation'):
        for n_centres in (5, 1001):
            for dt in ('int64', 'int16', 'float32'):
                out.append({'kind': 'rdms', 'n_centres': n_centres, 'method': method, 'events': 'ints-unbalanced',
                            'dtype': dt})
            for ev in ('mixed-case', 'floats'):
                out.append({'kind': 'rdms', 'n_centres': n_centres, 'method': method, 'events': ev})
    for n_tasks in ([1, 2, 3, 4] + ([5] if tier == 'thorough' else [])):
        for n_jobs in (1, 2, 3):
            out.append({'kind': 'schedules', 'n_tasks': n_tasks, 'n_jobs': n_jobs})
    out.append({'kind': 'loky'})
    return out


# ----------------------------------------------------------------------------- geometry oracle
def brute_neighbors(shape, center, radius):
    out = set()
    for x in range(shape[0]):
        for y in range(shape[1]):
            for z in range(shape[2]):
                d2 = (x - center[0]) ** 2 + (y - center[1]) ** 2 + (z - center[2]) ** 2
                if math.sqrt(d2) < radius:
                    out.add((x, y, z))
    return out


def lin(shape, v):
    return (v[0] * shape[1] + v[1]) * shape[2] + v[2]


LAYOUTS = ['fortran', 'strided-view', 'uint8', 'float01', 'nested-list']


def _as_layout(mask, layout):
    """the same binary mask as the caller may hold it: Fortran-ordered (what NIfTI readers return), a strided
    view into a larger array, other dtypes, a nested list. The returned linear indices address the C-order
    flattened volume (the columns of data.reshape(n_obs, -1)) whatever the memory layout."""
    if layout == 'fortran':
        return np.asfortranarray(mask)
    if layout == 'strided-view':
        big = np.zeros(tuple(2 * s + 1 for s in mask.shape), dtype=mask.dtype)
        big[1::2, 1::2, 1::2] = mask
        return big[1::2, 1::2, 1::2]
    if layout == 'uint8':
        return mask.astype(np.uint8)
    if layout == 'float01':
        return np.asfortranarray(mask.astype(float))
    if layout == 'nested-list':
        return mask.astype(int).tolist()
    return mask


def judge_volume(ctx, case, mask, radius, threshold, layout=None):
    from rsatoolbox.util.searchlight import get_volume_searchlight
    shape = mask.shape
    sig = 'get_volume_searchlight' + ('|layout=%s' % layout if layout else '')
    given = _as_layout(mask, layout)
    want_centers, want_nb = [], []
    for c in zip(*np.nonzero(mask)):
        c = tuple(int(v) for v in c)
        nb = brute_neighbors(shape, c, radius)
        frac = sum(1 for v in nb if mask[v]) / len(nb)
        if frac >= threshold:
            want_centers.append(lin(shape, c))
            want_nb.append(sorted(lin(shape, v) for v in nb))
    klass = 'no-centre-qualifies' if not want_centers else 'some-centres'
    with ctx.guard('%s|%s' % (sig, klass), case):
        mask_before = copy.deepcopy(given)
        centers, neighbors = get_volume_searchlight(given, radius=radius, threshold=threshold)
        if isinstance(given, list):
            changed = given != mask_before
        else:
            changed = not np.array_equal(given, mask_before) or given.dtype != mask_before.dtype
        if changed:
            ctx.fail(sig + '|modifies-argument', case, 'the mask was changed by the call')
        centers = [int(v) for v in np.asarray(centers).ravel()]
        if centers != want_centers:
            ctx.fail(sig + '|accepted-centres', case, 'centres %r, brute force %r' % (centers, want_centers))
            return
        if len(neighbors) != len(want_nb):
            ctx.fail(sig + '|neighbour-lists', case, '%d neighbour lists for %d centres' % (len(neighbors), len(want_nb)))
            return
        for i, (nb, wnb) in enumerate(zip(neighbors, want_nb)):
            got = sorted(int(v) for v in np.asarray(nb).ravel())
            if got != wnb:
                ctx.fail(sig + '|searchlight-membership', case,
                         'centre %d: voxels %r, in-volume voxels strictly within radius %r' % (centers[i], got, wnb))
                return
        ctx.outcome((len(centers), sum(len(n) for n in want_nb)))


def judge_neighbors_all(ctx, case, shape, radius):
    """the single-searchlight helper for EVERY voxel of the volume as centre"""
    from rsatoolbox.util.searchlight import _get_searchlight_neighbors
    mask = np.ones(shape, dtype=bool)
    for c in itertools.product(*[range(s) for s in shape]):
        with ctx.guard('_get_searchlight_neighbors', case):
            nb = _get_searchlight_neighbors(mask, c, radius)
            got = set(zip(*[list(map(int, a)) for a in nb])) if len(nb) and len(nb[0]) else set()
            want = brute_neighbors(shape, c, radius)
            if got != want:
                ctx.fail('_get_searchlight_neighbors|searchlight-membership', dict(case, centre=list(c)),
                         'voxels %r, brute force %r' % (sorted(got), sorted(want)))


def _mask_from_index(shape, k):
    n = shape[0] * shape[1] * shape[2]
    bits = [(k >> i) & 1 for i in range(n)]
    return np.array(bits, dtype=bool).reshape(shape)


def _structured(size, struct):
    m = np.zeros((size, size, size), dtype=bool)
    idx = np.indices(m.shape)
    if struct == 'full':
        m[:] = True
    elif struct == 'shell':
        m[:] = True
        m[1:-1, 1:-1, 1:-1] = False
    elif struct == 'half':
        m[: size // 2 + 1] = True
    else:
        m[(idx[0] + idx[1] + idx[2]) % 2 == 0] = True
    return m


# ----------------------------------------------------------------------------- RDM oracle
def ref_rdm(cols, events, method):
    labels = sorted(set(events), key=lambda v: (str(type(v)), v))
    means = []
    for lab in labels:
        rows = [cols[i] for i in range(len(events)) if events[i] == lab]
        means.append([sum(r[j] for r in rows) / len(rows) for j in range(len(cols[0]))])
    out = []
    P = len(cols[0])
    for a in range(len(labels)):
        for b in range(a + 1, len(labels)):
            x, y = means[a], means[b]
            if method == 'euclidean':
                out.append(sum((p - q) ** 2 for p, q in zip(x, y)) / P)
            else:
                mx, my = sum(x) / P, sum(y) / P
                xc, yc = [p - mx for p in x], [q - my for q in y]
                den = math.sqrt(sum(p * p for p in xc) * sum(q * q for q in yc))
                out.append(1 - sum(p * q for p, q in zip(xc, yc)) / den)
    return out


def judge_rdms(ctx, case, seed):
    from rsatoolbox.util.searchlight import get_searchlight_RDMs
    from rsatoolbox.data import Dataset
    from rsatoolbox.rdm import calc_rdm
    n_centres, method = case['n_centres'], case['method']
    events = {'ints-unbalanced': [3, 1, 2, 1, 3, 3, 2], 'strings': ['b', 'a', 'c', 'a', 'b', 'c', 'a'],
              'two-conds': [1, 0, 1, 0, 0, 1, 1],
              'big-ids': [100003, 100001, 100002, 100001, 100003, 100003, 100002],
              'distinct-unsorted': [3, 1, 5, 2, 4, 7, 6],
              'distinct-strings': ['d', 'b', 'f', 'a', 'c', 'g', 'e'],
              # condition names with mixed capitalisation: the sorted order of the labels is the code-point order
              'mixed-case': ['face', 'House', 'body', 'Tool', 'House', 'face', 'Animal'],
              'floats': [0.5, -1.0, 2.25, -1.0, 0.5, 0.0, 2.25]}[case['events']]
    scale = float(case.get('scale', 1.0))
    n_obs = len(events)
    V = max(n_centres + 10, 40)
    g = rng_for(seed, 'c19data', n_centres)
    data = (np.round(g.normal(size=(n_obs, V)), 3) + np.arange(V)[None, :] * 0.01) * scale
    unit = scale ** 2 if method == 'euclidean' else 1.0      # size of a typical dissimilarity
    if case.get('dtype'):
        # integer-typed volumes (counts, raw scanner units): results are float dissimilarities all the same
        data = np.round(data * 10).astype(case['dtype'])
        unit = (100.0 if method == 'euclidean' else 1.0) * unit
    if case.get('zero_cols'):
        # masked data: voxels outside the brain are exactly zero in every observation; they are voxels of
        # the searchlight all the same (they enter the channel count and the pattern mean)
        data[:, ::3] = 0.0
    centers = np.array([(7 * i + 3) % V for i in range(n_centres)]) if n_centres <= V else np.arange(n_centres)
    centers = np.arange(n_centres) + 2
    V = max(V, n_centres + 10)
    if case.get('centre_order') == 'rotated':
        centers = np.roll(centers, 7 % max(1, n_centres))
    elif case.get('centre_order') == 'scrambled':
        step = next(k for k in (7, 11, 13, 17) if math.gcd(k, n_centres) == 1)
        centers = centers[(np.arange(n_centres) * step + 3) % n_centres]
    neighbors = [np.array([c, (c + 1) % V, (c + 5) % V, (c * 3 + 1) % V]) for c in centers]
    neighbors = [np.array(sorted(set(nb.tolist()))) for nb in neighbors]
    sig = 'get_searchlight_RDMs|%s' % ('chunked' if n_centres > 1000 else 'unchunked')
    with ctx.guard(sig, case):
        ev_arr = np.array(events)
        before = fingerprint([data, centers, neighbors, ev_arr])
        sl = get_searchlight_RDMs(data, centers, neighbors, ev_arr, method=method, verbose=False)
        if fingerprint([data, centers, neighbors, ev_arr]) != before:
            ctx.fail(sig + '|modifies-argument', case, 'data / centres / neighbours / events changed by the call')
        if sl.n_rdm != n_centres:
            ctx.fail(sig + '|one-rdm-per-centre', case, '%d RDMs for %d centres' % (sl.n_rdm, n_centres))
            return
        vi = [int(v) for v in sl.rdm_descriptors['voxel_index']]
        if vi != [int(c) for c in centers]:
            ctx.fail(sig + '|centre-order', case, 'voxel_index descriptor differs from the centres given')
        probe = range(n_centres) if n_centres <= 5 else sorted(set(
            list(range(0, 12)) + list(range(n_centres - 12, n_centres)) + list(range(0, n_centres, 37))))
        for i in probe:
            cols = data[:, neighbors[i]]
            want = ref_rdm(cols.tolist(), events, method)
            got = sl.dissimilarities[i]
            rtol = 1e-5 if case.get('dtype') == 'float32' else 1e-9      # float32 volumes: single-precision arithmetic
            if len(got) != len(want) or any(not abs(a - b) <= rtol * max(unit, abs(b)) for a, b in zip(got, want)):
                ctx.fail(sig + '|value-mismatch', dict(case, centre_no=i),
                         'RDM %d: %r, direct computation on its columns %r' % (i, list(np.round(got, 6)), list(np.round(want, 6))))
                break
            direct = calc_rdm(Dataset(cols, obs_descriptors={'events': np.array(events)}), method=method,
                              descriptor='events').dissimilarities[0]
            if not np.allclose(direct, got, rtol=1e-12 if rtol == 1e-9 else 1e-5, atol=1e-12 * unit):
                ctx.fail(sig + '|differs-from-calc_rdm', dict(case, centre_no=i), '%r vs %r' % (got, direct))
                break
        ctx.outcome(tuple(np.round(sl.dissimilarities[0], 6)))


# ----------------------------------------------------------------------------- schedules
def _sl_rdms(n, seed):
    from rsatoolbox.rdm import RDMs
    g = rng_for(seed, 'c19sl', n)
    # centres deliberately NOT in ascending voxel order (a user-chosen / permuted centre list)
    vox = [12, 10, 13, 11, 9, 14][:n]
    return RDMs(np.round(g.uniform(0.5, 3, size=(n, 6)), 3), rdm_descriptors={'voxel_index': vox})


def _models(seed):
    from rsatoolbox.model import ModelFixed
    g = rng_for(seed, 'c19m')
    return [ModelFixed('a', np.round(g.uniform(0.5, 3, size=6), 3)), ModelFixed('b', np.round(g.uniform(0.5, 3, size=6), 3))]


def judge_schedules(ctx, case, seed):
    from rsatoolbox.util.searchlight import evaluate_models_searchlight
    from rsatoolbox.inference import eval_fixed
    n, n_jobs = case['n_tasks'], case['n_jobs']
    sl = _sl_rdms(n, seed)
    models = _models(seed)
    want = [np.asarray(eval_fixed(models, x, method='corr').evaluations) for x in sl]
    stats = choice.Stats()
    orders = set()

    def run(env):
        with vjoblib.scheduled(env) as sch:
            res = evaluate_models_searchlight(sl, models, eval_fixed, method='corr', n_jobs=n_jobs)
        return res, list(sch.completion_order)
    sig = 'evaluate_models_searchlight|n_jobs=%s' % ('1' if n_jobs == 1 else '>1')
    for env, (res, order) in choice.explore(run, stats=stats, max_exec=2000):
        sub = dict(case, schedule=order, choices=env.choices)
        ctx.case(sub, nontrivial=len(order) > 1)
        orders.add(tuple(order))
        if len(res) != n:
            ctx.fail(sig + '|one-result-per-centre', sub, '%d results for %d centres' % (len(res), n))
            continue
        for i, r in enumerate(res):
            if not np.array_equal(np.asarray(r.evaluations), want[i]):
                ctx.fail(sig + '|result-order', sub, 'result %d is not the evaluation of centre %d under completion order %r' % (i, i, order))
                break
    ctx.states += stats.states
    ctx.transitions += stats.transitions
    ctx.outcome((n, n_jobs, len(orders)))
    if stats.capped:
        ctx.count('cap_hit')
    ctx.count('schedules', len(orders))


def judge_loky(ctx, case, seed):
    """conformance only: one free-running run with real worker processes"""
    from rsatoolbox.util.searchlight import evaluate_models_searchlight
    from rsatoolbox.inference import eval_fixed
    sl = _sl_rdms(4, seed)
    models = _models(seed)
    want = [np.asarray(eval_fixed(models, x, method='corr').evaluations) for x in sl]
    ctx.case(case)
    with ctx.guard('evaluate_models_searchlight|loky', case):
        res = evaluate_models_searchlight(sl, models, eval_fixed, method='corr', n_jobs=2)
        if len(res) != 4 or any(not np.array_equal(np.asarray(r.evaluations), w) for r, w in zip(res, want)):
            ctx.fail('evaluate_models_searchlight|loky|result-order', case, 'free-running n_jobs=2 run differs from sequential')


# ----------------------------------------------------------------------------- dispatch
def run_shard(shard, ctx):
    run_case(shard, ctx)


def run_case(case, ctx):
    kind = case['kind']
    if kind == 'masks':
        shape = tuple(case['shape'])
        lo, hi = case['range']
        if 'mask_index' in case:
            lo, hi = case['mask_index'], case['mask_index'] + 1
        for k in range(lo, hi):
            mask = _mask_from_index(shape, k)
            for radius in RADII:
                for th in THRESH:
                    sub = {'kind': 'masks', 'shape': list(shape), 'range': [k, k + 1], 'mask_index': k,
                           'radius': radius, 'threshold': th}
                    if 'radius' in case and (case['radius'], case['threshold']) != (radius, th):
                        continue
                    if 'layout' in case:
                        continue
                    ctx.case(sub, nontrivial=k > 0)
                    judge_volume(ctx, sub, mask, radius, th)
            # the same mask in the other memory layouts / containers a caller may hold it in: one (radius,
            # threshold) pair per layout, rotating with the mask number so that every pair meets every layout
            for j, layout in enumerate(LAYOUTS):
                radius, th = RADII[(k + j) % len(RADII)], THRESH[(k + 2 * j) % len(THRESH)]
                if 'layout' in case and case['layout'] != layout:
                    continue
                if 'radius' in case and 'layout' not in case:
                    continue
                sub = {'kind': 'masks', 'shape': list(shape), 'range': [k, k + 1], 'mask_index': k,
                       'radius': radius, 'threshold': th, 'layout': layout}
                ctx.case(sub, nontrivial=k > 0)
                judge_volume(ctx, sub, mask, radius, th, layout)
        if lo == 0:
            for radius in RADII:
                sub = {'kind': 'masks', 'shape': list(shape), 'range': [0, 1], 'helper': True, 'radius': radius}
                ctx.case(sub)
                judge_neighbors_all(ctx, sub, shape, radius)
    elif kind == 'structured':
        mask = _structured(case['size'], case['struct'])
        for radius in RADII:
            for th in THRESH:
                if 'layout' in case:
                    if (case['radius'], case['threshold']) == (radius, th):
                        judge_volume(ctx, case, mask, radius, th, case['layout'])
                    continue
                sub = dict(case, radius=radius, threshold=th)
                ctx.case(sub)
                judge_volume(ctx, sub, mask, radius, th)
                for layout in LAYOUTS:
                    subl = dict(sub, layout=layout)
                    ctx.case(subl)
                    judge_volume(ctx, subl, mask, radius, th, layout)
        if case['struct'] == 'full':
            for radius in RADII:
                judge_neighbors_all(ctx, dict(case, helper=True, radius=radius), mask.shape, radius)
    elif kind == 'rdms':
        ctx.case(case)
        judge_rdms(ctx, case, ctx.seed)
    elif kind == 'schedules':
        judge_schedules(ctx, case, ctx.seed)
    elif kind == 'loky':
        judge_loky(ctx, case, ctx.seed)
    else:
        raise ValueError(kind)
