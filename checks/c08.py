"""C08 - fitted model parameters maximise the training criterion within constraints (DESIGN 4/C08)

Enumerates small fitting problems (basis sets of 2-3 RDMs, 4-5 conditions, stacks of 1-3
training RDMs, common missing entries, EVERY bootstrap index vector for 4 conditions, every
method / sigma_k form / normalisation switch / fitter), runs the real fitters and judges the
returned parameters against the reference model mc/ref/c08_ref.py:

  * score(theta_hat) >= score(competitor) - tol for every competitor (all sign vectors, local
    steps, the independently computed closed-form / brute-force optimum, grid mixtures, every
    selection candidate),
  * constraints (non-negativity, convex + adjacent, valid index, unit norm),
  * theta_hat bit-identical when any entry of an UNSELECTED condition is changed,
  * theta_hat independent of the order of the index vector,
  * model laws: predict == vector form of predict_rdm, linear in theta, equals basis' theta,
    pattern descriptors carried, dictionary round trip predicts identically.

The optimiser-based fitters draw their start vectors with np.random.rand: the draw is
intercepted (mc.rngenv) and answered from a finite menu; every menu entry is explored at every
call site and each resulting execution must reach the optimum.
"""
import contextlib
import itertools
import math
import signal

import numpy as np

from mc import choice
from mc.ref import c08_ref as ref
from mc.rngenv import RngEnv, installed
from mc.util import rng_for, spd, allclose, maxreldev

PROPERTY = 'C08'
LEVEL = 'exploration'
RULE = ('A case = (model class, fitter, basis size k, n_cond, training stack size, value fill, '
        'common missing-entry mask, pattern descriptor, pattern index vector or None, method, '
        'sigma_k form, normalise switch, start-vector menu entry). Index vectors: every vector in '
        'range(4)^4 (quick: >=3 distinct values and <=2 deviations from identity); one vector per '
        'multiset (the descending one, so the library must sort) is judged against every '
        'competitor, every other ordering must reproduce its theta bit for bit or is judged in '
        'full. One evaluation = one real fitter call judged by the reference (optimality, '
        'constraints) or one perturbed / re-ordered fitter call compared bit for bit, or one '
        'model-law instance, or one step of a sequence of fits on ONE model object (model basis, caller\'s '
        'array and training data bit-identical after the call, prediction = original basis\' theta, '
        'optimal for the original basis), or one non-negative fit with a basis of distance RDMs of grid '
        'point configurations judged against the brute-force active-set optimum. Non-trivial = the fit is posed (selected present entries outnumber '
        'the basis RDMs) and every score is defined; distinct = distinct case descriptor.')
ASSUMPTIONS = [
    'reference measures (mc/ref/measures.py) and reference model (mc/ref/c08_ref.py) are correct',
    'real values are represented by fixed generic fills (positive RDM-like, signed, positive '
    'mixtures of the basis) derived from VERIF_SEED',
    'continuous start vectors of the optimisers are represented by a finite menu (3 entries)',
    'sigma_k is given for the selected conditions (size len(pattern_idx)), as compare() expects',
    'ridge weight 0 only (the statement names no other)',
    'model laws are demanded on the parameter domain of each class: any real weights for the '
    'weighted model, non-negative weights for the interpolation model (its predict_rdm clips '
    'negative weights, predict does not), a valid index for the selection model; theta=None '
    'defaults are not compared (ModelInterpolate.predict() and predict_rdm() use different defaults)',
    'every fitter / Model.fit / predict / predict_rdm call of every family is followed by a bit-level '
    'comparison of its caller-owned arguments (model basis and pattern descriptors, training RDMs and '
    'descriptors, sigma_k, pattern_idx, theta, the ndarray a model was built from): signature '
    '<call>|...|modifies-argument:<arg>',
    'scale family: closed-form fitters only (fit_regress, fit_regress_nn, fit_select, fit_interpolate); the '
    'iterative optimisers fit_optimize* stop on absolute tolerances by design and miss the 1e-4 score '
    'tolerance in 1 of 144 probed extreme-scale fits on the unchanged tree, so they are not run at '
    'extreme scales; a closed-form fitter call running longer than 3 s is reported as does-not-terminate',
    'conditioning family: sigma_k with eigenvalues log-spaced over a spread of 1, 1e2, 1e3 (thorough also '
    '1e4) in a random orthogonal basis fixed by VERIF_SEED, 8 and 10 conditions (28 / 45 entries), judged with '
    'the unchanged closed-form tolerance 1e-7 against the dense GLS optimum.  The unchanged tree passes '
    'cleanly (largest deficit 1.2e-10) up to spread 1e4 for seeds 0..2; at spread 1e5 (cond(V) ~ 1e10) its '
    'conjugate-gradient solves (rtol 1e-5, the accuracy the library works with) leave fit_regress, '
    'fit_regress_nn and fit_select short of the optimum by 1e-5 .. O(1), so spreads above 1e4 are outside '
    'the bound and nothing is claimed for them',
    'dtype x provenance family: basis values are chosen exact in the dtype; laws are judged at 1e-9 (1e-6 for '
    'a float32 basis); a model must use the RDMs it was handed by position, regardless of their rdm descriptors',
    'Fitter wrapper: Fitter(f, **kw)(model, data, ...) must equal the direct call bit for bit, however the '
    'keyword arguments are split, also when handed out by input_check_model for several models',
    'all-zero weights (training RDMs exactly orthogonal to the basis) are judged, not excluded: the zero '
    'prediction scores 0 by the library\'s convention, so no competitor may score above 0 (+tol)',
    'fit_select is also run with the rank-based measures of compare() (spearman, kendall, tau-a, rho-a): '
    'beyond the methods the statement lists, selection only; the regression fitters reject these '
    'measures (ValueError after pooling) - executed, outcome recorded, arguments must stay untouched',
    'never reached by construction: fitter.py:163 (fit_optimize normalising an exactly-zero BFGS result) '
    'and pooling.py:74-75 (second, shadowed rho-a branch)',
    'ownership: after construction everything the caller still holds (the RDMs object passed, the stack it '
    'was derived from, the raw array) is overwritten in place and every model law, the closed-form fits and '
    'the dict round trip are judged again against the values at construction time; judged for RDMs-object '
    'input (which the library copies); a plain vector array MAY be adopted by the constructor (container '
    'policy, DESIGN.md) - all four classes do adopt 1-D / 2-D vector input, counted as an observation; '
    'the reverse direction (using the model never changes the source) is judged for every input',
    'a 1-D sigma_k (variances) is accepted by compare() but documented for no fitter: fitters that '
    'accept it are judged, rejections are recorded in the evidence notes, not reported',
]
TOL_CLOSED = 1e-7
TOL_SEARCH = 1e-4
TOLERANCES = {'score, closed-form fitters (fit_regress, fit_regress_nn, fit_select)': TOL_CLOSED,
              'score, search-based fitters (fit_optimize*, fit_interpolate)': TOL_SEARCH,
              'unit norm / convexity': 1e-9, 'predict laws': 1e-9,
              'non-dependence on unselected conditions, order, dict round trip': 0.0}
BOUNDS = {
    'quick': {'n_cond': [4, 5], 'k_basis': [2, 3], 'n_data': [1, 2, 3],
              'fills': ['positive', 'positive mixtures of the basis'],
              'missing-entry masks': ['none', 'one entry', 'two entries (n_cond=5)'],
              'index vectors n_cond=4': 'all 43 with >=3 distinct values and <=2 deviations from '
                                        'identity (13 multisets judged, other orderings bit-compared)',
              'index multisets n_cond=5': 8,
              'optimiser fits': '~250 (2 problems x 6 method/sigma_k x {None, one bootstrap vector} '
                                'x 3 start-menu entries x 3 fitters) + 10 explored draw histories',
              'start menu': 3, 'unselected-entry perturbation': 'every entry singly (closed-form), '
              'all at once (search-based)',
              'nnls grid family': 'basis = every set of 3 (all 4960) / 4 (every 8th of 35960) distinct '
                                  'RDMs of 1-d point configurations of 4 conditions on grid {0,1,2} (32 RDMs), '
                                  'cosine; every 5th triple for corr and cosine_cov; brute-force optimum',
              'scale family': 'closed-form fitters x 6 method/sigma_k x {None, one bootstrap vector} x every '
                              'combination of data x {1e-8,1,1e6}, basis x {1e-8,1,1e6}, sigma_k x {1e-10,1,1e6} '
                              '(n_cond=5, k=3, stack of 2); 672 fits',
              'pattern descriptors': "'index', unsorted two-digit ints, six-digit ints 100000+j not ascending",
              'basis dtype x provenance': 'every model class x {float64, float32, int64, 0/1 ints} x {ndarray, fresh '
                                          'RDMs, RDMs by fancy indexing in non-identity order, by subset on a '
                                          'non-contiguous rdm descriptor, by subsample with repeats}: all model laws '
                                          'against the check\'s own copy of the rows BY POSITION + the closed-form '
                                          'fitters (3 method/sigma_k x {None, bootstrap vector}); n_cond=5, k=3',
              'wrapper / zero / ranks / edges': '6 fitters through Fitter (3 routes) vs direct call; 16 exactly '
                                                'orthogonal fits; fit_select x 4 rank measures x 3 problems x 2 '
                                                'selections; rejected methods / vector lengths, default theta',
              'conditioning family': 'fit_regress, fit_regress_nn, fit_select x cosine_cov, corr_cov x sigma_k '
                                     'eigenvalue spread {1, 1e2, 1e3} x n_cond {8, 10} x k {2, 3} x {None, one '
                                     'bootstrap vector}, stack of 3; 144 fits',
              'sequences on one model object': 'all ordered pairs of steps (fitter x 6 method/sigma_k + one '
                                               'step with a pattern selection), weighted / select / '
                                               'interpolate, model built from RDMs and from a plain array'},
    'thorough': {'n_cond': [4, 5], 'k_basis': [2, 3, 4], 'n_data': [1, 2, 3],
                 'fills': ['positive', 'signed', 'positive mixtures of the basis'],
                 'missing-entry masks': 'all 22 masks of <=2 entries (n_cond=4)',
                 'index vectors n_cond=4': 'all 256 (35 multisets; 13 can pose a fit)',
                 'index multisets n_cond=5': 'all 81 with >=3 distinct (closed-form), every 16th (optimisers)',
                 'optimiser fits': '~7000 + full product of start-menu answers (2 entries x 4 draws)',
                 'start menu': 3,
                 'nnls grid family': 'all sets of 3 and of 4 RDMs (4 conditions, grid {0,1,2}) x fills x methods, '
                                     'every 10th set of 5, 5 conditions (105 RDMs): every 8th triple',
                 'basis dtype x provenance': 'as quick, (n_cond, k) in {(4,3), (5,2), (5,3)}',
                 'conditioning family': 'as quick + fit_interpolate, spread 1e4, 3 problems (stack sizes 1-3, 3 fills)',
                 'scale family': 'as quick, 3 problems x every index multiset of the quick plan',
                 'pattern descriptors': "'index', unsorted two-digit ints, six-digit ints 100000+j not ascending",
                 'sequences on one model object': 'ordered pairs (triples for the weighted model, n_cond=4), '
                                                  'k 2-3, n_cond 4-5'},
}
DEADLINE = {'quick': 400, 'thorough': 3000}

STIM = [12, 10, 13, 11, 14, 19, 15, 18, 16, 17]           # unsorted descriptor values: position != sorted rank
BIG = [100003, 100001, 100004, 100002, 100000, 100009, 100005, 100008, 100006, 100007]   # six-digit, close together, not ascending
DESCS = ['index', 'stim', 'big']
SCALES = {'data': (1e-8, 1.0, 1e6), 'basis': (1e-8, 1.0, 1e6), 'sigma': (1e-10, 1.0, 1e6)}
CLOSED = ('fit_regress', 'fit_regress_nn', 'fit_select', 'fit_interpolate')
NAMES = ['cq', 'ab', 'zz', 'cA', 'b0']
METHSIG = [('cosine', 'none'), ('corr', 'none'), ('cosine_cov', 'none'), ('cosine_cov', 'spd'),
           ('corr_cov', 'none'), ('corr_cov', 'spd')]
N_MENU = 3
RAND_FITTERS = ('fit_optimize', 'fit_optimize_positive')
NOT_POSED = 'fit not posed: selected present entries do not outnumber the basis RDMs'
NONNEG = ('fit_regress_nn', 'fit_optimize_positive')
SEARCH = ('fit_optimize', 'fit_optimize_positive', 'fit_interpolate')


class StartMenu:
    """finite menu of start vectors for np.random.rand: answer j is the SAME vector at every
    call site, so the execution 'answer j everywhere' starts every BFGS run of a multi-start
    fitter from vector j - the fit then succeeds only if that start vector alone reaches the
    optimum ("each menu entry must reach the optimum", DESIGN 4/C08)"""

    def __init__(self, seed, n=3):
        self.seed, self.n = seed, n

    def __call__(self, shape, j, call_index=0):
        size = int(np.prod(shape)) if shape != () else 1
        return rng_for(self.seed, 'c08start', j, size).uniform(0.05, 0.95, size=shape)


# ----------------------------------------------------------------------------- generators
def _problem(seed, n_cond, k, n_data, fill, mask):
    """basis (k vectors) and full-size training data (n_data vectors); the stacks are nested
    in n_data, the missing entries are common to all of them"""
    L = n_cond * (n_cond - 1) // 2
    g = rng_for(seed, 'c08problem', n_cond, k, fill)
    if fill == 1:        # signed, generic
        basis = g.normal(size=(k, L))
        data = g.normal(size=(3, L))
        basis[:, 0] += 0.3
    else:                # positive, RDM-like
        basis = g.uniform(0.2, 2.0, size=(k, L))
        data = g.uniform(0.2, 2.0, size=(3, L))
        if fill == 2:    # training data = positive mixtures of the basis + noise
            w = g.uniform(0.2, 1.0, size=(3, k))
            data = w @ basis + 0.3 * data
    basis = np.round(basis, 4)
    data = np.round(data[:n_data], 4)
    for e in mask:
        basis[:, e] = np.nan
        data[:, e] = np.nan
    return basis.tolist(), data.tolist()


COND_SPREADS = (1.0, 1e2, 1e3)


def _sigma(kind, n_sel, seed, spread=None):
    """(library argument, reference argument)"""
    if kind == 'none':
        return None, None
    if kind == 'cond':
        # eigenvalues log-spaced over [1, spread] in a random orthogonal basis fixed by the seed
        g = rng_for(seed, 'c08cond', n_sel)
        q, _ = np.linalg.qr(g.normal(size=(n_sel, n_sel)))
        s = (q * 10.0 ** np.linspace(0.0, math.log10(spread), n_sel)) @ q.T
        s = (s + s.T) / 2
        return s, s
    g = rng_for(seed, 'c08sigma', n_sel)
    if kind == 'spd':
        s = np.round(spd(g, n_sel), 4)
        s = (s + s.T) / 2
        return s, s
    if kind == 'vector':
        d = np.round(g.uniform(0.5, 3.0, size=n_sel), 3)
        return d, np.diag(d)
    raise ValueError(kind)


def _desc_values(desc, n_cond):
    return {'index': list(range(n_cond)), 'stim': STIM[:n_cond], 'big': BIG[:n_cond]}[desc]


def index_vectors(n, tier):
    """every index vector a bootstrap over n conditions can produce (quick: the subset of the
    rule), grouped by multiset: {sorted tuple: [orderings]}; the representative is the
    descending ordering"""
    groups = {}
    for v in itertools.product(range(n), repeat=n):
        if tier == 'quick':
            if len(set(v)) < 3 or sum(1 for i, x in enumerate(v) if x != i) > 2:
                continue
        groups.setdefault(tuple(sorted(v)), []).append(list(v))
    return groups


def multisets(n, min_distinct=3):
    return [list(c) for c in itertools.combinations_with_replacement(range(n), n)
            if len(set(c)) >= min_distinct]


def _masks(n_cond, tier, level):
    L = n_cond * (n_cond - 1) // 2
    if level == 0:
        return [[]]
    if tier == 'quick' or n_cond > 4:
        return [[], [2], [0, L - 1]][:level + 1]
    out = [[]] + [[e] for e in range(L)] + [list(c) for c in itertools.combinations(range(L), 2)]
    return out


# ----------------------------------------------------------------------------- shards
def shards(tier, seed):
    out = []
    thorough = tier == 'thorough'
    fills = [0, 1, 2] if thorough else [0, 2]
    # A: closed-form weighted fitters
    for fitter in ('fit_regress', 'fit_regress_nn'):
        for n_cond in (4, 5):
            for k in (2, 3):
                for n_data in (1, 2, 3):
                    for fill in (fills if n_cond == 4 else fills[:1]):
                        if thorough and n_cond == 4:
                            masks = _masks(4, tier, 2)
                        elif n_cond == 4:
                            masks = [[], [2]] if fill == 0 else [[]]
                        else:
                            masks = [[], [0, 9]] if n_data == 2 else [[]]
                        for mi, mask in enumerate(masks):
                            if thorough and len(mask) == 2 and (n_data != 2 or fill != 0):
                                continue      # all 15 two-entry masks for one stack size / fill
                            for method, sigma in METHSIG:
                                desc = DESCS[(k + n_data + mi + len(method)) % 3]
                                out.append({'kind': 'weighted', 'fitter': fitter, 'n_cond': n_cond,
                                            'k': k, 'n_data': n_data, 'fill': fill, 'mask': mask,
                                            'desc': desc, 'method': method, 'sigma': sigma,
                                            'perturb': bool(not mask and (fill == 0 or thorough)
                                                            and (n_data == 2 or thorough))})
    # B: optimiser-based weighted fitters (menu of start vectors); one shard per index vector
    for fitter in ('fit_optimize', 'fit_optimize_positive', 'Model.fit'):
        for method, sigma in METHSIG:
            if not thorough:
                cfgs = [(4, 2, 2, 0, [], 'stim', 1), (4, 2, 2, 2, [], 'big', 1)]
            else:       # (n_cond, k, n_data, fill, mask, descriptor, every n-th index multiset)
                cfgs = [(4, 2, 2, 0, [], 'stim', 1), (4, 3, 2, 2, [], 'stim', 1),
                        (4, 2, 1, 0, [], 'index', 3), (4, 2, 3, 2, [2], 'stim', 3),
                        (4, 2, 2, 1, [], 'big', 3), (4, 3, 2, 0, [], 'index', 3),
                        (5, 2, 2, 0, [0, 9], 'stim', 16), (5, 3, 3, 2, [], 'index', 16)]
            for n_cond, k, n_data, fill, mask, desc, stride in cfgs:
                sh = {'kind': 'weighted', 'fitter': fitter, 'n_cond': n_cond, 'k': k,
                      'n_data': n_data, 'fill': fill, 'mask': mask, 'desc': desc,
                      'method': method, 'sigma': sigma, 'perturb': True}
                if not thorough:
                    plan = [(None, []), ([3, 2, 2, 0], [[2, 0, 3, 2]])]
                else:
                    plan = _index_plan(sh, tier)
                    plan = [(r, o[:1]) for r, o in plan if r is None or len(set(r)) >= 3][::stride]
                for rep, others in plan:
                    out.append(dict(sh, plan=[[rep, others]]))
    # C: full choice-point exploration of the start-vector draws of fit_optimize
    for method, sigma in ([('cosine', 'none'), ('corr_cov', 'spd')] if thorough else [('cosine', 'none')]):
        out.append({'kind': 'explore', 'fitter': 'fit_optimize', 'n_cond': 4, 'k': 2, 'n_data': 2,
                    'fill': 0, 'mask': [], 'desc': 'index', 'method': method, 'sigma': sigma,
                    'bound': None if thorough else 1, 'n_menu': 2})
    # D: selection and interpolation models
    for fitter in ('fit_select', 'fit_interpolate', 'Model.fit/select', 'Model.fit/interpolate'):
        via_model = fitter.startswith('Model.fit')
        slow = fitter.endswith('interpolate')
        for n_cond in (4, 5):
            for k in ((2, 3, 4) if thorough else (2, 3)):
                for n_data in ((1, 2, 3) if thorough else (1, 3)):
                    for fill in (fills if n_cond == 4 else fills[:1]):
                        if via_model and (fill != 0 or n_data != 3 or (k != 3 and not thorough)):
                            continue
                        if not thorough and (slow or via_model) and (
                                n_cond == 5 and (k, n_data) != (3, 3) or fill != 0 and n_data != 3):
                            continue
                        masks = [[], [2]] if (n_cond == 4 and fill == 0 and not via_model) else [[]]
                        for mi, mask in enumerate(masks):
                            for method, sigma in METHSIG:
                                desc = DESCS[(k + n_data + mi + len(method)) % 3]
                                out.append({'kind': 'candidates', 'fitter': fitter, 'n_cond': n_cond,
                                            'k': k, 'n_data': n_data, 'fill': fill, 'mask': mask,
                                            'desc': desc, 'method': method, 'sigma': sigma,
                                            'perturb': bool(not mask and fill == 0 and n_data == 3
                                                            and (k == 2 or thorough or via_model))})
    # E: model laws
    for cls in ('fixed', 'select', 'weighted', 'interpolate'):
        for n_cond in (4, 5):
            for k in (1, 2, 3):
                for rep in ('rdms', 'vectors', 'matrices'):
                    for fill in ((0, 1) if thorough else (1,)):
                        out.append({'kind': 'laws', 'cls': cls, 'n_cond': n_cond, 'k': k, 'rep': rep,
                                    'fill': fill})
    out.append({'kind': 'laws', 'cls': 'base'})
    # E2: model laws + closed-form fits over basis dtype x provenance
    for cls in ('fixed', 'select', 'weighted', 'interpolate'):
        for n_cond, k in (((4, 3), (5, 2), (5, 3)) if thorough else ((5, 3),)):
            for dtype in DTYPES:
                for prov in PROVS:
                    out.append({'kind': 'laws', 'cls': cls, 'n_cond': n_cond, 'k': 1 if cls == 'fixed' else k,
                                'dtype': dtype, 'prov': prov})
    # G: high-volume non-negative least squares family: every set of k distinct RDMs of 1-d point
    #    configurations on a small grid as basis (distance-like, strongly correlated regressors:
    #    weights leave and re-enter the active set), judged against the brute-force optimum
    for n_cond, levels, k, methods, fam_fills, step in _nnls_plan(tier):
        n_rdm = len(_grid(n_cond, levels))
        total = math.comb(n_rdm, k)
        chunk = 300 * step
        for method, sigma in methods:
            for fill in fam_fills:
                for start in range(0, total, chunk):
                    out.append({'kind': 'nnls', 'n_cond': n_cond, 'levels': levels, 'k': k,
                                'method': method, 'sigma': sigma, 'fill': fill,
                                'range': [start, min(total, start + chunk), step]})
    # H: sequences of fits on ONE model object (a fit must leave model and data untouched)
    for mkind in ('weighted', 'select', 'interpolate'):
        for rep in ('rdms', 'array'):
            for n_cond, k in (((4, 2), (4, 3), (5, 3)) if thorough else ((5, 3),)):
                for first in _seq_steps(mkind):
                    out.append({'kind': 'sequences', 'model': mkind, 'rep': rep, 'n_cond': n_cond,
                                'k': k, 'n_data': 2, 'fill': 0, 'first': first,
                                'length': 3 if (thorough and mkind == 'weighted' and n_cond == 4) else 2})
    # I: scale family (closed-form fitters): data / basis RDMs x 1e-8, 1e6, sigma_k x 1e-10, 1e6;
    #    direction of the optimum and attained score do not depend on any of these factors
    for fitter in CLOSED:
        for n_cond, k, n_data, fill in (((5, 3, 2, 0), (4, 2, 1, 2), (5, 2, 3, 1)) if thorough else ((5, 3, 2, 0),)):
            for method, sigma in METHSIG:
                out.append({'kind': 'scale', 'fitter': fitter, 'n_cond': n_cond, 'k': k, 'n_data': n_data,
                            'fill': fill, 'mask': [], 'desc': 'big', 'method': method, 'sigma': sigma})
    # J: conditioning family: whitened closed-form fits (and the pool_rdm / compare paths behind
    #    them) with sigma_k of eigenvalue spread 1 .. 1e3, enough entries (28, 45) that an
    #    iterative solve of V x = b needs many iterations; judged against the dense GLS optimum
    for fitter in (('fit_regress', 'fit_regress_nn', 'fit_select', 'fit_interpolate') if thorough
                   else ('fit_regress', 'fit_regress_nn', 'fit_select')):
        for n_cond in (8, 10):
            for k in (2, 3):
                for n_data, fill in (((3, 0), (1, 2), (2, 1)) if thorough else ((3, 0),)):
                    out.append({'kind': 'cond', 'fitter': fitter, 'n_cond': n_cond, 'k': k,
                                'n_data': n_data, 'fill': fill, 'mask': [],
                                'desc': DESCS[(n_cond + k) % 3]})
    # K: every fitter through the Fitter wrapper object / input_check_model, zero-projection problems,
    #    rank-based measures for selection, rejected inputs and default parameters
    for fitter in ('fit_regress', 'fit_regress_nn', 'fit_select', 'fit_interpolate', 'fit_optimize',
                   'fit_optimize_positive'):
        out.append({'kind': 'wrapper', 'fitter': fitter})
    out.append({'kind': 'zero'})
    out.append({'kind': 'rank_select'})
    out.append({'kind': 'edges'})
    # F: sigma_k forms accepted by compare() but not documented for the fitters (report only)
    out.append({'kind': 'sigma_forms'})
    return out


# ----------------------------------------------------------------------------- set-up
def _model_kind(case):
    f = case['fitter']
    if f in ('fit_select', 'Model.fit/select'):
        return 'select'
    if f in ('fit_interpolate', 'Model.fit/interpolate'):
        return 'interpolate'
    return 'weighted'


def _build(case, seed, basis=None, data_full=None, lib_subsample=False):
    """library objects and reference quantities of one case"""
    from rsatoolbox.rdm import RDMs
    from rsatoolbox import model as M
    n_cond = case['n_cond']
    b0, d0 = _problem(seed, n_cond, case['k'], case['n_data'], case['fill'], case['mask'])
    basis = b0 if basis is None else basis
    data_full = d0 if data_full is None else data_full
    dvals = _desc_values(case['desc'], n_cond)
    idx = case.get('idx')
    pattern_idx = None if idx is None else [dvals[p] for p in idx]
    positions = ref.select_positions(dvals, pattern_idx)
    data_sel = [ref.subsample(d, positions) for d in data_full]
    sc_d, sc_b, sc_s = case.get('scale') or (1.0, 1.0, 1.0)
    if (sc_d, sc_b) != (1.0, 1.0):       # the reference sees the same scaled values
        basis = [[v * sc_b for v in r] for r in basis]
        data_full = [[v * sc_d for v in r] for r in data_full]
        data_sel = [ref.subsample(d, positions) for d in data_full]
    pdesc = {'stim': np.array(STIM[:n_cond]), 'big': np.array(BIG[:n_cond])}
    rdm_obj = RDMs(np.array(basis, dtype=float), pattern_descriptors=dict(pdesc))
    kind = _model_kind(case)
    cls = {'weighted': M.ModelWeighted, 'select': M.ModelSelect, 'interpolate': M.ModelInterpolate}[kind]
    model = cls('m', rdm_obj)
    if lib_subsample and idx is not None:
        full = RDMs(np.array(data_full, dtype=float), pattern_descriptors=dict(pdesc))
        data = full.subsample_pattern(case['desc'], np.array(pattern_idx))
    else:
        data = RDMs(np.array(data_sel, dtype=float),
                    pattern_descriptors={'stim': np.array([STIM[p] for p in positions]),
                                         'big': np.array([BIG[p] for p in positions])})
    sig_lib, sig_ref = _sigma(case['sigma'], len(positions), seed, case.get('spread'))
    if sig_lib is not None and sc_s != 1.0:
        sig_lib = sig_lib * sc_s
        sig_ref = sig_ref * sc_s
    return {'model': model, 'data': data, 'positions': positions, 'data_sel': data_sel,
            'basis': basis, 'data_full': data_full, 'kind': kind, 'sig_lib': sig_lib,
            'sig_ref': sig_ref,
            'pattern_idx': None if pattern_idx is None else np.array(pattern_idx),
            'pattern_descriptor': None if pattern_idx is None else case['desc']}


class DoesNotTerminate(Exception):
    """a library call exceeded its time limit (closed-form fitters 3 s - they need milliseconds -, others 120 s)"""


def _alarm(signum, frame):
    raise DoesNotTerminate('library call still running after the time limit')


@contextlib.contextmanager
def _time_limit(seconds):
    # the limit is CPU time of this process (ITIMER_VIRTUAL), not wall-clock time: on a loaded machine a
    # call that takes milliseconds of work can be descheduled for seconds, and a wall-clock limit then
    # reports 'does-not-terminate' for code that is fine (happened once in a thorough run under load 60)
    try:
        old = signal.signal(signal.SIGVTALRM, _alarm)
    except ValueError:          # not in the main thread: no limit
        yield
        return
    signal.setitimer(signal.ITIMER_VIRTUAL, seconds)
    try:
        yield
    finally:
        signal.setitimer(signal.ITIMER_VIRTUAL, 0)
        signal.signal(signal.SIGVTALRM, old)


def _arr_bits(a):
    a = np.asarray(a)
    return str(a.dtype).encode() + str(a.shape).encode() + np.ascontiguousarray(a).tobytes()


def _snapshot(S):
    """bit-level state of every caller-owned argument of a fitter call"""
    m = S['model']
    parts = {'model': [m.rdm, m.rdm_obj.dissimilarities] +
             [v for _, v in sorted(m.rdm_obj.pattern_descriptors.items())],
             'data': [S['data'].dissimilarities] +
             [v for _, v in sorted(S['data'].pattern_descriptors.items())]}
    if S['sig_lib'] is not None:
        parts['sigma_k'] = [S['sig_lib']]
    if S['pattern_idx'] is not None:
        parts['pattern_idx'] = [S['pattern_idx']]
    for name, a in (S.get('watch') or {}).items():
        parts[name] = [a]
    return {name: b'|'.join(_arr_bits(a) for a in arrs) for name, arrs in parts.items()}


def _predict_both(ctx, model, theta, sig, case):
    """model.predict(theta), model.predict_rdm(theta); theta (if an array) and the model's basis
    must be bit-identical after each of the two calls"""
    out = []
    for meth in ('predict', 'predict_rdm'):
        t_before = _arr_bits(theta) if isinstance(theta, np.ndarray) else None
        m_before = _arr_bits(model.rdm) + _arr_bits(model.rdm_obj.dissimilarities)
        out.append(getattr(model, meth)(theta))
        if t_before is not None and _arr_bits(theta) != t_before:
            ctx.fail('%s|%s|modifies-argument:theta' % (sig, meth), case, 'theta changed by %s' % meth)
        if _arr_bits(model.rdm) + _arr_bits(model.rdm_obj.dissimilarities) != m_before:
            ctx.fail('%s|%s|modifies-argument:model' % (sig, meth), case, 'model basis changed by %s' % meth)
    return out


def _call(case, S, seed, calls_out=None, env=None, ctx=None):
    """one real fitter call under the intercepted random source; with ctx: every caller-owned
    argument (model basis and descriptors, training RDMs, sigma_k, pattern_idx, extra watched
    arrays) must be bit-identical afterwards"""
    from rsatoolbox.model import fitter as F
    f = case['fitter']
    before = _snapshot(S) if ctx is not None else None
    kw = dict(method=case['method'], pattern_idx=S['pattern_idx'],
              pattern_descriptor=S['pattern_descriptor'], sigma_k=S['sig_lib'])
    uses_rand = f in RAND_FITTERS or f == 'Model.fit'
    menu = StartMenu(seed, n=case.get('n_menu', N_MENU)) if uses_rand else None
    if env is None:
        prefix = case.get('choices')
        if prefix is None:      # the same menu entry at every draw of this execution
            prefix = [int(case.get('menu', 0))] * 16
        env = choice.Env(prefix)
    rng = RngEnv(env, menu=menu)
    with installed(rng), _time_limit(20 if f in CLOSED else 300):
        if f.startswith('Model.fit'):
            theta = S['model'].fit(S['data'], **kw)
        else:
            if f not in ('fit_select', 'fit_interpolate', 'fit_mock'):
                kw.update(ridge_weight=0, normalize=bool(case.get('normalize', True)))
            via = case.get('via')
            if via is None:
                theta = getattr(F, f)(S['model'], S['data'], **kw)
            else:       # the same call through the Fitter wrapper object
                at_call = {k_: kw.pop(k_) for k_ in ('pattern_idx', 'pattern_descriptor')}
                if via == 'Fitter':                       # settings at construction
                    theta = F.Fitter(getattr(F, f), **kw)(S['model'], S['data'], **at_call)
                elif via == 'Fitter-call-kwargs':         # settings at call time
                    theta = F.Fitter(getattr(F, f))(S['model'], S['data'], **at_call, **kw)
                elif via == 'input_check_model':          # one fitter object handed out for two models
                    from rsatoolbox.util.inference_util import input_check_model
                    fit = F.Fitter(getattr(F, f), **kw)
                    models, _, _, fitters = input_check_model([S['model'], S['model']], None, fit)
                    _, _, _, defaults = input_check_model(S['model'])
                    if len(fitters) != 2 or fitters[0] is not fit or fitters[1] is not fit \
                            or defaults[0] is not S['model'].default_fitter:
                        raise AssertionError('input_check_model did not hand out the fitter for every model')
                    theta = fitters[1](models[1], S['data'], **at_call)
                else:
                    raise ValueError(via)
    if calls_out is not None:
        calls_out.extend(rng.calls)
    if ctx is not None:
        after = _snapshot(S)
        for name in before:
            if before[name] != after[name]:
                ctx.fail('%s|method=%s|modifies-argument:%s' % (_fname(case), case['method'], name), case,
                         'the %s passed to the call is not bit-identical afterwards' % name)
    return theta


def _same_bits(a, b):
    a = np.asarray(a)
    b = np.asarray(b)
    return a.shape == b.shape and a.dtype == b.dtype and a.tobytes() == b.tobytes()


def _cfg(case):
    """configuration class of a signature.  Closed-form fitters fail structurally, so method,
    sigma_k form and single RDM / stack separate their defects; the search-based fitters fail
    data-dependently (which method / stack size shows a given defect changes with the fill), so
    their class is only the measure family and whether a sigma_k is given."""
    if case.get('scale'):       # extreme magnitudes: a class of their own - such defects (absolute
        # tolerances) follow the magnitude and the code path (plain / whitened), not the method
        f_ = [x for x in case['scale'] if x != 1.0]
        return 'measure=%s,scale=%s' % ('whitened' if 'cov' in case['method'] else 'plain',
                                        'small' if all(x < 1 for x in f_) else
                                        'large' if all(x > 1 for x in f_) else 'mixed')
    if case['fitter'] in SEARCH + ('Model.fit', 'Model.fit/interpolate'):
        return 'measure=%s-type,sigma_k=%s%s' % ('corr' if 'corr' in case['method'] else 'cosine',
                                                 'none' if case['sigma'] == 'none' else 'given', '')
    return 'method=%s,sigma_k=%s,data=%s%s' % (case['method'], case['sigma'],
                                              'single' if case['n_data'] == 1 else 'stack', '')


# ----------------------------------------------------------------------------- judging
def _judge_weighted(case, ctx, S, theta, fname):
    """constraints and optimality of a weighted-model fit; returns False if a violation"""
    f = case['fitter']
    k = case['k']
    method = case['method']
    nonneg = f in NONNEG
    tol = TOL_SEARCH if (f in SEARCH or f == 'Model.fit') else TOL_CLOSED
    sigp = '%s|%s' % (fname, _cfg(case))
    theta = np.asarray(theta)
    if theta.shape != (k,) or not np.all(np.isfinite(theta)):
        ctx.fail(sigp + '|theta-shape-or-nonfinite', case, 'theta=%r' % (theta,))
        return False
    ok = True
    if nonneg and np.any(theta < 0):
        ctx.fail('%s|method=%s|negative-weight' % (fname, method), case, 'theta=%r' % (theta,))
        ok = False
    normalised = f == 'Model.fit' or case.get('normalize', True)
    nrm = float(np.sqrt(np.sum(theta ** 2)))
    star = ref.optimum(method, S['basis'], S['positions'], S['data_sel'], S['sig_ref'], nonneg)
    s_hat = ref.score(method, 'weighted', S['basis'], theta, S['positions'], S['data_sel'], S['sig_ref'])
    if s_hat is None:
        if nonneg and star is None and nrm == 0:
            ctx.exclude('no non-negative direction with positive similarity (fit returns 0)')
            return ok
        if nrm == 0:
            # all-zero weights: the zero prediction has similarity 0 with everything (the library's own
            # convention), so the fit is right iff no competitor scores above 0
            best = None
            for t in ref.sign_vectors(k, nonneg) + ([] if star is None else [star.tolist()]):
                sc_ = ref.score(method, 'weighted', S['basis'], t, S['positions'], S['data_sel'], S['sig_ref'])
                if sc_ is not None and (best is None or sc_ > best[0]):
                    best = (sc_, t)
            if best is None or best[0] <= tol:
                ctx.count('zero weights returned and no competitor scores above 0')
                ctx.outcome((fname, method, 'zero weights'))
                return ok
        s_star = None if star is None else ref.score(method, 'weighted', S['basis'], star,
                                                     S['positions'], S['data_sel'], S['sig_ref'])
        ctx.fail(sigp + '|prediction-undefined', case,
                 'theta_hat=%r gives a zero / constant prediction; reference optimum %r scores %r'
                 % (theta.tolist(), None if star is None else star.tolist(), s_star))
        return False
    if normalised and abs(nrm - 1.0) > 1e-9:
        ctx.fail('%s|method=%s|not-unit-norm' % (fname, method), case, 'norm %r theta=%r' % (nrm, theta))
        ok = False
    comps = [('sign-vector', t) for t in ref.sign_vectors(k, nonneg)]
    comps += [('local-step', t) for t in ref.local_steps(theta, 1e-3, nonneg)]
    if star is not None:
        comps.append(('closed-form', star.tolist()))
    worst = None
    for cname, t in comps:
        s = ref.score(method, 'weighted', S['basis'], t, S['positions'], S['data_sel'], S['sig_ref'])
        if s is None:
            continue
        ctx.dev('%s/%s excess of best competitor' % (fname, 'whitened' if 'cov' in method else 'plain'),
                max(0.0, s - s_hat))
        if s > s_hat + tol and (worst is None or s > worst[2]):
            worst = (cname, t, s)
    if worst is not None:
        ctx.fail(sigp + '|not-optimal', case,
                 'score(theta_hat=%s)=%.10g < score(%s %s)=%.10g (tol %g); positions=%s'
                 % (np.round(theta, 8).tolist(), s_hat, worst[0], np.round(worst[1], 8).tolist(),
                    worst[2], tol, S['positions']))
        ok = False
    ctx.outcome((fname, method, round(s_hat, 6), [bool(t == 0) for t in theta]))
    return ok


def _judge_candidates(case, ctx, S, theta, fname):
    kind = S['kind']
    k = case['k']
    method = case['method']
    sigp = '%s|%s' % (fname, _cfg(case))

    def sc(t):
        return ref.score(method, kind, S['basis'], t, S['positions'], S['data_sel'], S['sig_ref'])
    if kind == 'select':
        if isinstance(theta, (bool, np.bool_)) or not isinstance(theta, (int, np.integer)) \
                or not 0 <= int(theta) < k:
            ctx.fail('%s|any|invalid-index' % fname, case, 'theta=%r (%s)' % (theta, type(theta).__name__))
            return False
        s_hat = sc(int(theta))
        comps = [('candidate', i) for i in range(k)]
        tol = TOL_CLOSED
    else:
        theta = np.asarray(theta, dtype=float)
        bad = None
        if theta.shape != (k,) or not np.all(np.isfinite(theta)):
            bad = 'shape'
        else:
            nz = [i for i in range(k) if theta[i] != 0]
            if np.any(theta < 0) or abs(float(theta.sum()) - 1.0) > 1e-9:
                bad = 'not convex'
            elif len(nz) > 2 or (len(nz) == 2 and nz[1] - nz[0] != 1):
                bad = 'not adjacent'
        if bad:
            ctx.fail('%s|any|not-a-convex-mixture-of-adjacent-rdms' % fname, case,
                     '%s: theta=%r' % (bad, theta))
            return False
        s_hat = sc(theta)
        comps = [('grid-mixture', t) for t in ref.interpolation_grid(k, 21)]
        tol = TOL_SEARCH
    if s_hat is None:
        ctx.exclude('score of the returned candidate undefined')
        return True
    worst = None
    for cname, t in comps:
        s = sc(t)
        if s is None:
            continue
        ctx.dev('%s excess of best competitor' % fname, max(0.0, s - s_hat))
        if s > s_hat + tol and (worst is None or s > worst[2]):
            worst = (cname, t, s)
    if worst is not None:
        ctx.fail(sigp + '|not-optimal', case,
                 'score(theta_hat=%r)=%.10g < score(%s %r)=%.10g (tol %g); positions=%s'
                 % (np.asarray(theta).tolist(), s_hat, worst[0], worst[1], worst[2], tol, S['positions']))
        return False
    ctx.outcome((fname, method, round(s_hat, 6), np.round(np.asarray(theta, float), 3).tolist()))
    return True


def _posed(case, S):
    if S['kind'] == 'weighted':
        return ref.is_posed(case['method'], S['basis'], S['positions'], S['data_sel'])
    return ref.n_distinct_present(S['basis'], S['positions'], S['data_sel']) >= 3


def _fname(case):
    f = case['fitter']
    return {'Model.fit': 'ModelWeighted.fit', 'Model.fit/select': 'ModelSelect.fit',
            'Model.fit/interpolate': 'ModelInterpolate.fit'}.get(f, f)


def _run_fit(case, ctx):
    """one judged fit (+ optional perturbation of every entry of the unselected conditions)"""
    seed = ctx.seed
    fname = _fname(case)
    S = _build(case, seed)
    if not _posed(case, S):
        ctx.exclude(NOT_POSED)
        return 'not-posed'
    sigp = '%s|%s' % (fname, _cfg(case))
    g = ctx.guard(sigp, case)
    theta = None
    with g:
        calls = []
        try:
            theta = _call(case, S, seed, calls, ctx=ctx)
        except DoesNotTerminate as e:
            ctx.case({k_: v for k_, v in case.items() if k_ != 'perturb'})
            ctx.fail(sigp + '|does-not-terminate', case, 'the fitter call did not return: %s' % e)
            return 'raised'
        ctx.case({k_: v for k_, v in case.items() if k_ != 'perturb'})
        if S['kind'] == 'weighted':
            _judge_weighted(case, ctx, S, theta, fname)
        else:
            _judge_candidates(case, ctx, S, theta, fname)
        n_rand = sum(1 for c in calls if c[0] == 'rand')
        if case['fitter'] in RAND_FITTERS or case['fitter'] == 'Model.fit':
            ctx.count('rand draws intercepted', n_rand)
            if n_rand == 0:
                ctx.fail(fname + '|any|no-start-vector-drawn', case, 'expected np.random.rand start vectors')
    if not g.ok or theta is None:
        return 'raised'
    if case.get('perturb') and case.get('idx') is not None:
        _perturb(case, ctx, S, theta, fname)
    return 'judged'


def _perturb(case, ctx, S, theta, fname):
    """theta must not move by a bit when entries of unselected conditions change"""
    seed = ctx.seed
    n = case['n_cond']
    unsel = [c for c in range(n) if c not in S['positions']]
    if not unsel:
        return
    sig0 = '%s|method=%s' % (fname, case['method'])
    with ctx.guard(sig0 + ',perturbed-unselected', case):
        S0 = _build(case, seed, lib_subsample=True)
        t0 = _call(case, S0, seed, ctx=ctx)
        ctx.case(dict(case, law='training data selected by the library'))
        if not _same_bits(theta, t0):
            ctx.fail('subsample_pattern|training-data|differs-from-reference-selection', case,
                     'theta %r with reference-selected data, %r with library-selected data' % (theta, t0))
            return
        entries = [e for e, (i, j) in enumerate(ref.pairs(n)) if i in unsel or j in unsel]
        slow = case['fitter'] in RAND_FITTERS + ('Model.fit', 'fit_interpolate', 'Model.fit/interpolate')
        one_by_one = not slow or (ctx.tier == 'thorough' and case['k'] == 2 and case['n_data'] == 2
                                  and case['fill'] == 0)
        variants = []
        if one_by_one:
            for e in entries:
                for b in range(case['k']):
                    variants.append([('basis', b, e)])
                for d in range(case['n_data']):
                    variants.append([('data', d, e)])
        variants.append([('basis', b, e) for e in entries for b in range(case['k'])] +
                        [('data', d, e) for e in entries for d in range(case['n_data'])])
        for var in variants:
            basis = [list(r) for r in S['basis']]
            data_full = [list(r) for r in S['data_full']]
            changed = False
            for what, r, e in var:
                tgt = basis if what == 'basis' else data_full
                if not math.isnan(tgt[r][e]):
                    tgt[r][e] = 7.5 - 3.0 * tgt[r][e]
                    changed = True
            if not changed:
                continue
            Sp = _build(case, seed, basis=basis, data_full=data_full, lib_subsample=True)
            tp = _call(case, Sp, seed, ctx=ctx)
            tag = var[0] if len(var) == 1 else ('all', len(var))
            ctx.case(dict(case, law='perturb', entry=tag))
            if not _same_bits(t0, tp):
                which = 'basis' if all(v[0] == 'basis' for v in var) else (
                    'data' if all(v[0] == 'data' for v in var) else 'basis+data')
                ctx.fail(sig0 + '|depends-on-unselected-conditions', dict(case, entry=tag),
                         'unselected conditions %s, changed %s entries %s: theta %r -> %r'
                         % (unsel, which, tag, np.asarray(t0).tolist(), np.asarray(tp).tolist()))
                return


def _run_order(case, ctx):
    """case['idx'] is a re-ordering of case['rep_idx']: same multiset, so the same conditions
    with the same multiplicity enter the fit"""
    seed = ctx.seed
    fname = _fname(case)
    S = _build(case, seed)
    if not _posed(case, S):
        ctx.exclude(NOT_POSED)
        return
    rep = dict(case, idx=case['rep_idx'])
    del rep['rep_idx']
    with ctx.guard('%s|%s' % (fname, _cfg(case)), case):
        t_rep = _call(rep, _build(rep, seed), seed, ctx=ctx)
        t = _call(case, S, seed, ctx=ctx)
        ctx.case(dict(case, law='order'))
        if _same_bits(t, t_rep):
            return
        # not bit-identical: the ordering is judged on its own merits
        ctx.count('re-ordered index vector gives different bits, judged in full')
        full = {k_: v for k_, v in case.items() if k_ != 'rep_idx'}
        if S['kind'] == 'weighted':
            _judge_weighted(full, ctx, S, t, fname)
        else:
            _judge_candidates(full, ctx, S, t, fname)


# ----------------------------------------------------------------------------- shard drivers
def _index_plan(shard, tier):
    """[(representative idx or None, [other orderings])]"""
    n = shard['n_cond']
    plan = [(None, [])]
    if n == 4:
        for ms, orderings in sorted(index_vectors(4, tier).items()):
            rep = sorted(ms, reverse=True)
            plan.append((rep, [o for o in orderings if o != rep]))
    else:
        ms5 = multisets(5)
        if tier == 'quick':
            ms5 = [m for m in ms5 if len(set(m)) >= 4][::4] + [[0, 0, 2, 2, 4], [1, 3, 3, 3, 4]]
        for ms in ms5:
            rep = sorted(ms, reverse=True)
            plan.append((rep, [sorted(ms)] if len(set(ms)) < 5 else [[2, 0, 4, 1, 3]]))
    return plan


def run_shard(shard, ctx):
    kind = shard['kind']
    if kind in ('laws', 'sigma_forms', 'explore', 'wrapper', 'zero', 'rank_select', 'edges'):
        run_case(shard, ctx)
        return
    if kind == 'nnls':
        _run_nnls_shard(shard, ctx)
        return
    if kind == 'sequences':
        _run_sequences_shard(shard, ctx)
        return
    if kind == 'cond':
        n = shard['n_cond']
        boot = [n - 1, n - 2] + list(range(n - 3, 0, -1)) + [n - 2]     # one twice, one never
        for method in ('cosine_cov', 'corr_cov'):
            for spread in COND_SPREADS + ((1e4,) if ctx.tier == 'thorough' else ()):
                for j, idx in enumerate((None, boot)):
                    c = dict(shard, kind='fit', method=method, sigma='cond', spread=spread, idx=idx,
                             perturb=False)
                    if shard['fitter'] in ('fit_regress', 'fit_regress_nn'):
                        c['normalize'] = bool((j + int(math.log10(spread)) + shard['k']) % 2)
                    run_case(c, ctx)
        return
    if kind == 'scale':
        n = shard['n_cond']
        idxs = [None, [n - 1, n - 2] + list(range(n - 3, -1, -1))[:-1] + [n - 2]] if n == 5 else [None]
        if ctx.tier == 'thorough':
            idxs = [r for r, _ in _index_plan(shard, 'quick')]
        s_sig = SCALES['sigma'] if shard['sigma'] == 'spd' else (1.0,)
        for idx in idxs:
            for sc in itertools.product(SCALES['data'], SCALES['basis'], s_sig):
                if sc == (1.0, 1.0, 1.0):
                    continue
                c = dict(shard, kind='fit', idx=idx, scale=list(sc), perturb=False)
                if shard['fitter'] in ('fit_regress', 'fit_regress_nn'):
                    c['normalize'] = bool(sc[0] >= 1)     # both switches over the family
                run_case(c, ctx)
        return
    tier = ctx.tier
    base = {k_: v for k_, v in shard.items() if k_ not in ('plan',)}
    fitter = shard['fitter']
    if fitter in RAND_FITTERS or fitter == 'Model.fit':
        for rep, others in shard['plan']:
            posed = True
            for normalize, menus in ((True, range(N_MENU)), (False, (N_MENU - 1,))):
                if fitter == 'Model.fit' and not normalize:
                    continue
                for menu in menus:
                    c = dict(base, kind='fit', idx=rep, normalize=normalize, menu=menu)
                    c['perturb'] = bool(menu == 0 and normalize)
                    posed = run_case(c, ctx) != 'not-posed' and posed
            for o in others:
                if not posed:
                    ctx.exclude(NOT_POSED)
                    continue
                run_case(dict(base, kind='order', idx=o, rep_idx=rep, normalize=True, menu=1,
                              perturb=False), ctx)
        return
    norms = (True, False) if kind == 'weighted' else (None,)
    plan = _index_plan(shard, tier)
    for rep, others in plan:
        posed = True
        for normalize in norms:
            c = dict(base, kind='fit', idx=rep)
            if normalize is not None:
                c['normalize'] = normalize
            c['perturb'] = bool(shard.get('perturb') and normalize in (True, None))
            posed = run_case(c, ctx) != 'not-posed' and posed
        if not posed:
            for o in others:
                ctx.exclude(NOT_POSED)
            continue
        if fitter in ('fit_interpolate', 'Model.fit/interpolate') and tier == 'quick':
            others = others[:2]
        for o in others:
            c = dict(base, kind='order', idx=o, rep_idx=rep, perturb=False)
            if kind == 'weighted':
                c['normalize'] = True
            run_case(c, ctx)


def run_case(case, ctx):
    kind = case['kind']
    if kind == 'fit':
        return _run_fit(case, ctx)
    elif kind == 'order':
        _run_order(case, ctx)
    elif kind == 'explore':
        _explore(case, ctx)
    elif kind == 'nnls_case':
        _run_nnls(case, ctx)
    elif kind == 'sequence':
        _run_sequence(case, ctx)
    elif kind == 'laws':
        _laws(case, ctx)
    elif kind == 'sigma_forms':
        _sigma_forms(case, ctx)
    elif kind == 'wrapper':
        _wrapper(case, ctx)
    elif kind == 'zero':
        _zero_projection(case, ctx)
    elif kind == 'rank_select':
        _rank_select(case, ctx)
    elif kind == 'edges':
        _edges(case, ctx)
    else:
        raise ValueError(kind)


# ----------------------------------------------------------------------------- G: NNLS family
_GRID_CACHE = {}


def _grid(n_cond, levels):
    key = (n_cond, levels)
    if key not in _GRID_CACHE:
        _GRID_CACHE[key] = ref.grid_rdms(n_cond, tuple(range(levels)), 1)
    return _GRID_CACHE[key]


def _nnls_plan(tier):
    """(n_cond, grid levels, k basis RDMs, [(method, sigma)], data fills, every n-th basis set)"""
    plain = [('cosine', 'none')]
    if tier == 'quick':
        return [(4, 3, 3, plain, [0], 1), (4, 3, 4, plain, [0], 8),
                (4, 3, 3, [('corr', 'none'), ('cosine_cov', 'none')], [1], 5)]
    return [(4, 3, 3, [('cosine', 'none'), ('corr', 'none'), ('cosine_cov', 'none'),
                       ('cosine_cov', 'spd')], [0, 1, 2], 1),
            (4, 3, 4, plain, [0, 1], 1), (4, 3, 4, [('corr', 'none')], [0], 3),
            (4, 3, 5, plain, [0], 10), (5, 3, 3, plain, [0], 8), (5, 3, 4, plain, [1], 400)]


def _nnls_data(seed, n_cond, levels, fill):
    """training stack of two RDMs: fixed positive fills; fill 2 = two RDMs of the grid family
    plus a small fill"""
    L = n_cond * (n_cond - 1) // 2
    g = rng_for(seed, 'c08nnls', n_cond, fill)
    data = g.uniform(0.2, 2.0, size=(2, L))
    if fill == 2:
        G = _grid(n_cond, levels)
        data = 0.2 * data + np.array([G[len(G) // 3], G[(2 * len(G)) // 3]])
    return np.round(data, 3).tolist()


def _run_nnls_shard(shard, ctx):
    k = shard['k']
    n_rdm = len(_grid(shard['n_cond'], shard['levels']))
    start, stop, step = shard['range']
    combos = itertools.islice(itertools.combinations(range(n_rdm), k), start, stop, step)
    for combo in combos:
        c = {k_: v for k_, v in shard.items() if k_ != 'range'}
        c['combo'] = list(combo)
        c['kind'] = 'nnls_case'
        run_case(c, ctx)


def _run_nnls(case, ctx):
    from rsatoolbox.rdm import RDMs
    from rsatoolbox import model as M
    from rsatoolbox.model import fitter as F
    n, method = case['n_cond'], case['method']
    G = _grid(n, case['levels'])
    basis = [list(G[i]) for i in case['combo']]
    data = _nnls_data(ctx.seed, n, case['levels'], case['fill'])
    if not ref.regressors_independent(method, basis):
        ctx.exclude('basis RDMs linearly dependent (weights not identified)')
        return
    jc = dict(case, fitter='fit_regress_nn', n_data=2, normalize=True)
    sig_lib, sig_ref = _sigma(case['sigma'], n, ctx.seed)
    pos = list(range(n))
    sigp = 'fit_regress_nn|%s' % _cfg(jc)
    with ctx.guard(sigp, case):
        model = M.ModelWeighted('m', RDMs(np.array(basis, dtype=float)))
        Sn = {'model': model, 'data': RDMs(np.array(data, dtype=float)), 'sig_lib': sig_lib,
              'pattern_idx': None}
        before = _snapshot(Sn)
        try:
            with _time_limit(20):
                theta = np.asarray(F.fit_regress_nn(model, Sn['data'], method=method,
                                                    sigma_k=sig_lib, ridge_weight=0, normalize=True))
        except DoesNotTerminate as e:
            ctx.case(case)
            ctx.fail(sigp + '|does-not-terminate', case, 'the fitter call did not return: %s' % e)
            return
        for name, bits in _snapshot(Sn).items():
            if bits != before[name]:
                ctx.fail('fit_regress_nn|method=%s|modifies-argument:%s' % (method, name), case,
                         'the %s passed to the call is not bit-identical afterwards' % name)
        ctx.case(case)
        if theta.shape != (case['k'],) or not np.all(np.isfinite(theta)):
            ctx.fail(sigp + '|theta-shape-or-nonfinite', case, 'theta=%r' % (theta,))
            return
        if np.any(theta < 0):
            ctx.fail('fit_regress_nn|method=%s|negative-weight' % method, case, 'theta=%r' % (theta,))
        star = ref.optimum(method, basis, pos, data, sig_ref, True)
        s_hat = ref.score(method, 'weighted', basis, theta, pos, data, sig_ref)
        if star is None:
            if s_hat is None and not np.any(theta):
                ctx.exclude('no non-negative direction with positive similarity (fit returns 0)')
                return
            s_star = None
        else:
            s_star = ref.score(method, 'weighted', basis, star, pos, data, sig_ref)
        if s_hat is None:
            ctx.fail(sigp + '|prediction-undefined', case,
                     'theta_hat=%r; brute-force optimum %r scores %r'
                     % (theta.tolist(), None if star is None else star.tolist(), s_star))
            return
        if abs(float(np.sqrt(np.sum(theta ** 2))) - 1.0) > 1e-9:
            ctx.fail('fit_regress_nn|method=%s|not-unit-norm' % method, case, 'theta=%r' % (theta,))
        if s_star is not None:
            ctx.dev('fit_regress_nn/grid family excess of brute-force optimum', max(0.0, s_star - s_hat))
            if s_star > s_hat + TOL_CLOSED:
                ctx.fail(sigp + '|not-optimal', case,
                         'basis = grid RDMs %s; score(theta_hat=%s)=%.10g < score(brute-force active-set '
                         'optimum %s)=%.10g (tol %g)' % (case['combo'], np.round(theta, 8).tolist(), s_hat,
                                                         np.round(star, 8).tolist(), s_star, TOL_CLOSED))
        ctx.outcome(('nnls', tuple(bool(t == 0) for t in theta)))


# ----------------------------------------------------------------------------- H: sequences
def _seq_steps(mkind):
    """alphabet of one step: (fitter, method, sigma, index vector or None)"""
    fitters = {'weighted': ('fit_regress', 'fit_regress_nn'), 'select': ('fit_select',),
               'interpolate': ('fit_interpolate',)}[mkind]
    out = []
    for f in fitters:
        for method, sigma in METHSIG:
            out.append([f, method, sigma, None])
    out.append([fitters[0], 'corr', 'none', 'boot'])     # a step WITH a pattern selection
    return out


def _run_sequences_shard(shard, ctx):
    alpha = _seq_steps(shard['model'])
    base = {k_: v for k_, v in shard.items() if k_ not in ('first', 'length')}
    for rest in itertools.product(alpha, repeat=shard['length'] - 1):
        run_case(dict(base, kind='sequence', steps=[shard['first']] + [list(r) for r in rest]), ctx)


def _bits(a):
    return np.ascontiguousarray(np.asarray(a, dtype=float)).tobytes()


def _run_sequence(case, ctx):
    """several fits one after the other on ONE model object and ONE data object: every fit must
    be optimal for the basis the model was built from, and leave model and data untouched"""
    from rsatoolbox.rdm import RDMs
    from rsatoolbox import model as M
    seed = ctx.seed
    n, k, mkind = case['n_cond'], case['k'], case['model']
    common = {'n_cond': n, 'k': k, 'n_data': case['n_data'], 'fill': case['fill'], 'mask': [],
              'desc': 'index'}
    basis, data_full = _problem(seed, n, k, case['n_data'], case['fill'], [])
    orig = np.array(basis, dtype=float)
    klass = {'weighted': M.ModelWeighted, 'select': M.ModelSelect, 'interpolate': M.ModelInterpolate}[mkind]
    arr = orig.copy()                       # the caller's own array (rep == 'array')
    model = klass('m', RDMs(arr) if case['rep'] == 'rdms' else arr)
    boot = list(range(n - 1, 0, -1)) + [1]  # one condition twice, one never
    data_objs = {}
    for i, (fitter, method, sigma, idx) in enumerate(case['steps']):
        idx = boot if idx == 'boot' else None
        sc = dict(common, kind='fit', fitter=fitter, method=method, sigma=sigma, idx=idx,
                  normalize=True, menu=0)
        S = _build(sc, seed)
        if not _posed(sc, S):
            ctx.exclude(NOT_POSED)
            continue
        S['model'] = model
        key = 'boot' if idx else 'all'
        if key in data_objs:
            S['data'] = data_objs[key]      # the same training data object is re-used as well
        data_objs[key] = S['data']
        S['watch'] = {'basis-array': arr}
        fname = fitter
        tag = dict(case, step=i)
        with ctx.guard('%s|%s,sequence' % (fname, _cfg(sc)), tag):
            theta = _call(dict(sc, sequence=case['steps'], step=i), S, seed, ctx=ctx)
            ctx.case(tag)
            tt = int(theta) if mkind == 'select' else np.asarray(theta, dtype=float)
            want = ref.predict(mkind, basis, tt)
            got, got_r = _predict_both(ctx, model, tt, 'Model%s|after-fit' % mkind.capitalize(), tag)
            got = np.asarray(got, dtype=float)
            got_r = np.asarray(got_r.get_vectors(), dtype=float)
            if got_r.shape != (1, len(want)) or not allclose(got, want, 1e-9) or not allclose(got_r[0], want, 1e-9):
                ctx.fail('Model%s|after-fit|prediction-differs-from-original-basis' % mkind.capitalize(), tag,
                         'after step %d %r predict(theta_hat) is not the prediction from the basis RDMs the '
                         'model was built from (max deviation %.4g)'
                         % (i, case['steps'][i], float(np.nanmax(np.abs(got - np.array(want))))))
            if mkind == 'weighted':
                _judge_weighted(sc, ctx, S, theta, fname)
            else:
                _judge_candidates(sc, ctx, S, theta, fname)


# ----------------------------------------------------------------------------- C: explorer
def _explore(case, ctx):
    """every answer of the start-vector menu at every np.random.rand call of fit_optimize
    (bound = number of non-default answers; None = the full product)"""
    seed = ctx.seed
    stats = choice.Stats()
    for idx in (None, [3, 2, 2, 0]):
        base = dict(case, kind='fit', idx=idx, normalize=True, perturb=False)
        S = _build(base, seed)

        def run(env, base=base, S=S):
            return _call(base, S, seed, env=env, ctx=ctx)
        with ctx.guard('fit_optimize|%s' % _cfg(base), base):
            for env, theta in choice.explore(run, bound=case['bound'], stats=stats):
                c = dict(base, choices=env.choices)
                ctx.case(c)
                _judge_weighted(c, ctx, S, theta, 'fit_optimize')
    ctx.count('choice executions', stats.executions)
    ctx.count('choice tree nodes', stats.states)
    ctx.count('choice tree edges', stats.transitions)


# ----------------------------------------------------------------------------- E: model laws
def _theta_sets(cls, k):
    if cls == 'fixed':
        return [None, [0.5]], []
    if cls == 'select':
        return list(range(k)), []
    if cls == 'interpolate':
        ts = [list(map(float, v)) for v in itertools.product((0, 1), repeat=k) if any(v)]
        if k >= 2:
            ts.append([0.25, 0.75] + [0.0] * (k - 2))
            ts.append([0.0] * (k - 2) + [0.6, 0.4])
        combos = [(1.0, 1.0), (0.5, 0.25), (2.0, 0.0)]
    else:
        ts = [list(map(float, v)) for v in itertools.product((-1, 0, 1), repeat=k) if any(v)]
        ts.append([0.37 * (i + 1) * (-1) ** i for i in range(k)])
        combos = [(1.0, 1.0), (2.0, -1.0), (0.5, 0.25)]
    return ts, combos


def _eqnan(a, b):
    a = np.asarray(a, float)
    b = np.asarray(b, float)
    return a.shape == b.shape and bool(np.all((a == b) | (np.isnan(a) & np.isnan(b))))


def _laws(case, ctx):
    from rsatoolbox.rdm import RDMs
    from rsatoolbox import model as M
    cls = case['cls']
    if cls == 'base':
        _laws_base(case, ctx)
        return
    if 'prov' in case:
        _laws_provenance(case, ctx)
        return
    n, k, rep, fill = case['n_cond'], case['k'], case['rep'], case['fill']
    if cls == 'fixed' and k > 1 and rep != 'rdms':
        return        # a vector / matrix defines a single RDM
    masks = [[], [1]] if rep == 'rdms' or rep == 'vectors' else [[]]
    for mask in masks:
        basis, _ = _problem(ctx.seed, n, k, 1, fill, mask)
        sub = dict(case, mask=mask)
        sigp = 'Model%s|rep=%s' % (cls.capitalize(), rep)
        if cls == 'fixed' and k > 1:
            sigp += ',n_rdm>1'
        with ctx.guard(sigp, sub):
            B = np.array(basis, dtype=float)
            expected_desc = {'index': list(range(n))}
            if rep == 'rdms':
                pdesc = {'stim': np.array(STIM[:n]), 'name': list(NAMES[:n])}
                arg = RDMs(B, dissimilarity_measure='euclidean', pattern_descriptors=pdesc,
                           descriptors={'session': 3})
                expected_desc = {'index': list(range(n)), 'stim': STIM[:n], 'name': NAMES[:n]}
            elif rep == 'vectors':
                arg = B[0] if cls == 'fixed' else B
            else:
                mats = np.zeros((k, n, n))
                for r in range(k):
                    for e, (i, j) in enumerate(ref.pairs(n)):
                        mats[r, i, j] = mats[r, j, i] = B[r, e]
                arg = mats[0] if cls == 'fixed' else mats
            _law_suite(ctx, cls, arg, basis, expected_desc, n, k, sigp, sub, 1e-9)

        def build(B=B, rep=rep, mask=mask):
            if rep == 'rdms':
                a = RDMs(B.copy(), dissimilarity_measure='euclidean',
                         pattern_descriptors={'stim': np.array(STIM[:n]), 'name': list(NAMES[:n])},
                         descriptors={'session': 3})
                return a, [a.dissimilarities]
            if rep == 'vectors':
                a = B[0].copy() if cls == 'fixed' else B.copy()
                return a, [a]
            mats = np.zeros((k, n, n))
            for r in range(k):
                for e, (i, j) in enumerate(ref.pairs(n)):
                    mats[r, i, j] = mats[r, j, i] = B[r, e]
            a = mats[0] if cls == 'fixed' else mats
            return a, [a]
        if not (cls == 'fixed' and k > 1):
            _ownership_pass(ctx, cls, build, rep == 'rdms', basis, expected_desc, n, k, sigp, sub, 1e-9,
                            fits=False)


DTYPES = ('float64', 'float32', 'int64', 'int01')
PROVS = ('ndarray', 'rdms', 'fancy', 'subset', 'subsample')
SESS = [30, 10, 50, 20, 40, 60]          # rdm descriptor labels: distinct, not contiguous, unsorted


def _dtype_values(seed, dtype, rows, L):
    """`rows` distinct, non-constant RDM vectors whose values are exact in the dtype"""
    g = rng_for(seed, 'c08dtype', dtype, rows, L)
    out = []
    while len(out) < rows:
        if dtype == 'float64':
            v = np.round(g.uniform(0.2, 2.0, size=L), 4)
        elif dtype == 'float32':
            v = np.round(g.uniform(0.2, 2.0, size=L) * 8) / 8          # exact in float32
        elif dtype == 'int64':
            v = g.integers(0, 7, size=L).astype(float)
        else:
            v = g.integers(0, 2, size=L).astype(float)               # categorical 0/1 RDM
        if len(set(v.tolist())) < 2 or any(np.array_equal(v, o) for o in out):
            continue
        out.append(v)
    return np.array(out)


def _laws_provenance(case, ctx):
    """model laws and fits for a basis of a given dtype and provenance: the model has to use the
    RDMs it was handed BY POSITION, whatever their dtype and whatever their rdm descriptors say"""
    from rsatoolbox.rdm import RDMs
    cls, n, k, dtype, prov = case['cls'], case['n_cond'], case['k'], case['dtype'], case['prov']
    L = n * (n - 1) // 2
    P = k + 2
    np_dtype = {'float64': np.float64, 'float32': np.float32, 'int64': np.int64, 'int01': np.int64}[dtype]
    parent_vals = _dtype_values(ctx.seed, dtype, P, L)
    rows = {'ndarray': list(range(k)), 'rdms': list(range(k)),
            'fancy': list(range(k, 0, -1)),                       # non-identity order, without row 0
            'subset': list(range(1, k + 1)),                      # labels of rows 1..k
            'subsample': ([2, 0, 2, 1, 2] if cls != 'fixed' else [1])[:k]}[prov]       # with repeats
    basis = parent_vals[rows].tolist()                            # the check's own copy, by position
    sigp = 'Model%s|basis=%s,%s' % (cls.capitalize(), 'int' if dtype.startswith('int') else 'float',
                                    {'ndarray': 'array', 'rdms': 'rdms'}.get(prov, 'derived-rdms'))
    expected_desc = {'index': list(range(n))}
    if prov != 'ndarray':
        expected_desc = {'index': list(range(n)), 'stim': STIM[:n], 'name': NAMES[:n]}

    def build():
        """(constructor argument, arrays the caller still holds: the argument's own values and those of
        the stack it was taken from)"""
        if prov == 'ndarray':
            arg = parent_vals[rows].astype(np_dtype)
            if cls == 'fixed':
                arg = arg[0]
            return arg, [arg]
        pdesc = {'stim': np.array(STIM[:n]), 'name': list(NAMES[:n])}
        src = parent_vals.astype(np_dtype) if prov != 'rdms' else parent_vals[rows].astype(np_dtype)
        parent = RDMs(src, dissimilarity_measure='euclidean', pattern_descriptors=pdesc,
                      rdm_descriptors={'sess': list(SESS[:len(src)])}, descriptors={'session': 3})
        if prov == 'rdms':
            arg = parent
        elif prov == 'fancy':
            arg = parent[rows]
        elif prov == 'subset':
            arg = parent.subset('sess', [SESS[r] for r in rows])
        else:
            arg = parent.subsample('sess', [SESS[r] for r in rows])
        return arg, [arg.dissimilarities, parent.dissimilarities, src]

    with ctx.guard(sigp, case):
        arg, sources = build()
        if prov != 'ndarray':
            got_rows = np.asarray(arg.get_vectors(), dtype=float)
            if got_rows.shape != (k, L) or not np.array_equal(got_rows, np.array(basis)):
                ctx.exclude('derived RDMs object does not hold the expected rows (not a model question)')
                return
        tol = 1e-6 if dtype == 'float32' else 1e-9
        src_before = [_arr_bits(a) for a in sources]
        m = _law_suite(ctx, cls, arg, basis, expected_desc, n, k, sigp, case, tol)
        if m is not None and cls != 'fixed':
            _provenance_fits(ctx, m, cls, basis, n, k, case, sigp)
        # reverse direction: predicting / fitting / serialising never changes what the caller holds
        if [_arr_bits(a) for a in sources] != src_before:
            ctx.fail(sigp + '|modifies-source', case, 'the RDMs / array the model was built from changed '
                     'while the model was used')
    _ownership_pass(ctx, cls, build, prov != 'ndarray', basis, expected_desc, n, k, sigp, case, tol)


def _ownership_pass(ctx, cls, build, judged, basis, expected_desc, n, k, sigp, case, tol, fits=True):
    """construct the model, then overwrite IN PLACE everything the caller still holds (the constructor
    argument, the stack it was derived from, the raw array): the model must keep the values it was
    built with.  `judged`: RDMs-object input, which the library itself copies; a plain array MAY be
    adopted by the constructor (container policy) - that is counted, not judged."""
    from rsatoolbox import model as M
    klass = {'fixed': M.ModelFixed, 'select': M.ModelSelect, 'weighted': M.ModelWeighted,
             'interpolate': M.ModelInterpolate}[cls]
    sigo = sigp + ',source-overwritten'
    oc = dict(case, ownership='source overwritten after construction')
    with ctx.guard(sigo, oc):
        arg, sources = build()
        m = klass('mod', arg)
        held = lambda: _arr_bits(m.rdm) + _arr_bits(m.rdm_obj.dissimilarities)
        before = held()
        for a in sources:
            np.copyto(a, (7 - 3 * a).astype(a.dtype))
        ctx.case(oc)
        if held() != before:
            if not judged:
                ctx.count('array input adopted by the model constructor (allowed by the container policy)')
                ctx.outcome((cls, 'array adopted'))
                return
            ctx.fail('Model%s|%s|aliases-source-rdms' % (cls.capitalize(), sigp.split('|')[1]), oc,
                     'overwriting the RDMs object the model was built from (or the stack / array behind it) '
                     'changed model.rdm or model.rdm_obj')
        _law_suite(ctx, cls, arg, basis, expected_desc, n, k, sigo, oc, tol, model=m)
        if fits and cls != 'fixed':
            _provenance_fits(ctx, m, cls, basis, n, k, oc, sigo, light=True)


def _provenance_fits(ctx, model, cls, basis, n, k, case, sigp, light=False):
    """the closed-form fitters on such a model, judged by the usual oracles against the check's own
    copy of the basis"""
    from rsatoolbox.rdm import RDMs
    seed = ctx.seed
    fitters = {'weighted': ('fit_regress', 'fit_regress_nn'), 'select': ('fit_select',),
               'interpolate': ('fit_interpolate',)}[cls]
    _, data_full = _problem(seed, n, 2, 2, 0, [])
    boot = list(range(n - 1, 0, -1)) + [1]
    for fitter in fitters:
        for method, sigma in ((('cosine', 'none'),) if light else
                              (('cosine', 'none'), ('corr', 'none'), ('corr_cov', 'spd'))):
            for idx in (None, boot):
                fc = dict(case, fitter=fitter, method=method, sigma=sigma, idx=idx, n_data=2,
                          normalize=True, desc='index')
                positions = ref.select_positions(list(range(n)), idx)
                data_sel = [ref.subsample(d, positions) for d in data_full]
                sig_lib, sig_ref = _sigma(sigma, len(positions), seed)
                S = {'model': model, 'data': RDMs(np.array(data_sel, dtype=float)), 'positions': positions,
                     'data_sel': data_sel, 'basis': basis, 'data_full': data_full, 'kind': cls,
                     'sig_lib': sig_lib, 'sig_ref': sig_ref,
                     'pattern_idx': None if idx is None else np.array(idx),
                     'pattern_descriptor': None if idx is None else 'index'}
                if not _posed(fc, S):
                    ctx.exclude(NOT_POSED)
                    continue
                if cls == 'weighted':
                    sel = [ref.subsample(b, positions) for b in basis]
                    if not ref.regressors_independent(method, sel):
                        ctx.exclude('basis RDMs linearly dependent (weights not identified)')
                        continue
                elif any(ref.score_vector(method, ref.subsample(b, positions), data_sel, sig_ref) is None
                         for b in basis):
                    ctx.exclude('a candidate RDM is constant / zero on the selected conditions')
                    continue
                with ctx.guard('%s|%s,%s' % (fitter, _cfg(fc), sigp.split('|')[1]), fc):
                    theta = _call(fc, S, seed, ctx=ctx)
                    ctx.case(fc)
                    if cls == 'weighted':
                        _judge_weighted(fc, ctx, S, theta, fitter)
                    else:
                        _judge_candidates(fc, ctx, S, theta, fitter)


def _law_suite(ctx, cls, arg, basis, expected_desc, n, k, sigp, sub, tol, model=None):
    """build the model from `arg` and judge every model law against `basis` (the check's own copy of
    the RDMs, by position); returns the model"""
    from rsatoolbox.rdm import RDMs
    from rsatoolbox import model as M
    L = n * (n - 1) // 2
    B = np.array(basis, dtype=float)
    klass = {'fixed': M.ModelFixed, 'select': M.ModelSelect, 'weighted': M.ModelWeighted,
             'interpolate': M.ModelInterpolate}[cls]
    if True:
        if True:
            m = klass('mod', arg) if model is None else model
            m2 = M.model_from_dict(m.to_dict())
            if type(m2) is not type(m) or m2.name != m.name or m2.n_param != m.n_param:
                ctx.fail(sigp + '|dict-roundtrip-changes-class-or-name', sub,
                         '%r %r %r' % (type(m2), m2.name, m2.n_param))
            thetas, combos = _theta_sets(cls, k)
            preds = []
            for t in thetas:
                targ = t if (t is None or isinstance(t, int)) else np.array(t)
                c = dict(sub, theta=t)
                ctx.case(c)
                v, r = _predict_both(ctx, m, targ, sigp, c)
                v = np.asarray(v, dtype=float)
                rv = np.asarray(r.get_vectors(), dtype=float)
                preds.append(v)
                ctx.outcome((cls, sigp, np.round(np.nan_to_num(v, nan=-9), 6).tolist()))
                if rv.shape != (1, L) or v.shape != (L,) or not allclose(rv[0], v, min(tol, 1e-12) if tol <= 1e-9 else tol):
                    ctx.fail(sigp + '|predict-differs-from-predict_rdm', c,
                             'predict %r, predict_rdm vectors %r' % (v, rv))
                want = ref.predict(cls, basis, t)
                if cls == 'fixed' and k > 1:
                    want = v          # which single RDM a stack defines is the class's choice
                ctx.dev('predict vs reference', maxreldev(v, want))
                if not allclose(v, want, tol):
                    ctx.fail(sigp + '|predict-differs-from-weighted-sum', c, 'got %r want %r' % (v, want))
                # descriptors carried
                if r.n_cond != n:
                    ctx.fail(sigp + '|predict_rdm-n_cond', c, repr(r.n_cond))
                for key, val in expected_desc.items():
                    got = r.pattern_descriptors.get(key)
                    if got is None or list(got) != list(val):
                        ctx.fail(sigp + '|pattern-descriptor-not-carried', dict(c, key=key),
                                 'descriptor %r: %r, model has %r' % (key, got, val))
                # dictionary round trip
                v2, r2 = _predict_both(ctx, m2, targ, sigp + ',rebuilt-from-dict', c)
                v2 = np.asarray(v2, dtype=float)
                if not _eqnan(v2, v) or not _eqnan(r2.get_vectors(), rv):
                    ctx.fail(sigp + '|dict-roundtrip-predicts-differently', c, '%r vs %r' % (v2, v))
                for key, val in expected_desc.items():
                    got = r2.pattern_descriptors.get(key)
                    if got is None or list(got) != list(val):
                        ctx.fail(sigp + '|dict-roundtrip-loses-pattern-descriptor', dict(c, key=key),
                                 'descriptor %r: %r, model has %r' % (key, got, val))
            # theta given as list / column instead of 1-D array
            if cls in ('weighted', 'interpolate'):
                t = thetas[-1]
                for form, targ in (('list', list(t)), ('column', np.array(t).reshape(-1, 1))):
                    c = dict(sub, theta=t, form=form)
                    ctx.case(c)
                    if not _eqnan(m.predict(targ), preds[-1]) or \
                            not _eqnan(m.predict_rdm(targ).get_vectors()[0], preds[-1]):
                        ctx.fail(sigp + '|prediction-depends-on-theta-container', c, form)
            # linearity
            for (i, t1), (j, t2) in itertools.combinations(list(enumerate(thetas)), 2):
                if not combos:
                    break
                for a, b in combos:
                    tc = [a * x + b * y for x, y in zip(t1, t2)]
                    c = dict(sub, law='linear', t1=t1, t2=t2, ab=[a, b])
                    ctx.case(c)
                    lhs = np.asarray(m.predict(np.array(tc)), float)
                    rhs = a * preds[i] + b * preds[j]
                    lhs_r = np.asarray(m.predict_rdm(np.array(tc)).get_vectors()[0], float)
                    if not allclose(lhs, rhs, tol):
                        ctx.fail(sigp + '|predict-not-linear', c, '%r vs %r' % (lhs, rhs))
                    if not allclose(lhs_r, rhs, tol):
                        ctx.fail(sigp + '|predict_rdm-not-linear', c, '%r vs %r' % (lhs_r, rhs))
            # default fitter of the class
            if cls == 'fixed':
                c = dict(sub, law='fit-default')
                ctx.case(c)
                th = m.fit(RDMs(B))
                if np.asarray(th).shape != (0,):
                    ctx.fail(sigp + '|fit-returns-parameters-for-parameter-free-model', c, repr(th))
    return m


def _laws_base(case, ctx):
    from rsatoolbox import model as M
    with ctx.guard('Model|base', case):
        m = M.Model('base')
        m2 = M.model_from_dict(m.to_dict())
        ctx.case(dict(case, law='dict'))
        if type(m2) is not M.Model or m2.name != 'base' or m2.n_param != 0:
            ctx.fail('Model|base|dict-roundtrip-changes-class-or-name', case, repr(m2))
        for meth in ('predict', 'predict_rdm'):
            for obj in (m, m2):
                ctx.case(dict(case, law=meth, rebuilt=obj is m2))
                try:
                    getattr(obj, meth)(None)
                    ctx.fail('Model|base|abstract-%s-returns' % meth, case, 'no NotImplementedError')
                except NotImplementedError:
                    ctx.outcome(('base', meth, 'NotImplementedError'))
        ctx.case(dict(case, law='fit'))
        th = m.fit(None)
        ctx.outcome(('base fit', np.asarray(th).shape))
        if np.asarray(th).shape != (0,):
            ctx.fail('Model|base|fit-returns-parameters', case, repr(th))


# ----------------------------------------------------------------------------- K: wrapper, zero, ranks, edges
def _wrapper(case, ctx):
    """Fitter(fit_fun, **kwargs)(model, data, ...) == fit_fun(model, data, ..., **kwargs), bit for bit,
    whichever way the keyword arguments are split between construction and call, also when the
    object is handed out by input_check_model; arguments unchanged (the uniform snapshot in _call)"""
    f = case['fitter']
    slow = f in RAND_FITTERS
    kind_k = 3 if f in ('fit_select', 'fit_interpolate') else 2
    for method, sigma in ((('cosine', 'none'),) if slow else (('cosine', 'none'), ('corr_cov', 'spd'))):
        for idx in ((None,) if slow else (None, [4, 3, 2, 2, 0])):
            c = {'kind': 'fit', 'fitter': f, 'n_cond': 5, 'k': kind_k, 'n_data': 2, 'fill': 0, 'mask': [],
                 'desc': 'big', 'method': method, 'sigma': sigma, 'idx': idx, 'normalize': True, 'menu': 1,
                 'perturb': False}
            fname = _fname(c)
            with ctx.guard('%s|%s,via-Fitter' % (fname, _cfg(c)), c):
                S = _build(c, ctx.seed)
                if not _posed(c, S):
                    ctx.exclude(NOT_POSED)
                    continue
                direct = _call(c, S, ctx.seed, ctx=ctx)
                ctx.case(c)
                if S['kind'] == 'weighted':
                    _judge_weighted(c, ctx, S, direct, fname)
                else:
                    _judge_candidates(c, ctx, S, direct, fname)
                for via in ('Fitter', 'Fitter-call-kwargs', 'input_check_model'):
                    cv = dict(c, via=via)
                    got = _call(cv, _build(cv, ctx.seed), ctx.seed, ctx=ctx)
                    ctx.case(cv)
                    if not _same_bits(direct, got):
                        ctx.fail('Fitter|%s,%s|differs-from-direct-call' % (f, via), cv,
                                 'direct call %r, through %s %r' % (direct, via, got))
    if f == 'fit_regress':       # the formally acceptable do-nothing fitter, wrapped
        c = {'kind': 'fit', 'fitter': 'fit_mock', 'n_cond': 5, 'k': 2, 'n_data': 2, 'fill': 0, 'mask': [],
             'desc': 'index', 'method': 'cosine', 'sigma': 'none', 'idx': None, 'via': 'Fitter', 'perturb': False}
        with ctx.guard('fit_mock|via-Fitter', c):
            th = _call(c, _build(c, ctx.seed), ctx.seed, ctx=ctx)
            ctx.case(c)
            if np.asarray(th).shape != (2,) or np.any(np.asarray(th) != 0):
                ctx.fail('fit_mock|via-Fitter|not-zeros', c, repr(th))


def _zero_projection(case, ctx):
    """training RDMs exactly orthogonal to every basis RDM: the unnormalised weights are exactly zero
    (the normalise-on branch must cope with norm 0) and every weight vector scores exactly 0"""
    from rsatoolbox.rdm import RDMs
    from rsatoolbox import model as M
    probs = {'cosine': ([[1., 0, 0, 0, 0, 0], [0, 2., 0, 0, 0, 0]], [[0, 0, 1., 2, 0, 1], [0, 0, 2., 1, 3, 0]]),
             # mean-free basis RDMs, training RDMs equal on the two entries the basis contrasts
             'corr': ([[1., -1, 0, 0, 0, 0], [0, 0, 2., -2, 0, 0]], [[3., 3, 1, 1, 0, 5], [2., 2, 4, 4, 1, 0]])}
    for method, (basis, data) in probs.items():
        for fitter in ('fit_regress', 'fit_regress_nn'):
            for normalize in (True, False):
                for n_data in (1, 2):
                    c = dict(case, fitter=fitter, method=method, sigma='none', normalize=normalize, k=2,
                             n_data=n_data, n_cond=4)
                    S = {'model': M.ModelWeighted('m', RDMs(np.array(basis))),
                         'data': RDMs(np.array(data[:n_data])), 'positions': [0, 1, 2, 3],
                         'data_sel': data[:n_data], 'basis': basis, 'data_full': data[:n_data],
                         'kind': 'weighted', 'sig_lib': None, 'sig_ref': None, 'pattern_idx': None,
                         'pattern_descriptor': None}
                    with ctx.guard('%s|%s,zero-projection' % (fitter, _cfg(c)), c):
                        theta = _call(c, S, ctx.seed, ctx=ctx)
                        ctx.case(c)
                        if np.any(np.asarray(theta) != 0):
                            ctx.count('zero-projection problem answered with non-zero weights')
                        _judge_weighted(c, ctx, S, theta, fitter)


def _rank_select(case, ctx):
    """fit_select accepts every measure of compare(): also for the rank-based ones the returned
    candidate must be the best single candidate (beyond the methods the statement lists; selection only)"""
    for method in ('spearman', 'kendall', 'tau-a', 'rho-a'):
        for n_cond, k, fill in ((4, 3, 0), (5, 3, 1), (5, 4, 2)):
            for idx in (None, list(range(n_cond - 1, 0, -1)) + [1]):
                c = {'kind': 'fit', 'fitter': 'fit_select', 'n_cond': n_cond, 'k': k, 'n_data': 3, 'fill': fill,
                     'mask': [], 'desc': 'stim', 'method': method, 'sigma': 'none', 'idx': idx, 'perturb': False}
                run_case(c, ctx)


def _edges(case, ctx):
    """inputs the fitters / models reject, and parameters left at their default"""
    from rsatoolbox.rdm import RDMs
    from rsatoolbox import model as M
    from rsatoolbox.model import fitter as F
    seed = ctx.seed
    # measures the regression fitters do not support: pooled first, then rejected; arguments untouched
    for fitter in ('fit_regress', 'fit_regress_nn'):
        for method in ('spearman', 'kendall', 'tau-a', 'rho-a', 'euclid', 'no-such-measure'):
            c = {'kind': 'fit', 'fitter': fitter, 'n_cond': 4, 'k': 2, 'n_data': 2, 'fill': 0, 'mask': [],
                 'desc': 'index', 'method': method, 'sigma': 'none', 'idx': None, 'normalize': True,
                 'perturb': False}
            S = _build(dict(c, method='cosine'), seed)
            ctx.case(dict(case, probe=[fitter, method]), nontrivial=False)
            before = _snapshot(S)
            try:
                th = _call(c, S, seed)
                ctx.outcome((fitter, method, 'accepted', np.asarray(th).shape))
            except ValueError:
                ctx.outcome((fitter, method, 'ValueError'))
            except Exception as e:               # rejected in some other way: recorded
                ctx.outcome((fitter, method, type(e).__name__))
            if _snapshot(S) != before:
                ctx.fail('%s|unsupported-method|modifies-argument' % fitter, c, 'arguments changed by a rejected call')
    # something that is neither a model nor a list of models
    from rsatoolbox.util.inference_util import input_check_model
    ctx.case(dict(case, probe=['input_check_model', 'not a model']), nontrivial=False)
    try:
        input_check_model(3)
        ctx.outcome(('input_check_model', 'int accepted'))
    except Exception as e:
        ctx.outcome(('input_check_model', 'int', type(e).__name__))
    # vectors whose length is no n(n-1)/2
    for cls in (M.ModelFixed, M.ModelSelect, M.ModelWeighted, M.ModelInterpolate):
        arg = np.arange(1.0, 6.0) if cls is M.ModelFixed else np.arange(1.0, 11.0).reshape(2, 5)
        ctx.case(dict(case, probe=[cls.__name__, 'vector of impossible length']), nontrivial=False)
        try:
            cls('bad', arg)
            ctx.outcome((cls.__name__, 'impossible length accepted'))
        except Exception as e:
            ctx.outcome((cls.__name__, 'impossible length', type(e).__name__))
    # theta left out: the weighted model predicts the plain sum with both methods
    basis, _ = _problem(seed, 4, 3, 1, 0, [])
    for rep_ in ('rdms', 'vectors'):
        m = M.ModelWeighted('w', RDMs(np.array(basis)) if rep_ == 'rdms' else np.array(basis))
        c = dict(case, probe=['ModelWeighted', rep_, 'theta=None'])
        ctx.case(c)
        v = np.asarray(m.predict(), float)
        r = np.asarray(m.predict_rdm().get_vectors(), float)
        want = ref.predict('weighted', basis, [1.0, 1.0, 1.0])
        if not allclose(v, want, 1e-9) or r.shape != (1, 6) or not allclose(r[0], want, 1e-9):
            ctx.fail('ModelWeighted|theta=None|not-the-plain-sum', c, '%r / %r, want %r' % (v, r, want))
    # the interpolation model has two different defaults (predict: 0.5/0.5 of the first pair, predict_rdm:
    # all ones) - executed and recorded, not judged (see ASSUMPTIONS)
    mi = M.ModelInterpolate('i', np.array(basis))
    ctx.case(dict(case, probe=['ModelInterpolate', 'theta=None']), nontrivial=False)
    vi = np.asarray(mi.predict(), float)
    ri = np.asarray(mi.predict_rdm().get_vectors(), float)[0]
    ctx.note('ModelInterpolate theta=None', 'predict() == predict_rdm(): %s' % bool(allclose(vi, ri, 1e-9)))
    ms = M.ModelSelect('s', np.array(basis))
    ctx.case(dict(case, probe=['ModelSelect', 'theta default']))
    if not _eqnan(ms.predict(), basis[0]) or not _eqnan(ms.predict_rdm().get_vectors()[0], basis[0]):
        ctx.fail('ModelSelect|theta=default|not-the-first-candidate', case, 'default theta')


# ----------------------------------------------------------------------------- F: sigma forms
def _sigma_forms(case, ctx):
    """compare() accepts sigma_k as a 1-D variance vector (undocumented); the fitters document a
    matrix only.  Where a fitter accepts the vector it must be judged like the diagonal matrix;
    where it rejects it, that is recorded (note), not a violation of the statement."""
    res = {}
    for fitter in ('fit_regress', 'fit_regress_nn', 'fit_optimize', 'fit_optimize_positive',
                   'fit_select', 'fit_interpolate'):
        for method in ('cosine_cov', 'corr_cov'):
            c = {'kind': 'fit', 'fitter': fitter, 'n_cond': 4, 'k': 2, 'n_data': 1, 'fill': 0,
                 'mask': [], 'desc': 'index', 'method': method, 'sigma': 'vector', 'idx': [3, 2, 1, 0],
                 'normalize': True, 'menu': 0, 'perturb': False}
            S = _build(c, ctx.seed)
            try:
                theta = _call(c, S, ctx.seed, ctx=ctx)
            except Exception as e:          # undocumented input form: recorded, not judged
                res['%s/%s' % (fitter, method)] = 'rejects 1-D sigma_k: %s' % type(e).__name__
                ctx.exclude('1-D sigma_k rejected by a fitter (form documented for no fitter)')
                continue
            res['%s/%s' % (fitter, method)] = 'accepts 1-D sigma_k'
            ctx.case(c)
            with ctx.guard('%s|%s' % (fitter, _cfg(c)), c):
                if S['kind'] == 'weighted':
                    _judge_weighted(c, ctx, S, theta, fitter)
                else:
                    _judge_candidates(c, ctx, S, theta, fitter)
    ctx.note('sigma_k as 1-D vector', res)
