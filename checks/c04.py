"""C04 - each stored evaluation is the direct comparison of prediction and resampled data (DESIGN 4/C04)

Choice-point exploration of every random draw (numpy.random.randint / shuffle) made inside the
evaluation routines, by prefix replay; the resample / fold constructors as seen by the routines
are wrapped by recorders (calling the real functions), so the oracle works from the OBSERVED
history: every stored evaluation must equal the reference similarity between the reference
prediction restricted to the recorded resample's / test fold's conditions and the recorded data.
"""
import contextlib
import itertools
import math

import numpy as np

from mc import choice, rngenv, selfdesc
from mc.ref import measures as RM
from mc.ref import pooling as RP
from mc.runner import HarnessError
from mc.util import close, rng_for

PROPERTY = 'C04'
LEVEL = 'model_checking'
RULE = ('Configurations = (routine, n_rdm x n_cond, grouping descriptors, model list fixed/weighted(given theta)/'
        'weighted(fitted by a recording fitter)/select/interpolate, method, routine options). For each, every '
        'answer of the intercepted numpy.random draws of the FIRST resample is enumerated (later resamples pinned '
        'to the identity draw) for the plain bootstraps, and every execution with <= bound deviations for the '
        'cross-validated bootstraps; states/transitions = nodes/edges of the explored choice trees; one evaluation '
        '= one complete execution of the real routine, every stored number of which is judged against the '
        'reference computed from the recorded samples / folds. Non-trivial = at least one non-identity draw; '
        'distinct = (configuration, draw history).'
        ' Also: the n_cv-corrected covariance against the documented projection, per-repetition ceilings of eval_dual_bootstrap_random, model lists with repeated names, stacks of 40 RDMs in 20 groups, every boot_type with grouped descriptors.')
ASSUMPTIONS = ['the recorded sample / fold objects are what the routine evaluated on (their own faithfulness is C09 / C05)',
               'randomness enters only through numpy.random.randint / shuffle (tripwires elsewhere)',
               'with the n_cv correction off the covariance oracle is the sample covariance the statement describes; with '
               'the correction on it is the documented projection (n_cv V(n_cv) - V(1)) / (n_cv - 1) recomputed '
               'from the stored evaluations of all repetitions']
TOL = 1e-9
TOLERANCES = {'evaluation': TOL, 'variance': 1e-9}
BOUNDS = {'quick': {'sizes': '2x4, 3x4, 3x5', 'N': 2, 'cv deviation bound': 1},
          'thorough': {'sizes': '2x4, 3x4, 3x5, 4x6', 'N': '2-3', 'cv deviation bound': 2}}

METHODS = ['cosine', 'corr', 'rho-a']


# ----------------------------------------------------------------------------- data and models
def make_data(n_rdm, n_cond, seed, container='list'):
    d = selfdesc.build(list(range(n_rdm)), list(range(n_cond)), container=container,
                       rdm_desc=('rid', 'grp', 'rname', 'rsub', 'rtime'))
    g = rng_for(seed, 'c04data', n_rdm, n_cond)
    d.dissimilarities = np.round(g.uniform(0.2, 3.0, size=d.dissimilarities.shape), 3)
    return d


def basis_vectors(n_cond, seed, k=2):
    g = rng_for(seed, 'c04basis', n_cond, k)
    L = n_cond * (n_cond - 1) // 2
    return np.round(g.uniform(0.2, 3.0, size=(k, L)), 3)


class RecFitter:
    """a user-supplied fitter (public API): records its arguments, delegates to fit_regress"""

    def __init__(self):
        self.calls = []

    def __call__(self, model, data, method='cosine', pattern_idx=None, pattern_descriptor=None, sigma_k=None):
        from rsatoolbox.model.fitter import fit_regress
        # fit_regress supports the cosine / correlation family only; for other evaluation methods
        # this (user-supplied) fitter fits the correlation criterion
        fm = method if method in ('cosine', 'corr', 'cosine_cov', 'corr_cov') else 'corr'
        try:
            theta = fit_regress(model, data, method=fm, pattern_idx=pattern_idx,
                                pattern_descriptor=pattern_descriptor, sigma_k=sigma_k)
        except np.linalg.LinAlgError:
            # the fit is not posed on this (too small) training sample; a user fitter may return
            # anything - the oracle uses the recorded value
            theta = np.ones(model.n_param) / np.sqrt(model.n_param)
        self.calls.append({'data': data, 'pattern_idx': None if pattern_idx is None else list(pattern_idx),
                           'theta': np.array(theta, dtype=float).copy(), 'model': model.name, 'method': method})
        return theta


def make_models(kinds, n_cond, seed, container='list'):
    """-> (models, spec) where spec[i] = dict(kind, basis, theta) for the reference"""
    from rsatoolbox import model as MD
    models, spec = [], []
    B = basis_vectors(n_cond, seed)
    for kind in kinds:
        obj = selfdesc.build([7, 8], list(range(n_cond)), container=container)
        obj.dissimilarities = B.copy()
        if kind == 'fixed':
            o1 = selfdesc.build([7], list(range(n_cond)), container=container)
            o1.dissimilarities = B[:1].copy()
            models.append(MD.ModelFixed('fixed', o1))
            spec.append({'kind': 'fixed', 'basis': B[:1], 'theta': None})
        elif kind == 'weighted':
            models.append(MD.ModelWeighted('weighted', obj))
            spec.append({'kind': 'weighted', 'basis': B, 'theta': np.array([0.8, 0.6])})
        elif kind == 'fitted':
            models.append(MD.ModelWeighted('fitted', obj))
            spec.append({'kind': 'fitted', 'basis': B, 'theta': None})
        elif kind == 'select':
            models.append(MD.ModelSelect('select', obj))
            spec.append({'kind': 'select', 'basis': B, 'theta': 1})
        elif kind == 'interpolate':
            models.append(MD.ModelInterpolate('interp', obj))
            spec.append({'kind': 'interpolate', 'basis': B, 'theta': np.array([0.25, 0.75])})
        # entries of the model list need not have distinct names: a second model under a name already in the
        # list, and ONE model object listed twice with two parameter values
        elif kind == 'fixed-same-name':
            o1 = selfdesc.build([8], list(range(n_cond)), container=container)
            o1.dissimilarities = B[1:2].copy()
            models.append(MD.ModelFixed('fixed', o1))
            spec.append({'kind': 'fixed', 'basis': B[1:2], 'theta': None})
        elif kind == 'select-same-object':
            prev = [m for m in models if isinstance(m, MD.ModelSelect)]
            models.append(prev[-1] if prev else MD.ModelSelect('select', obj))
            spec.append({'kind': 'select', 'basis': B, 'theta': 0})
    return models, spec


def ref_prediction(spec, theta):
    """full prediction vector of the reference model"""
    B = spec['basis']
    if spec['kind'] == 'fixed':
        return [float(v) for v in B[0]]
    if spec['kind'] == 'select':
        return [float(v) for v in B[int(theta)]]
    th = [float(t) for t in np.asarray(theta).ravel()]
    return [sum(th[k] * float(B[k][j]) for k in range(len(th))) for j in range(B.shape[1])]


def restrict(full, n_cond, cids):
    """vector of `full` (over n_cond conditions) at the condition list `cids` (with multiplicity;
    pairs of two copies of one condition are missing)"""
    idx = {}
    k = 0
    for i in range(n_cond):
        for j in range(i + 1, n_cond):
            idx[(i, j)] = k
            k += 1
    out = []
    for i in range(len(cids)):
        for j in range(i + 1, len(cids)):
            a, b = cids[i], cids[j]
            if a == b:
                out.append(float('nan'))
            else:
                out.append(full[idx[(min(a, b), max(a, b))]])
    return out


def expected_eval(spec, theta, n_cond, obj, method):
    """mean reference similarity between the restricted reference prediction and the RDMs of `obj`"""
    _, cids = selfdesc.read_ids(obj)
    pred = restrict(ref_prediction(spec, theta), n_cond, cids)
    vecs = [list(map(float, v)) for v in np.asarray(obj.dissimilarities)]
    return RP.mean_sim(method, pred, vecs)


# ----------------------------------------------------------------------------- recorders
class Recorder:
    def __init__(self):
        self.events = []


@contextlib.contextmanager
def recording(rec):
    """wrap the resample / fold constructors as seen by rsatoolbox.inference.evaluate"""
    import rsatoolbox.inference.evaluate as EV
    import rsatoolbox.inference.boot_testset as BT
    names = ['bootstrap_sample', 'bootstrap_sample_rdm', 'bootstrap_sample_pattern', 'sets_k_fold', 'sets_random']
    saved = []
    for mod, required in ((EV, names), (BT, names[:3])):
        for n in required:
            if not hasattr(mod, n):
                raise HarnessError('binding lost: %s has no name %r' % (mod.__name__, n))
            real = getattr(mod, n)
            saved.append((mod, n, real))

            def wrap(*a, _real=real, _n=n, **k):
                out = _real(*a, **k)
                rec.events.append((_n, a, k, out))
                return out
            setattr(mod, n, wrap)
    try:
        yield
    finally:
        for mod, n, f in saved:
            setattr(mod, n, f)


def _groups_count(data, desc):
    return len(set(map(str, list(data.rdm_descriptors[desc])))) if desc else data.n_rdm


# ----------------------------------------------------------------------------- configurations
def configs(tier):
    big = tier == 'thorough'
    out = []
    sizes = [(2, 4), (3, 4), (3, 5)] + ([(4, 6)] if big else [])
    # A eval_fixed
    for (nr, nc) in sizes + [(1, 4)]:
        for method in METHODS:
            out.append({'routine': 'eval_fixed', 'n_rdm': nr, 'n_cond': nc, 'method': method,
                        'models': ['fixed', 'weighted', 'select', 'interpolate']})
    # (the parameters in the other documented containers: tuple, one array row per model)
    for form in ('tuple', 'array2d'):
        out.append({'routine': 'eval_fixed', 'n_rdm': 3, 'n_cond': 4, 'method': 'cosine',
                    'models': ['weighted', 'interpolate'], 'theta_form': form})
        for routine in ('eval_bootstrap', 'eval_bootstrap_rdm', 'eval_bootstrap_pattern'):
            out.append({'routine': routine, 'n_rdm': 3, 'n_cond': 4, 'method': 'cosine', 'rdm_desc': 'index',
                        'pat_desc': 'index', 'N': 2, 'boot_noise_ceil': True, 'models': ['weighted', 'interpolate'],
                        'theta_form': form})
    # model lists with repeated names / one object listed twice at two parameter values
    dup = ['fixed', 'select', 'fixed-same-name', 'select-same-object']
    out.append({'routine': 'eval_fixed', 'n_rdm': 3, 'n_cond': 4, 'method': 'cosine', 'models': dup})
    for routine in ('eval_bootstrap', 'eval_bootstrap_rdm', 'eval_bootstrap_pattern'):
        out.append({'routine': routine, 'n_rdm': 3, 'n_cond': 5, 'method': 'cosine', 'rdm_desc': 'index',
                    'pat_desc': 'index', 'N': 2, 'boot_noise_ceil': True, 'models': dup})
    out.append({'routine': 'crossval', 'n_rdm': 3, 'n_cond': 6, 'method': 'cosine', 'gen': 'sets_k_fold',
                'models': ['fixed', 'fitted', 'fixed-same-name']})
    out.append({'routine': 'bootstrap_crossval', 'n_rdm': 3, 'n_cond': 6, 'method': 'cosine', 'boot_type': 'both',
                'k_pattern': 2, 'k_rdm': 1, 'n_cv': 1, 'N': 2, 'rdm_desc': 'index', 'pat_desc': 'index',
                'models': ['fixed', 'fitted', 'fixed-same-name']})
    # B plain bootstraps
    for routine in ('eval_bootstrap', 'eval_bootstrap_rdm', 'eval_bootstrap_pattern'):
        for (nr, nc) in sizes:
            for method in METHODS:
                for rd, pd in [('index', 'index'), ('grp', 'index'), ('index', 'pgrp'), ('rid', 'cid')]:
                    if routine == 'eval_bootstrap_rdm' and pd != 'index':
                        continue
                    if not big and method != 'cosine' and (rd, pd) != ('index', 'index'):
                        continue
                    for bnc in (True, False):
                        if not bnc and (method != 'cosine' or rd != 'index' or pd != 'index'):
                            continue
                        out.append({'routine': routine, 'n_rdm': nr, 'n_cond': nc, 'method': method, 'rdm_desc': rd,
                                    'pat_desc': pd, 'N': 2, 'boot_noise_ceil': bnc, 'models': ['fixed', 'weighted']})
    if big:
        for routine in ('eval_bootstrap', 'eval_bootstrap_rdm', 'eval_bootstrap_pattern'):
            out.append({'routine': routine, 'n_rdm': 3, 'n_cond': 4, 'method': 'cosine', 'rdm_desc': 'index',
                        'pat_desc': 'index', 'N': 3, 'boot_noise_ceil': True, 'models': ['fixed', 'weighted'],
                        'menu3': True})
    # C crossval on generated sets
    for (nr, nc) in [(2, 6), (3, 6)] + ([(3, 7)] if big else []):
        for method in METHODS:
            for gen in ('sets_k_fold', 'sets_k_fold_pattern', 'sets_k_fold_rdm', 'sets_leave_one_out_rdm'):
                if gen in ('sets_k_fold_rdm', 'sets_leave_one_out_rdm') and nr < 2:
                    continue
                out.append({'routine': 'crossval', 'n_rdm': nr, 'n_cond': nc, 'method': method, 'gen': gen,
                            'models': ['fixed', 'fitted']})
    # a number of conditions that the folds do not divide (surplus condition in the first fold)
    if not big:
        for gen in ('sets_k_fold', 'sets_k_fold_pattern'):
            out.append({'routine': 'crossval', 'n_rdm': 3, 'n_cond': 7, 'method': 'cosine', 'gen': gen,
                        'models': ['fixed', 'fitted']})
    # folds over a pattern descriptor whose values do not increase along the conditions (unique strings in
    # non-alphabetical order; interleaved groups): prediction and test data must be cut alike
    for gen in ('sets_k_fold', 'sets_k_fold_pattern'):
        for pdn in ('name', 'cat'):
            out.append({'routine': 'crossval', 'n_rdm': 3, 'n_cond': 6, 'method': 'cosine', 'gen': gen,
                        'models': ['fixed', 'fitted'], 'pat_desc': pdn})
    out.append({'routine': 'bootstrap_crossval', 'n_rdm': 3, 'n_cond': 6, 'method': 'cosine', 'boot_type': 'rdm',
                'k_pattern': 2, 'k_rdm': 1, 'n_cv': 1, 'N': 2, 'rdm_desc': 'index', 'pat_desc': 'name',
                'models': ['fixed', 'fitted']})
    # dual bootstrap over descriptor GROUPS of RDMs (several RDMs per group), without and with folds
    for (kp, kr) in [(1, 1), (2, 1)]:
        out.append({'routine': 'eval_dual_bootstrap', 'n_rdm': 4, 'n_cond': 6, 'method': 'cosine', 'k_pattern': kp,
                    'k_rdm': kr, 'n_cv': 1, 'N': 2, 'rdm_desc': 'grp', 'pat_desc': 'index', 'models': ['fixed', 'fitted']})
    # (array-typed, increasing pattern descriptor used for the folds: shares memory with the data)
    for gen in ('sets_k_fold', 'sets_k_fold_pattern'):
        out.append({'routine': 'crossval', 'n_rdm': 3, 'n_cond': 6, 'method': 'cosine', 'gen': gen,
                    'models': ['fixed', 'fitted'], 'container': 'ndarray', 'pat_desc': 'cid'})
    for bt in ('both', 'pattern', 'rdm'):
        out.append({'routine': 'bootstrap_crossval', 'n_rdm': 3, 'n_cond': 6, 'method': 'cosine', 'boot_type': bt,
                    'k_pattern': 2, 'k_rdm': 1, 'n_cv': 1, 'N': 2, 'rdm_desc': 'index', 'pat_desc': 'cid',
                    'models': ['fixed', 'fitted'], 'container': 'ndarray'})
    # three resamples: one deviation makes one of them too small, the covariance then runs over two
    for (kp, kr) in [(2, 1), (1, 1)]:
        out.append({'routine': 'eval_dual_bootstrap', 'n_rdm': 3, 'n_cond': 6, 'method': 'cosine', 'k_pattern': kp,
                    'k_rdm': kr, 'n_cv': 1, 'N': 3, 'rdm_desc': 'index', 'pat_desc': 'index', 'models': ['fixed', 'fitted']})
    out.append({'routine': 'bootstrap_crossval', 'n_rdm': 3, 'n_cond': 6, 'method': 'cosine', 'boot_type': 'both',
                'k_pattern': 2, 'k_rdm': 1, 'n_cv': 1, 'N': 3, 'rdm_desc': 'index', 'pat_desc': 'index',
                'models': ['fixed', 'fitted']})
    # every history over a menu of three draws per resample {identity, too small, generic}: NaN marking,
    # exclusion of the NaN resamples from the covariance (27 histories each)
    out.append({'routine': 'eval_dual_bootstrap', 'n_rdm': 3, 'n_cond': 6, 'method': 'cosine', 'k_pattern': 1,
                'k_rdm': 1, 'n_cv': 1, 'N': 3, 'rdm_desc': 'index', 'pat_desc': 'index', 'models': ['fixed', 'fitted'],
                'menu3': True})
    out.append({'routine': 'bootstrap_crossval', 'n_rdm': 3, 'n_cond': 6, 'method': 'cosine', 'boot_type': 'both',
                'k_pattern': 1, 'k_rdm': 1, 'n_cv': 1, 'N': 3, 'rdm_desc': 'index', 'pat_desc': 'index',
                'models': ['fixed', 'fitted'], 'menu3': True})
    for routine in ('eval_bootstrap', 'eval_bootstrap_pattern'):
        out.append({'routine': routine, 'n_rdm': 3, 'n_cond': 6, 'method': 'cosine', 'rdm_desc': 'index',
                    'pat_desc': 'index', 'N': 3, 'boot_noise_ceil': True, 'models': ['fixed', 'weighted'],
                    'menu3': True})
    # D cross-validated bootstraps
    for (nr, nc) in [(3, 6)] + ([(4, 6), (3, 7)] if big else []):
        for method in (METHODS if big else ['cosine', 'corr']):
            for bt in ('both', 'pattern', 'rdm'):
                for (kp, kr) in [(2, 1), (1, 2), (2, 2)]:
                    if not big and method != 'cosine' and (kp, kr) != (2, 1):
                        continue
                    for ncv in (1, 2):
                        if ncv == 2 and (not big) and (kp, kr) != (2, 1):
                            continue
                        out.append({'routine': 'bootstrap_crossval', 'n_rdm': nr, 'n_cond': nc, 'method': method,
                                    'boot_type': bt, 'k_pattern': kp, 'k_rdm': kr, 'n_cv': ncv, 'N': 2,
                                    'rdm_desc': 'index', 'pat_desc': 'index', 'models': ['fixed', 'fitted']})
            for (kp, kr) in [(2, 1), (1, 2), (1, 1)] + ([(2, 2)] if big else []):
                out.append({'routine': 'eval_dual_bootstrap', 'n_rdm': nr, 'n_cond': nc, 'method': method,
                            'k_pattern': kp, 'k_rdm': kr, 'n_cv': 1, 'N': 2, 'rdm_desc': 'index', 'pat_desc': 'index',
                            'models': ['fixed', 'fitted']})
            for bt in ('both', 'pattern', 'rdm'):
                # test folds need >= 3 conditions to be evaluable: 7 conditions, 3 of them test-only
                out.append({'routine': 'eval_dual_bootstrap_random', 'n_rdm': nr, 'n_cond': 7, 'method': method,
                            'boot_type': bt, 'n_pattern': 3, 'n_test_rdm': 1, 'n_cv': 2, 'N': 2, 'rdm_desc': 'index',
                            'pat_desc': 'index', 'models': ['fixed', 'fitted']})
    # E out-of-bag evaluation (boot_testset)
    for routine in ('bootstrap_testset', 'bootstrap_testset_pattern', 'bootstrap_testset_rdm'):
        # (at least 6 conditions: 3 left out for the test set and 3 distinct ones in the training sample)
        for (nr, nc) in [(3, 6)] + ([(3, 5), (4, 6)] if big else []):
            for method in (METHODS if big else ['cosine']):
                out.append({'routine': routine, 'n_rdm': nr, 'n_cond': nc, 'method': method, 'N': 2,
                            'rdm_desc': 'index', 'pat_desc': 'index', 'models': ['fixed', 'fitted']})
    # default numbers of folds (k_pattern = k_rdm = None)
    out.append({'routine': 'bootstrap_crossval', 'n_rdm': 4, 'n_cond': 7, 'method': 'cosine', 'boot_type': 'both',
                'k_pattern': None, 'k_rdm': None, 'n_cv': 1, 'N': 2, 'rdm_desc': 'index', 'pat_desc': 'index',
                'models': ['fixed', 'fitted']})
    out.append({'routine': 'eval_dual_bootstrap', 'n_rdm': 4, 'n_cond': 7, 'method': 'cosine', 'k_pattern': None,
                'k_rdm': None, 'n_cv': 1, 'N': 2, 'rdm_desc': 'index', 'pat_desc': 'index', 'models': ['fixed', 'fitted']})
    # the n_cv variance correction (default of the routines): the reported covariance is the documented
    # projection (n_cv V(n_cv) - V(1)) / (n_cv - 1) computed from the stored evaluations and ceilings of ALL
    # repetitions
    for ncv in (2, 3):
        for bt in ('both', 'rdm'):
            out.append({'routine': 'bootstrap_crossval', 'n_rdm': 3, 'n_cond': 6, 'method': 'cosine', 'boot_type': bt,
                        'k_pattern': 2, 'k_rdm': 1, 'n_cv': ncv, 'N': 3, 'rdm_desc': 'index', 'pat_desc': 'index',
                        'models': ['fixed', 'fitted'], 'use_correction': True})
        out.append({'routine': 'eval_dual_bootstrap_random', 'n_rdm': 3, 'n_cond': 7, 'method': 'cosine',
                    'boot_type': 'both', 'n_pattern': 3, 'n_test_rdm': 1, 'n_cv': ncv, 'N': 3, 'rdm_desc': 'index',
                    'pat_desc': 'index', 'models': ['fixed', 'fitted'], 'use_correction': True})
        if ncv == 2 or big:
            out.append({'routine': 'eval_dual_bootstrap', 'n_rdm': 3, 'n_cond': 6, 'method': 'cosine', 'k_pattern': 2,
                        'k_rdm': 1, 'n_cv': ncv, 'N': 3, 'rdm_desc': 'index', 'pat_desc': 'index',
                        'models': ['fixed', 'fitted'], 'use_correction': True})
    # LARGE stacks: 20 groups of two RDMs with string / large float labels (numpy switches algorithms with size,
    # e.g. in membership tests of the selection helpers): ceilings and dof against the same references
    for rd in ('rsub', 'rtime'):
        for routine, bnc in (('eval_bootstrap_pattern', True), ('eval_bootstrap_pattern', False),
                             ('eval_bootstrap_rdm', False)):
            out.append({'routine': routine, 'n_rdm': 40, 'n_cond': 4, 'method': 'cosine', 'rdm_desc': rd,
                        'pat_desc': 'index', 'N': 2, 'boot_noise_ceil': bnc, 'models': ['fixed', 'weighted'],
                        'large': True})
    # every boot_type with grouped descriptors on the resampled factor(s): dof = resampled groups - 1
    for bt, rd, pdn in (('pattern', 'index', 'pgrp'), ('rdm', 'grp', 'index'), ('both', 'grp', 'pgrp'),
                        ('pattern', 'grp', 'pgrp'), ('rdm', 'grp', 'pgrp')):
        out.append({'routine': 'bootstrap_crossval', 'n_rdm': 4, 'n_cond': 12, 'method': 'cosine', 'boot_type': bt,
                    'k_pattern': 2, 'k_rdm': 1, 'n_cv': 1, 'N': 2, 'rdm_desc': rd, 'pat_desc': pdn,
                    'models': ['fixed', 'fitted']})
    # grouped descriptors for the cross-validated bootstrap (dof / grouping)
    out.append({'routine': 'bootstrap_crossval', 'n_rdm': 4, 'n_cond': 6, 'method': 'cosine', 'boot_type': 'both',
                'k_pattern': 2, 'k_rdm': 1, 'n_cv': 1, 'N': 2, 'rdm_desc': 'grp', 'pat_desc': 'index',
                'models': ['fixed', 'fitted']})
    return out


def shards(tier, seed):
    out = []
    for cfg in configs(tier):
        r = cfg['routine']
        if r == 'bootstrap_testset':
            for a in range(cfg['n_rdm']):
                for b in range(cfg['n_rdm']):
                    out.append({'cfg': cfg, 'root': [a, b]})
        elif _is_full(cfg) and r == 'eval_bootstrap':
            # complete enumeration of the first resample's draws, split by the first two answers
            for a in range(cfg['n_rdm']):
                for b in range(cfg['n_rdm']):
                    out.append({'cfg': cfg, 'root': [a, b]})
        else:
            out.append({'cfg': cfg, 'root': []})
    out.append({'cfg': {'routine': 'reproducibility'}, 'root': []})
    return out


def _is_full(cfg):
    """the configurations whose first resample is enumerated completely (all others: deviation bound)"""
    return (cfg['routine'].startswith('eval_bootstrap') and (cfg['n_rdm'], cfg['n_cond']) == (3, 4)
            and cfg['method'] == 'cosine' and cfg.get('rdm_desc') == 'index' and cfg.get('pat_desc') == 'index'
            and cfg.get('boot_noise_ceil') and not cfg.get('menu3'))


# ----------------------------------------------------------------------------- execution
def _content(rdms):
    from mc.util import fingerprint
    return fingerprint([rdms.dissimilarities, selfdesc._strip(rdms.rdm_descriptors), selfdesc._strip(rdms.pattern_descriptors)])


def _pin_after_first(n_first_calls):
    """pin every randint call after the first resample's to the identity draw"""
    def pin(kind, idx, args):
        if kind == 'randint' and idx >= n_first_calls:
            low, high, k = args
            n = high - low
            return [low + (i % n) for i in range(k)]
        return None
    return pin


def execute(cfg, env, seed):
    import rsatoolbox.inference.evaluate as EV
    from rsatoolbox.inference import crossvalsets as CV
    r = cfg['routine']
    cont = cfg.get('container', 'list')
    data = make_data(cfg['n_rdm'], cfg['n_cond'], seed, cont)
    models, spec = make_models(cfg['models'], cfg['n_cond'], seed, cont)
    data_fp = _content(data)
    rec = Recorder()
    fitter = RecFitter()
    fit_list = [fitter if s['kind'] == 'fitted' else None for s in spec]
    theta = [s['theta'] for s in spec]
    if cfg.get('theta_form') == 'tuple':
        theta = tuple(theta)
    elif cfg.get('theta_form') == 'array2d':
        theta = np.array([np.asarray(t, dtype=float) for t in theta])
    pin = None
    if r in ('eval_bootstrap', 'eval_bootstrap_rdm', 'eval_bootstrap_pattern') and not cfg.get('menu3'):
        pin = _pin_after_first(2 if r == 'eval_bootstrap' else 1)
    if cfg.get('menu3'):
        pin = _menu3_pin(cfg)
    rng = rngenv.RngEnv(env, pin=(lambda k, i, a: pin(k, i, a, env)) if cfg.get('menu3') else pin)
    sets = None
    with rngenv.installed(rng), recording(rec), np.errstate(all='ignore'):
        if r == 'eval_fixed':
            res = EV.eval_fixed(models, data, theta=theta, method=cfg['method'])
        elif r == 'eval_bootstrap':
            res = EV.eval_bootstrap(models, data, theta=theta, method=cfg['method'], N=cfg['N'],
                                    pattern_descriptor=cfg['pat_desc'], rdm_descriptor=cfg['rdm_desc'],
                                    boot_noise_ceil=cfg['boot_noise_ceil'])
        elif r == 'eval_bootstrap_rdm':
            res = EV.eval_bootstrap_rdm(models, data, theta=theta, method=cfg['method'], N=cfg['N'],
                                        rdm_descriptor=cfg['rdm_desc'], boot_noise_ceil=cfg['boot_noise_ceil'])
        elif r == 'eval_bootstrap_pattern':
            res = EV.eval_bootstrap_pattern(models, data, theta=theta, method=cfg['method'], N=cfg['N'],
                                            pattern_descriptor=cfg['pat_desc'], rdm_descriptor=cfg['rdm_desc'],
                                            boot_noise_ceil=cfg['boot_noise_ceil'])
        elif r == 'crossval':
            g = cfg['gen']
            pdn = cfg.get('pat_desc', 'index')
            if g == 'sets_k_fold':
                sets = CV.sets_k_fold(data, k_rdm=min(2, cfg['n_rdm']), k_pattern=2, random=True, pattern_descriptor=pdn)
            elif g == 'sets_k_fold_pattern':
                sets = CV.sets_k_fold_pattern(data, k=2, random=True, pattern_descriptor=pdn)
            elif g == 'sets_k_fold_rdm':
                sets = CV.sets_k_fold_rdm(data, k_rdm=2, random=True)
            else:
                sets = CV.sets_leave_one_out_rdm(data)
            res = EV.crossval(models, data, sets[0], sets[1], ceil_set=sets[2], method=cfg['method'], fitter=fit_list,
                              pattern_descriptor=pdn if g in ('sets_k_fold', 'sets_k_fold_pattern') else 'index')
        elif r == 'bootstrap_crossval':
            res = EV.bootstrap_crossval(models, data, method=cfg['method'], fitter=fit_list, k_pattern=cfg['k_pattern'],
                                        k_rdm=cfg['k_rdm'], N=cfg['N'], n_cv=cfg['n_cv'], boot_type=cfg['boot_type'],
                                        pattern_descriptor=cfg['pat_desc'], rdm_descriptor=cfg['rdm_desc'],
                                        use_correction=cfg.get('use_correction', False))
        elif r == 'eval_dual_bootstrap':
            res = EV.eval_dual_bootstrap(models, data, method=cfg['method'], fitter=fit_list, k_pattern=cfg['k_pattern'],
                                         k_rdm=cfg['k_rdm'], N=cfg['N'], n_cv=cfg['n_cv'], use_correction=cfg.get('use_correction', False),
                                         pattern_descriptor=cfg.get('pat_desc', 'index'),
                                         rdm_descriptor=cfg.get('rdm_desc', 'index'))
        elif r == 'eval_dual_bootstrap_random':
            res = EV.eval_dual_bootstrap_random(models, data, method=cfg['method'], fitter=fit_list,
                                                n_pattern=cfg['n_pattern'], n_rdm=cfg['n_test_rdm'], N=cfg['N'],
                                                n_cv=cfg['n_cv'], boot_type=cfg['boot_type'], use_correction=cfg.get('use_correction', False))
        elif r.startswith('bootstrap_testset'):
            import rsatoolbox.inference.boot_testset as BT
            fn = getattr(BT, r)
            res = fn(models, data, method=cfg['method'], fitter=fit_list, N=cfg['N'])
        else:
            raise ValueError(r)
    return {'res': res, 'rec': rec, 'fitter': fitter, 'data': data, 'spec': spec, 'sets': sets, 'calls': rng.calls,
            'data_unchanged': _content(data) == data_fp}


def _menu3_pin(cfg):
    """thorough: N=3, each resample's draw chosen from a menu of three (identity, fewer than three
    distinct conditions, generic) by ONE choice point per resample"""
    nr, nc = cfg['n_rdm'], cfg['n_cond']

    state = {'randint': 0}

    def pin(kind, idx, args, env):
        if kind in ('shuffle', 'permutation'):
            return list(range(args[0]))          # fold assignment pinned to the identity order
        if kind != 'randint':
            return None
        low, high, k = args
        n = high - low
        per = 2 if cfg['routine'] in ('eval_bootstrap', 'eval_dual_bootstrap') or \
            (cfg['routine'] == 'bootstrap_crossval' and cfg.get('boot_type') == 'both') else 1
        ri = state['randint']
        state['randint'] += 1
        sample_no = ri // per
        if ri % per == 0:
            env._menu = env.choose(('menu', sample_no), 3)
        m = env._menu
        if m == 0:
            return [low + (i % n) for i in range(k)]
        if m == 1:
            return [low + (i % 2) for i in range(k)]          # only two distinct values
        return [low + ((2 * i + 1) % n) for i in range(k)]
    return pin


# ----------------------------------------------------------------------------- judging
def _cmp(ctx, sig, case, got, want, what, tol=TOL):
    if want is None:
        ctx.exclude('reference similarity undefined')
        return
    if isinstance(got, float) and math.isnan(got) and not math.isnan(want):
        ctx.fail(sig + '|unexpected-nan', case, '%s is NaN, reference %r' % (what, want))
        return
    ctx.dev(sig.split('|')[0], abs(float(got) - want) / max(1.0, abs(want)))
    if not close(got, want, tol):
        ctx.fail(sig + '|value-mismatch', case, '%s: stored %.12g, reference %.12g' % (what, got, want))


def _cov_check(ctx, sig, case, variances, rows, n_model):
    """variances must be the sample covariance (np.cov) of `rows` (variables x resamples), either of
    the model rows alone or of model rows + the two noise-ceiling rows"""
    rows = np.asarray(rows, dtype=float)
    v = np.asarray(variances, dtype=float)
    if rows.shape[1] < 2:
        ctx.exclude('fewer than two valid resamples: covariance undefined')
        return
    want_full = np.atleast_2d(np.cov(rows))
    want_models = np.atleast_2d(np.cov(rows[:n_model]))
    v2 = np.atleast_2d(v)
    for want in (want_full, want_models):
        if v2.shape == want.shape and np.allclose(v2, want, rtol=1e-9, atol=1e-12, equal_nan=True):
            return
    ctx.fail(sig + '|covariance', case, 'stored variances %r are not the sample covariance across resamples %r'
             % (np.round(v2, 8).tolist(), np.round(want_full, 8).tolist()))


def judge(cfg, obs, ctx, case):
    r = cfg['routine']
    res, rec, spec, data = obs['res'], obs['rec'], obs['spec'], obs['data']
    method, nc = cfg['method'], cfg['n_cond']
    sig = r
    if not obs.get('data_unchanged', True):
        ctx.fail(sig + '|data-modified', case, 'the evaluation routine changed the data RDMs object it was given')
    if r.startswith('bootstrap_testset'):
        return _judge_testset(cfg, obs, ctx, case)
    ev = np.asarray(res.evaluations)
    nm = len(spec)
    rdm_vecs = [list(map(float, v)) for v in data.dissimilarities]
    if r == 'eval_fixed':
        if ev.shape != (1, nm, data.n_rdm):
            ctx.fail(sig + '|shape', case, 'evaluations shape %r' % (ev.shape,))
            return
        for j, s in enumerate(spec):
            full = ref_prediction(s, s['theta'])
            for ri in range(data.n_rdm):
                _cmp(ctx, sig, case, ev[0, j, ri], RP.sim(method, full, rdm_vecs[ri]), 'evaluation[0,%d,%d]' % (j, ri))
        lo, up = RP.boot_ceiling(rdm_vecs, list(range(data.n_rdm)), method)
        if lo is not None:
            _cmp(ctx, sig + '|noise-ceiling', case, float(res.noise_ceiling[0]), lo, 'lower ceiling')
            _cmp(ctx, sig + '|noise-ceiling', case, float(res.noise_ceiling[1]), up, 'upper ceiling')
        if data.n_rdm > 1:
            want = np.atleast_2d(np.cov(ev[0], ddof=0)) / data.n_rdm
            if not np.allclose(np.atleast_2d(res.variances), want, rtol=1e-9, atol=1e-14):
                ctx.fail(sig + '|covariance', case, 'variances %r, expected cov across RDMs / n %r' % (res.variances, want))
            if res.dof != data.n_rdm - 1:
                ctx.fail(sig + '|dof', case, 'dof %r for %d RDMs' % (res.dof, data.n_rdm))
        return
    if r in ('eval_bootstrap', 'eval_bootstrap_rdm', 'eval_bootstrap_pattern'):
        N = cfg['N']
        name = {'eval_bootstrap': 'bootstrap_sample', 'eval_bootstrap_rdm': 'bootstrap_sample_rdm',
                'eval_bootstrap_pattern': 'bootstrap_sample_pattern'}[r]
        samples = [e for e in rec.events if e[0] == name]
        if len(samples) != N or any(e[0] != name for e in rec.events):
            raise HarnessError('binding lost: %d recorded %s calls for N=%d (events %r)' % (
                len(samples), name, N, [e[0] for e in rec.events]))
        if ev.shape != (N, nm):
            ctx.fail(sig + '|shape', case, 'evaluations shape %r' % (ev.shape,))
            return
        valid = []
        nc_rows = [[], []]
        for i, e in enumerate(samples):
            out = e[3]
            sample = out[0]
            pattern_idx = out[2] if r == 'eval_bootstrap' else (out[1] if r == 'eval_bootstrap_pattern' else None)
            _, cids = selfdesc.read_ids(sample)
            too_small = pattern_idx is not None and len(set(map(str, pattern_idx))) < 3
            if too_small:
                if not all(math.isnan(x) for x in ev[i]):
                    ctx.fail(sig + '|small-sample-not-nan', case, 'resample %d has %d distinct condition groups but evaluations %r'
                             % (i, len(set(map(str, pattern_idx))), ev[i]))
                continue
            valid.append(i)
            for j, s in enumerate(spec):
                want = expected_eval(s, s['theta'], nc, sample, method)
                _cmp(ctx, sig, case, ev[i, j], want, 'evaluation[%d,%d]' % (i, j))
            if cfg['boot_noise_ceil']:
                svecs = [list(map(float, v)) for v in sample.dissimilarities]
                grp = list(map(str, sample.rdm_descriptors[cfg['rdm_desc']]))
                try:
                    lo, up = RP.boot_ceiling(svecs, grp, method)
                except ValueError:
                    lo = up = None
                ncl = np.asarray(res.noise_ceiling)
                if lo is not None:
                    _cmp(ctx, sig + '|noise-ceiling', case, float(ncl[0][i]), lo, 'lower ceiling of resample %d' % i)
                    _cmp(ctx, sig + '|noise-ceiling', case, float(ncl[1][i]), up, 'upper ceiling of resample %d' % i)
        if cfg['boot_noise_ceil']:
            ncl = np.asarray(res.noise_ceiling, dtype=float)
            if ncl.shape != (2, N):
                ctx.fail(sig + '|noise-ceiling|shape', case, '%r' % (ncl.shape,))
            else:
                rows = np.concatenate([ev[valid].T, ncl[:, valid]])
                _cov_check(ctx, sig, case, res.variances, rows, nm)
        else:
            lo, up = RP.boot_ceiling(rdm_vecs, list(map(str, data.rdm_descriptors[cfg['rdm_desc']])), method)
            if lo is not None:
                _cmp(ctx, sig + '|noise-ceiling', case, float(res.noise_ceiling[0]), lo, 'lower ceiling (data)')
                _cmp(ctx, sig + '|noise-ceiling', case, float(res.noise_ceiling[1]), up, 'upper ceiling (data)')
            _cov_check(ctx, sig, case, res.variances, ev[valid].T, nm)
        # dof = resampled units - 1 (descriptor groups), the smaller when both are resampled
        g_r = len(set(map(str, data.rdm_descriptors[cfg['rdm_desc']])))
        g_p = len(set(map(str, data.pattern_descriptors[cfg['pat_desc']])))
        want_dof = {'eval_bootstrap': min(g_r, g_p) - 1, 'eval_bootstrap_rdm': g_r - 1,
                    'eval_bootstrap_pattern': g_p - 1}[r]
        if res.dof != want_dof:
            grouped = (g_r != data.n_rdm and r != 'eval_bootstrap_pattern') or (g_p != data.n_cond and r != 'eval_bootstrap_rdm')
            ctx.fail(sig + '|dof' + (',grouped' if grouped else ''), case,
                     'dof %r; resampled units: %d rdm groups, %d condition groups' % (res.dof, g_r, g_p))
        return
    if r == 'crossval':
        train_set, test_set, ceil_set = obs['sets']
        _judge_folds(ctx, sig, case, cfg, spec, obs['fitter'], ev[0], train_set, test_set, 0)
        return
    # cross-validated bootstraps ------------------------------------------------------------------
    N = cfg['N']
    n_cv = cfg['n_cv']
    boots = [k for k, e in enumerate(rec.events) if e[0].startswith('bootstrap_sample')]
    if len(boots) != N:
        raise HarnessError('binding lost: %d recorded bootstrap draws for N=%d' % (len(boots), N))
    per_sample = []
    fit_ptr = 0
    for i, k0 in enumerate(boots):
        k1 = boots[i + 1] if i + 1 < len(boots) else len(rec.events)
        cvs = [e for e in rec.events[k0 + 1:k1] if e[0] in ('sets_k_fold', 'sets_random')]
        out = rec.events[k0][3]
        if r == 'eval_dual_bootstrap':
            slab = ev[i]                 # (n_model, folds, n_cv, 3)
            expect_cv = 3 * n_cv
        else:
            slab = ev[i]
            expect_cv = n_cv if r == 'bootstrap_crossval' else 1
        if np.all(np.isnan(slab)):
            if cvs:
                ctx.fail(sig + '|nan-but-evaluated', case, 'resample %d stored NaN although %d fold sets were drawn' % (i, len(cvs)))
            # size rule: documented minimum
            per_sample.append(None)
            continue
        if len(cvs) != expect_cv:
            raise HarnessError('binding lost: resample %d has %d recorded fold-set calls, expected %d' % (i, len(cvs), expect_cv))
        if r == 'bootstrap_crossval':
            for rep, e in enumerate(cvs):
                tr, te, ce = e[3]
                fit_ptr = _judge_folds(ctx, sig, case, cfg, spec, obs['fitter'], slab[:, :, rep], tr, te, fit_ptr)
        elif r == 'eval_dual_bootstrap':
            c = 0
            ncl_all = np.asarray(res.noise_ceiling, dtype=float)
            for rep in range(n_cv):
                for kind in range(3):
                    tr, te, ce = cvs[c][3]
                    fit_ptr = _judge_folds(ctx, sig, case, cfg, spec, obs['fitter'], slab[:, :, rep, kind], tr, te, fit_ptr)
                    if cfg['k_pattern'] == 1 and cfg['k_rdm'] == 1 and ncl_all.shape == (2, N, n_cv, 3):
                        # no folds: the noise ceiling of this resample is the leave-one-GROUP-out ceiling of
                        # the resample itself, groups = the resampled units (rdm descriptor)
                        sample = te[0][0]
                        svecs = [list(map(float, v)) for v in sample.dissimilarities]
                        grp = list(map(str, sample.rdm_descriptors[cfg.get('rdm_desc', 'index')]))
                        try:
                            lo, up = RP.boot_ceiling(svecs, grp, method)
                        except ValueError:
                            lo = up = None
                        if lo is not None:
                            _cmp(ctx, sig + '|noise-ceiling', case, float(ncl_all[0, i, rep, kind]), lo,
                                 'lower ceiling of resample %d, bootstrap kind %d' % (i, kind))
                            _cmp(ctx, sig + '|noise-ceiling', case, float(ncl_all[1, i, rep, kind]), up,
                                 'upper ceiling of resample %d, bootstrap kind %d' % (i, kind))
                    c += 1
        else:
            tr, te, ce = cvs[0][3]
            fit_ptr = _judge_folds(ctx, sig, case, cfg, spec, obs['fitter'], slab, tr, te, fit_ptr)
            # the noise ceilings of this resample, one (lower, upper) pair per repetition: the test RDMs of the
            # repetition against the pooled remaining RDMs (lower) / the pooled RDMs of the resample (upper),
            # both at the repetition's test conditions
            ncl_all = np.asarray(res.noise_ceiling, dtype=float)
            if ncl_all.shape != (2, N, n_cv):
                ctx.fail(sig + '|noise-ceiling|shape', case, '%r for N=%d, n_cv=%d' % (ncl_all.shape, N, n_cv))
            else:
                for rep in range(n_cv):
                    try:
                        lo, up = _fold_ceiling(method, out[0], ce[rep], te[rep])
                    except (ValueError, KeyError, ZeroDivisionError):
                        lo = up = None
                    if lo is not None and up is not None:
                        _cmp(ctx, sig + '|noise-ceiling', case, float(ncl_all[0, i, rep]), lo,
                             'lower ceiling of resample %d, repetition %d' % (i, rep))
                        _cmp(ctx, sig + '|noise-ceiling', case, float(ncl_all[1, i, rep]), up,
                             'upper ceiling of resample %d, repetition %d' % (i, rep))
        per_sample.append(i)
    ok = [i for i in per_sample if i is not None]
    ncl = np.asarray(res.noise_ceiling, dtype=float)
    # variances = sample covariance across resamples of the per-resample means (+ ceilings)
    corrected = bool(cfg.get('use_correction')) and n_cv > 1 and \
        not (r == 'eval_dual_bootstrap' and cfg['k_pattern'] == 1 and cfg['k_rdm'] == 1)

    def _projected(rows_mean, rows_rep):
        """the documented projection to infinitely many fold assignments from the covariance of the means over
        all n_cv repetitions and the average covariance of the single repetitions (EVERY repetition once)"""
        v_mean = np.atleast_2d(np.cov(rows_mean))
        v_1 = np.mean([np.atleast_2d(np.cov(q)) for q in rows_rep], axis=0)
        return (n_cv * v_mean - v_1) / (n_cv - 1)

    if corrected and len(ok) >= 2:
        if r == 'eval_dual_bootstrap':
            for kind in range(3):
                e = ev[ok][..., kind]                                      # (n_ok, n_model, folds, n_cv)
                c = ncl[:, ok][..., kind]                                  # (2, n_ok, n_cv)
                rows_mean = np.concatenate([np.mean(np.mean(e, -1), -1).T, np.mean(c, -1)])
                rows_rep = [np.concatenate([np.mean(e[..., q], -1).T, c[..., q]]) for q in range(n_cv)]
                want = _projected(rows_mean, rows_rep)
                if not np.allclose(np.asarray(res.variances)[kind], want, rtol=1e-9, atol=1e-12):
                    ctx.fail(sig + '|corrected-covariance', case, 'variances[%d] %r, the projection from the stored '
                             'evaluations of all %d repetitions gives %r' % (kind, np.asarray(res.variances)[kind], n_cv, want))
        else:
            e = ev[ok]                                                     # (n_ok, n_model, [folds,] n_cv)
            c = ncl[:, ok]                                                 # (2, n_ok, n_cv)
            if e.ndim == 4:
                e = np.mean(e, -2)
            rows_mean = np.concatenate([np.mean(e, -1).T, np.mean(c, -1)])
            rows_rep = [np.concatenate([e[..., q].T, c[..., q]]) for q in range(n_cv)]
            want = _projected(rows_mean, rows_rep)
            if not np.allclose(np.atleast_2d(res.variances), want, rtol=1e-9, atol=1e-12):
                ctx.fail(sig + '|corrected-covariance', case, 'variances %r, the projection from the stored evaluations '
                         'of all %d repetitions gives %r' % (res.variances, n_cv, want))
    elif r == 'eval_dual_bootstrap':
        if len(ok) >= 2:
            for kind in range(3):
                m = np.mean(np.mean(ev[ok][..., kind], -1), -1)          # (n_ok, n_model)
                ncm = np.mean(ncl[:, ok][..., kind], -1)                  # (2, n_ok)
                rows = np.concatenate([m.T, ncm])
                want = np.atleast_2d(np.cov(rows))
                if not np.allclose(np.asarray(res.variances)[kind], want, rtol=1e-9, atol=1e-12):
                    ctx.fail(sig + '|covariance', case, 'variances[%d] %r, expected %r' % (kind, np.asarray(res.variances)[kind], want))
    else:
        if len(ok) >= 2:
            m = ev[ok]
            while m.ndim > 2:
                m = np.mean(m, -1)
            ncm = ncl[:, ok]
            while ncm.ndim > 2:
                ncm = np.mean(ncm, -1)
            _cov_check(ctx, sig, case, res.variances, np.concatenate([m.T, ncm]), nm)
    g_r = len(set(map(str, data.rdm_descriptors[cfg['rdm_desc']])))
    g_p = len(set(map(str, data.pattern_descriptors[cfg['pat_desc']])))
    bt = cfg.get('boot_type', 'both')
    want_dof = {'both': min(g_r, g_p) - 1, 'pattern': g_p - 1, 'rdm': g_r - 1}[bt]
    if res.dof != want_dof:
        grouped = g_r != data.n_rdm or g_p != data.n_cond
        ctx.fail(sig + '|dof' + (',grouped' if grouped else ''), case,
                 'dof %r; resampled units: %d rdm groups, %d condition groups (boot_type %s)' % (res.dof, g_r, g_p, bt))


def _judge_testset(cfg, obs, ctx, case):
    """out-of-bag evaluation: parameters fitted on the bootstrap sample, evaluated on exactly the RDMs
    and conditions the draw left out"""
    r = cfg['routine']
    res, rec, spec, data = obs['res'], obs['rec'], obs['spec'], obs['data']
    method, nc, N = cfg['method'], cfg['n_cond'], cfg['N']
    ev = np.asarray(res[0], dtype=float)
    counts = [np.asarray(x) for x in res[1:]]
    samples = [e for e in rec.events if e[0].startswith('bootstrap_sample')]
    if len(samples) != N:
        raise HarnessError('binding lost: %d recorded bootstrap draws for N=%d' % (len(samples), N))
    if ev.shape != (N, len(spec)):
        ctx.fail(r + '|shape', case, 'evaluations shape %r' % (ev.shape,))
        return
    all_r = list(range(data.n_rdm))
    all_c = list(range(nc))
    fit_ptr = 0
    for i, e in enumerate(samples):
        out = e[3]
        if r == 'bootstrap_testset':
            rdm_idx, pattern_idx = list(out[1]), list(out[2])
        elif r == 'bootstrap_testset_pattern':
            rdm_idx, pattern_idx = None, list(out[1])
        else:
            rdm_idx, pattern_idx = list(out[1]), None
        test_r = all_r if rdm_idx is None else [x for x in all_r if x not in set(int(v) for v in rdm_idx)]
        test_c = all_c if pattern_idx is None else [x for x in all_c if x not in set(int(v) for v in pattern_idx)]
        want_counts = ([len(test_r)] if rdm_idx is not None else []) + ([len(test_c)] if pattern_idx is not None else [])
        got_counts = [int(c[i]) for c in counts]
        if got_counts != want_counts:
            ctx.fail(r + '|left-out-counts', case, 'resample %d: reported %r, left out %r' % (i, got_counts, want_counts))
        # too small to evaluate: fewer than 3 left-out conditions, no left-out RDM, or a training sample
        # with fewer than 3 distinct conditions (a single distinct dissimilarity: nothing can be fitted)
        evaluable = (rdm_idx is None or len(test_r) >= 1) and \
            (pattern_idx is None or (len(test_c) >= 3 and len(set(int(v) for v in pattern_idx)) >= 3))
        if not evaluable:
            if not all(math.isnan(x) for x in ev[i]):
                ctx.fail(r + '|small-testset-not-nan', case, 'resample %d leaves out %d RDMs / %d conditions but evaluations %r'
                         % (i, len(test_r), len(test_c), ev[i]))
            continue
        vecs = [restrict([float(v) for v in data.dissimilarities[rr]], nc, test_c) for rr in test_r]
        for j, s in enumerate(spec):
            theta = s['theta']
            if s['kind'] == 'fitted':
                call = obs['fitter'].calls[fit_ptr]
                fit_ptr += 1
                theta = call['theta']
                if call['method'] != method:
                    ctx.fail(r + '|fitter-called-with-other-method', case,
                             'resample %d: evaluation method %r but the fitter was asked to fit %r' % (i, method, call['method']))
                if call['data'] is not out[0]:
                    ctx.fail(r + '|fit-not-on-training-set', case, 'resample %d: fitter did not receive the bootstrap sample' % i)
            pred = restrict(ref_prediction(s, theta), nc, test_c)
            want = RP.mean_sim(method, pred, vecs)
            _cmp(ctx, r, case, ev[i, j], want, 'evaluation[%d, model %d]' % (i, j))


def _pooled_table(method, obj):
    """pooled RDM of `obj` as a table (condition id pair) -> value"""
    _, cids = selfdesc.read_ids(obj)
    pooled = RP.pool([list(map(float, v)) for v in np.asarray(obj.dissimilarities)], method)
    t, k = {}, 0
    for i in range(len(cids)):
        for j in range(i + 1, len(cids)):
            if cids[i] != cids[j]:
                t[(min(cids[i], cids[j]), max(cids[i], cids[j]))] = pooled[k]
            k += 1
    return t


def _fold_ceiling(method, sample, ceil, test):
    """(lower, upper) ceiling of one fold: mean similarity of the fold's test RDMs with the pooled ceiling-set
    RDMs / the pooled RDMs of the whole resample at the test conditions"""
    _, te_c = selfdesc.read_ids(test[0])
    tvecs = [list(map(float, v)) for v in np.asarray(test[0].dissimilarities)]

    def at(t):
        return [float('nan') if te_c[i] == te_c[j] else t[(min(te_c[i], te_c[j]), max(te_c[i], te_c[j]))]
                for i in range(len(te_c)) for j in range(i + 1, len(te_c))]
    return (RP.mean_sim(method, at(_pooled_table(method, ceil[0])), tvecs),
            RP.mean_sim(method, at(_pooled_table(method, sample)), tvecs))


def _judge_folds(ctx, sig, case, cfg, spec, fitter, evals, train_set, test_set, fit_ptr):
    """evals: (n_model, n_folds) stored evaluations of one crossval() call"""
    method, nc = cfg['method'], cfg['n_cond']
    evals = np.asarray(evals)
    if evals.shape != (len(spec), len(test_set)):
        ctx.fail(sig + '|shape', case, 'fold evaluations shape %r for %d models x %d folds' % (evals.shape, len(spec), len(test_set)))
        return fit_ptr
    for f, (tr, te) in enumerate(zip(train_set, test_set)):
        skipped = tr[0].n_rdm == 0 or te[0].n_rdm == 0 or tr[0].n_cond <= 2 or te[0].n_cond <= 2
        # "fitted on that fold's training set only": no (RDM, condition pair) cell of the test fold is
        # part of the training data - unless nothing is cross-validated (k_rdm = k_pattern = 1, where
        # the generators document train == test)
        try:
            tr_r, tr_c = selfdesc.read_ids(tr[0])
            te_r, te_c = selfdesc.read_ids(te[0])
        except Exception:
            tr_r = None
        if tr_r is not None and not (sorted(tr_r) == sorted(te_r) and sorted(tr_c) == sorted(te_c)):
            if set(tr_r) & set(te_r):
                shared_c = set(tr_c) & set(te_c)
                if len(shared_c) >= 2:
                    ctx.fail(sig + '|test-cells-in-training-set', case,
                             'fold %d: RDMs %r are in the training and in the test set and so are the '
                             'conditions %r' % (f, sorted(set(tr_r) & set(te_r)), sorted(shared_c)))
        for j, s in enumerate(spec):
            if skipped:
                if not math.isnan(evals[j, f]):
                    ctx.fail(sig + '|small-fold-not-nan', case, 'fold %d too small but evaluation %r' % (f, evals[j, f]))
                continue
            theta = s['theta']
            if s['kind'] == 'fitted':
                if fit_ptr >= len(fitter.calls):
                    ctx.fail(sig + '|fold-not-fitted', case, 'fold %d: no fitter call recorded for this fold '
                             '(parameters were not fitted on this fold\'s training set)' % f)
                    return fit_ptr
                call = fitter.calls[fit_ptr]
                fit_ptr += 1
                theta = call['theta']
                # the fitter is asked for the parameters of the evaluation's own comparison method
                if call['method'] != method:
                    ctx.fail(sig + '|fitter-called-with-other-method', case,
                             'fold %d: evaluation method %r but the fitter was asked to fit %r' % (f, method, call['method']))
                # the parameters were fitted on this fold's training set only
                if call['data'] is not tr[0]:
                    ctx.fail(sig + '|fit-not-on-training-set', case, 'fold %d: fitter received an object that is not the fold\'s training set' % f)
                if call['pattern_idx'] is not None and list(map(str, call['pattern_idx'])) != list(map(str, tr[1])):
                    ctx.fail(sig + '|fit-not-on-training-set', case, 'fold %d: fitter pattern_idx %r, training conditions %r'
                             % (f, call['pattern_idx'], list(tr[1])))
            try:
                want = expected_eval(s, theta, nc, te[0], method)
            except ValueError as e:
                ctx.fail(sig + '|test-object-misaligned', case, repr(e))
                continue
            _cmp(ctx, sig, case, evals[j, f], want, 'evaluation[model %d, fold %d]' % (j, f))
    return fit_ptr


def _evals(res):
    return np.asarray(res[0] if isinstance(res, tuple) else res.evaluations, dtype=float)


# ----------------------------------------------------------------------------- shards
def run_shard(shard, ctx):
    cfg = shard['cfg']
    if cfg['routine'] == 'reproducibility':
        return _reproducibility(ctx)
    r = cfg['routine']
    stats = choice.Stats()
    if r in ('eval_fixed',):
        bound, mx = None, None
    elif r.startswith('bootstrap_testset'):
        # leaving out >= 3 conditions needs >= 3 deviations from the identity draw
        bound, mx = (3 if ctx.tier == 'quick' else 4), (6000 if ctx.tier == 'quick' else 20000)
        # the answers fixed by the shard's root (the first two RDM draws) do not use up the budget: an RDM
        # has to be left out AND three conditions for a resample to be evaluable
        bound += sum(1 for c in shard['root'] if c)
    elif cfg.get('large'):
        bound, mx = 1, 1000
    elif r.startswith('eval_bootstrap'):
        bound, mx = (None, 40000) if (_is_full(cfg) or cfg.get('menu3')) else ((1 if ctx.tier == 'quick' else 2), 6000)
    elif r == 'crossval':
        bound, mx = (1 if ctx.tier == 'quick' else 3), 4000
    elif cfg.get('menu3'):
        bound, mx = None, 4000
    else:
        bound, mx = (1 if ctx.tier == 'quick' else 2), 4000
    first = True

    def safe(e):
        # a library exception under one particular draw history is a finding with that history as its
        # replayable case, not an anonymous shard failure
        try:
            return execute(cfg, e, ctx.seed)
        except HarnessError:
            raise
        except Exception as ex:     # noqa
            import traceback
            return {'raised': ex, 'where': traceback.format_exc().strip().splitlines()[-3:]}
    for env, obs in choice.explore(safe, bound=bound, stats=stats, max_exec=mx, root=shard['root']):
        case = {'cfg': cfg, 'choices': env.choices}
        ctx.case(case, nontrivial=env.deviations > 0 or r in ('eval_fixed',))
        if 'raised' in obs:
            ctx.fail('%s|raises:%s' % (r, type(obs['raised']).__name__), case,
                     '%s %s' % (obs['raised'], ' / '.join(x.strip() for x in obs['where'])))
            continue
        with ctx.guard(r + '|judge', case):
            judge(cfg, obs, ctx, case)
        ctx.outcome(tuple(np.round(np.nan_to_num(_evals(obs['res']), nan=-9).ravel(), 9)[:12]))
        if first:
            env2 = choice.Env(env.choices)
            obs2 = execute(cfg, env2, ctx.seed)
            if not np.array_equal(_evals(obs2['res']), _evals(obs['res']), equal_nan=True):
                raise HarnessError('replay of %r diverged' % (case,))
            first = False
    if stats.capped:
        ctx.count('cap_hit')
    ctx.states += stats.states
    ctx.transitions += stats.transitions


def run_case(case, ctx):
    cfg = case['cfg']
    if cfg['routine'] == 'reproducibility':
        return _reproducibility(ctx)
    env = choice.Env(case['choices'])
    obs = execute(cfg, env, ctx.seed)
    ctx.case(case)
    with ctx.guard(cfg['routine'] + '|judge', case):
        judge(cfg, obs, ctx, case)


def _reproducibility(ctx):
    """un-intercepted: the same numpy seed reproduces evaluations, variances and ceilings exactly"""
    import rsatoolbox.inference.evaluate as EV
    for s in sorted({0, int(ctx.seed) % (2 ** 31)}):
        for routine in ('eval_bootstrap', 'eval_bootstrap_rdm', 'eval_bootstrap_pattern', 'bootstrap_crossval',
                        'eval_dual_bootstrap', 'eval_dual_bootstrap_random'):
            case = {'cfg': {'routine': 'reproducibility', 'of': routine}, 'np_seed': s}
            ctx.case(case)
            ctx.states += 1
            ctx.transitions += 1
            outs = []
            with ctx.guard(routine + '|reproducibility', case), np.errstate(all='ignore'):
                for rep in range(2):
                    data = make_data(4, 7, ctx.seed)
                    models, spec = make_models(['fixed', 'fitted'], 7, ctx.seed)
                    np.random.seed(s)
                    fn = getattr(EV, routine)
                    if routine.startswith('eval_bootstrap'):
                        res = fn(models, data, N=6)
                    else:
                        res = fn(models, data, N=4)
                    outs.append((np.asarray(res.evaluations).copy(), np.asarray(res.variances).copy(),
                                 np.asarray(res.noise_ceiling).copy()))
                for a, b in zip(outs[0], outs[1]):
                    if not np.array_equal(a, b, equal_nan=True):
                        ctx.fail(routine + '|not-reproducible', case, 'two runs under np.random.seed(%d) differ' % s)
