"""C06 - reported uncertainties and p-values are coherent with the evaluations (DESIGN 4/C06)

Seven exhaustively enumerated families (V, T, F, M: every case additionally under EVERY permutation of
the model order):

  V  variance extraction: Result(variances=<scalar|vector|matrix|3-stack>, with/without the two
     noise-ceiling rows, n_rdm/n_pattern in {None,3,5}) -> model_var, diff_var, noise_ceil_var
     against the explicit contrasts of the stored covariance times n/(n-1); for 3-stacks the
     statement's dual-bootstrap bounds, and 'the combination is applied to the contrasts'.
  T  tests and means: evaluation arrays of 2-5 dimensions x every subset of <= 4 NaN samples x
     noise-ceiling form x dof x test type: p in [0,1], symmetric pairwise matrix with unit
     diagonal, get_means == NaN-aware mean, SEM >= 0, equivariance of every output.
     NaN pattern menu for arrays with several samples and >= 3 dimensions: whole samples (every subset),
     one fold of one sample, one repetition of one fold, a single entry of one model, and the latter two
     missing in EVERY sample; get_means and all three t-test families must use the same per-model means
     (reference: NaN-aware mean one axis at a time, last axis first, then the evaluable samples), and
     the mean implied by test_zero must reproduce test_noise / test_pairwise (t-family consistency).
  F  eval_fixed: SEM and the three p-value families against scipy.stats.ttest_rel / ttest_1samp
     on the per-subject evaluations (real eval_fixed on RDM alphabets, and eval_fixed with the
     names `compare` / `boot_noise_ceiling` imported into inference.evaluate replaced so that
     every vector of per-subject evaluations over a value alphabet is driven through it); the data RDMs
     come from a provenance menu (fresh, subset with non-contiguous index, subsample with repeated index
     in draw order, concat of two stacks, user-set index with duplicates), n_rdm 2-6: statistics are
     across ALL RDMs of the stack (SEM = std/sqrt(n), dof = n - 1).
  M  monotonicity: a grid of effect sizes at fixed variance, p never increases with the effect.
  S  sequences: every ordered pair (thorough: triple) of calls from {get_means, get_sem, get_ci,
     test_pairwise/zero/noise/all x admissible test types, summary} on ONE Result (hand-built with 1
     and with several samples, and eval_fixed output) and of the util-level functions on ONE shared
     set of ndarrays: the stored evaluations / variances / noise ceiling stay bit-identical after
     every call and every later output equals the same call on a fresh object built from the
     original evaluations (which T / F judge against the references).
  X  cross-consistency: stored covariances WITH the two ceiling rows, lower and upper ceiling differing
     in variance and in covariance with the models (vector / matrix / 3-stack, alphabets and fills, all
     n_rdm/n_pattern, dof): every p-value family of test_all / all_tests equals the single-purpose
     routine (test_pairwise/zero/noise, pair_tests/zero_tests/nc_tests) and the reference t-test on the
     reference contrast of the covariance (ceiling: LOWER row); Result.get_errorbars and
     inference_util.get_errorbars agree with get_sem / get_ci.  The same three judges also run on every
     base case of T (and test_all == single-purpose test on F and M).
     summary() rows (name, mean, SEM, p against zero / ceiling, '< 0.001', 'nan') agree with the accessors
     (T base cases and X, incl. tiny-variance fills that give p < 0.001 in every column).
  N  no variance estimates (plain cross-validation, one RDM): means are the NaN-aware means; model_var /
     get_sem / get_ci / error bars / every t-test entry point of Result and of inference_util report
     'undefined' (None, NaN) or refuse - never a number; bootstrap / rank-sum tests, summary() and the
     plain accessors keep agreeing; unknown test types / error-bar strings are refused by every wrapper.
"""
import itertools
import sys

import numpy as np

from mc import combi
from mc.ref import c06_ref as ref
from mc.util import allclose, close, maxreldev, rng_for, spd

PROPERTY = 'C06'
LEVEL = 'exploration'
RULE = ('Families V (variance forms x ceiling rows x n_rdm/n_pattern), T (2-5 dimensional evaluation '
        'arrays x every subset of <=4 NaN samples x ceiling form x dof x test type), F (eval_fixed on RDM '
        'alphabets and on every per-subject evaluation matrix over {-1,0,1,2}/4) and M (11 effect sizes at '
        'fixed variance), S (every ordered pair / triple of accessor and test calls on one Result and of the '
        'util functions on one shared ndarray: inputs bit-identical afterwards, outputs independent of the '
        'history); values from small alphabets (all vectors) plus fixed fills from the seed; every '
        'base case is repeated for EVERY permutation of the model order. One evaluation = one Result '
        '(base or reordered) whose outputs were all judged. Non-trivial = not an all-NaN array; distinct = '
        'distinct (case descriptor, n_rdm/n_pattern or permutation).')
ASSUMPTIONS = [
    'scipy.stats.ttest_rel / ttest_1samp / sem are the classical t statistics',
    'a t statistic is undefined for zero variance; an untied-sample bootstrap test is undefined if every '
    'bootstrap sample ties: such entries are excluded and counted',
    'documented n/(n-1) factor: the n that is passed; if both n_rdm and n_pattern are passed with a single '
    'covariance the smaller one (in-code documentation "uncorrected dual bootstrap")',
    'dual-bootstrap 3-stacks are judged by the bounds of the statement and by "combination of the three '
    'layer contrasts" (the library\'s own combination of three scalars, which is itself bound-checked)',
    'NaN samples = whole bootstrap samples (all models) or, for 1 x model x subject arrays, whole subjects; '
    'plus the uneven NaN pattern menu (one fold / one repetition / one entry), for which the NaN-aware mean is '
    'the mean of means that Result.get_means documents (further axes first, then samples)',
    'rank-sum tests only for 3-D evaluations (asserted by the library); bootstrap tests need >= 2 samples',
    'covariance inputs are symmetric (possibly indefinite in the alphabets)',
    't-test p-values in general (documented in t_tests / t_test_0 / t_test_nc): mean difference / mean / '
    'mean - lower ceiling over sqrt(variance contrast), Student t with the stored dof; undefined (excluded) '
    'for a non-positive variance',
    'sequence family: a call repeated on a fresh object with bit-identical inputs is deterministic, so later '
    'outputs are compared bit-for-bit with the first-call outputs',
]
TOL = 1e-9
TOL_EQ = 1e-10
TOLERANCES = {'value': TOL, 'equivariance': TOL_EQ, 'range/symmetry/monotonicity slack': 1e-12}
BOUNDS = {
    'quick': {'n_model': [1, 2, 3, 4], 'ndim': [2, 3, 4, 5], 'max_axis': 4, 'nan_subset_max': 4,
              'n_rdm/n_pattern': [None, 3, 5], 'dof': [1, 2, 7], 'fills': 2, 'effect_grid': 11,
              'permutations': 'all (1, 2, 6, 24)', 'call_sequences': 'all ordered pairs'},
    'thorough': {'n_model': [1, 2, 3, 4], 'ndim': [2, 3, 4, 5], 'max_axis': 5, 'nan_subset_max': 4,
                 'n_rdm/n_pattern': [None, 3, 5], 'dof': [1, 2, 7], 'fills': 5, 'effect_grid': 11,
                 'permutations': 'all (1, 2, 6, 24)',
                 'call_sequences': 'all ordered pairs; all ordered triples for n_model <= 2'},
}

ALPHA = {'q4': (-0.25, 0.0, 0.25, 0.5), 'q3': (-0.25, 0.0, 0.25), 'q2': (0.0, 0.25),
         'v4': (-1.0, 0.0, 1.0, 2.0), 'v3': (0.0, 1.0, 2.0), 'v2': (0.0, 1.0),
         'c6': (-1.0, 0.0, 0.5, 1.0, 2.0, 3.0), 'c4': (-1.0, 0.0, 1.0, 2.0)}
NS = [None, 3, 5]
N_COMBOS = [(a, b) for a in NS for b in NS]
TEST_TYPES = ['t-test', 'bootstrap', 'ranksum']


def _decode(alpha, length, idx):
    a = ALPHA[alpha]
    out = []
    for _ in range(length):
        out.append(a[idx % len(a)])
        idx //= len(a)
    return out


def _models(m):
    from rsatoolbox.model import ModelFixed
    return [ModelFixed('model%d' % i, np.array([1.0 + i, 2.0, 3.0 + 0.5 * i])) for i in range(m)]


def _tri(s):
    return s * (s + 1) // 2


def _sym(vals, s):
    out = np.zeros((s, s))
    k = 0
    for a in range(s):
        for b in range(a, s):
            out[a, b] = out[b, a] = vals[k]
            k += 1
    return out


def cov_length(form, s):
    return {'scalar': 1, 'vector': s, 'matrix': _tri(s), 'stack': 3 * _tri(s)}[form]


def build_cov(form, m, nc, vals, seed):
    """stored covariance in the requested form; vals = ['A', alphabet, index] | ['B', fill]"""
    s = m + 2 if nc else m
    if vals[0] == 'A':
        v = _decode(vals[1], cov_length(form, s), vals[2])
        if form == 'scalar':
            return np.array(v[0])
        if form == 'vector':
            return np.array(v)
        if form == 'matrix':
            return _sym(v, s)
        t = _tri(s)
        return np.array([_sym(v[k * t:(k + 1) * t], s) for k in range(3)])
    fill = vals[1]
    g = rng_for(seed, 'cov', form, m, int(nc), fill)
    if form == 'scalar':
        return np.array(round(float(g.uniform(0.01, 1.0)), 6))
    if form == 'vector':
        return np.round(g.uniform(0.01, 1.0, size=s), 6)
    if form == 'matrix':
        return np.round(spd(g, s, 0.05), 6)
    v_rdm = spd(g, s, 0.05)
    v_pat = spd(g, s, 0.03)
    extra = spd(g, s, 0.02)
    if fill % 3 == 0:        # realistic: two-factor variance a bit above the sum of the two
        v_both = v_rdm + v_pat + 0.3 * extra
    elif fill % 3 == 1:      # unrelated layers: every clamp of the combination becomes active somewhere
        v_both = extra * 4.0
    else:                    # rdm layer equals the two-factor layer
        v_both = v_rdm.copy()
        v_pat = 0.5 * v_rdm
    return np.round(np.array([v_both, v_rdm, v_pat]), 6)


# ----------------------------------------------------------------------------- observing a Result
def _try(fn):
    try:
        return ('ok', fn())
    except Exception as e:        # judged below; origin keeps oracle bugs apart from library raises
        from mc.runner import exc_origin
        origin, where = exc_origin(sys.exc_info()[2])
        return ('raises', type(e).__name__, origin, '%s [%s %s]' % (str(e)[:200], origin, where))


def observe(R, types, with_var=True, rest=True):
    """every output named by the property, each call isolated"""
    out = {}
    if with_var:
        out['model_var'] = ('ok', R.model_var)
        out['diff_var'] = ('ok', R.diff_var)
        out['noise_ceil_var'] = ('ok', R.noise_ceil_var)
        out['sem'] = _try(R.get_sem)
    if rest:
        if with_var:
            out['ci:t-test'] = _try(lambda: np.array(R.get_ci(0.9, 't-test')))
        out['means'] = _try(R.get_means)
        out['ci:bootstrap'] = _try(lambda: np.array(R.get_ci(0.9, 'bootstrap')))
    for tt in types:
        out['p_pair:' + tt] = _try(lambda: R.test_pairwise(tt))
        out['p_zero:' + tt] = _try(lambda: R.test_zero(tt))
        out['p_noise:' + tt] = _try(lambda: R.test_noise(tt))
        allr = _try(lambda: R.test_all(tt))
        if allr[0] == 'ok':
            out['p_pair_all:' + tt] = ('ok', allr[1][0])
            out['p_zero_all:' + tt] = ('ok', allr[1][1])
            out['p_noise_all:' + tt] = ('ok', allr[1][2])
        else:
            out['all:' + tt] = allr
    return out


OPS = {'model_var': 'Result.model_var', 'diff_var': 'Result.diff_var', 'noise_ceil_var': 'Result.noise_ceil_var',
       'sem': 'Result.get_sem', 'ci': 'Result.get_ci', 'means': 'Result.get_means',
       'p_pair': 'Result.test_pairwise', 'p_zero': 'Result.test_zero', 'p_noise': 'Result.test_noise',
       'p_pair_all': 'Result.test_all[pairwise]', 'p_zero_all': 'Result.test_all[zero]',
       'p_noise_all': 'Result.test_all[noise]', 'all': 'Result.test_all'}


def sig_for(name, cfg, kind):
    """<operation>|<configuration class>|<failure kind>; cfg: dict of configuration classes"""
    base, _, tt = name.partition(':')
    op = OPS[base]
    parts = []
    if base in ('model_var', 'diff_var', 'noise_ceil_var', 'sem'):
        parts.append('var=%s' % cfg.get('var', 'any'))
    elif base == 'means':
        parts.append('cv=%s' % cfg.get('cv', 'any'))
    elif base == 'ci':
        parts.append('type=%s' % tt)
    else:
        parts.append('test=%s' % tt)
        if base in ('p_noise', 'p_noise_all', 'all'):
            parts.append('nc=%s' % cfg.get('nc', 'any'))
        if kind.startswith('raises') and tt == 'bootstrap':
            parts.append('ndim%s' % cfg.get('ndim', '=any'))
        if cfg.get('nan') and tt == 't-test':
            parts.append('nan=%s' % cfg['nan'])
    return '%s|%s|%s' % (op, ','.join(parts), kind)


def judge_raises(ctx, obs, cfg, case):
    ok = True
    for name, r in obs.items():
        if r[0] == 'raises':
            ok = False
            kind = 'raises:%s' % r[1] + ('@oracle' if r[2] == 'oracle' else '')
            ctx.fail(sig_for(name, cfg, kind), case, '%s raised %s: %s' % (name, r[1], r[3]))
    return ok


def judge_ranges(ctx, obs, cfg, case, m, untied=None):
    """p in [0,1]; pairwise symmetric with unit diagonal; SEM >= 0"""
    slack = 1e-12
    for name, r in obs.items():
        if r[0] != 'ok' or not name.startswith('p_'):
            continue
        base, _, tt = name.partition(':')
        p = np.asarray(r[1], dtype=float)
        judged = np.ones(p.shape, dtype=bool)
        if base.startswith('p_pair'):
            if p.shape != (m, m):
                ctx.fail(sig_for(name, cfg, 'shape'), case, '%s has shape %r for %d models' % (name, p.shape, m))
                continue
            if tt == 'bootstrap' and untied is not None:
                judged = untied | np.eye(m, dtype=bool)
                n_ex = int((~judged).sum()) // 2
                for _ in range(n_ex):
                    ctx.exclude('bootstrap pair test: every bootstrap sample ties')
            a, b = p[judged], p.T[judged]
            if not np.array_equal(np.isnan(a), np.isnan(b)) or np.nanmax(np.abs(a - b), initial=0.0) > slack:
                ctx.fail(sig_for(name, cfg, 'asymmetric'), case, '%s = %r' % (name, p.tolist()))
            d = np.diag(p)
            if not np.all(np.abs(d - 1.0) <= slack):
                ctx.fail(sig_for(name, cfg, 'diagonal-not-1'), case, '%s = %r' % (name, p.tolist()))
        elif p.shape[:1] != (m,):
            ctx.fail(sig_for(name, cfg, 'shape'), case, '%s has shape %r for %d models' % (name, p.shape, m))
            continue
        pj = p[judged]
        if np.isnan(pj).any():
            ctx.fail(sig_for(name, cfg, 'p-nan'), case, '%s = %r' % (name, p.tolist()))
        if (pj > 1.0 + slack).any():
            ctx.fail(sig_for(name, cfg, 'p>1'), case, '%s = %r' % (name, p.tolist()))
        if (pj < -slack).any():
            ctx.fail(sig_for(name, cfg, 'p<0'), case, '%s = %r' % (name, p.tolist()))
    r = obs.get('sem')
    if r is not None and r[0] == 'ok' and r[1] is not None:
        s = np.asarray(r[1], dtype=float)
        if s.shape != (m,) or np.isnan(s).any() or (s < 0).any():
            ctx.fail(sig_for('sem', cfg, 'negative-or-nan'), case, 'get_sem() = %r' % s.tolist())


def judge_equivariance(ctx, base_obs, perm_obs, perm, m, cfg, case):
    for name, r in base_obs.items():
        q = perm_obs.get(name)
        if q is None:
            # test_all raised for one order only
            other = [k for k in perm_obs if k.partition(':')[2] == name.partition(':')[2] and
                     k.startswith('all:')]
            if r[0] == 'ok' and other:
                ctx.fail(sig_for(name, cfg, 'raises-for-some-orders-only'), case, 'perm %r raises' % (perm,))
            continue
        if r[0] != q[0]:
            ctx.fail(sig_for(name, cfg, 'raises-for-some-orders-only'), case,
                     '%s: base %s, perm %r %s' % (name, r[0], perm, q[0]))
            continue
        if r[0] != 'ok' or r[1] is None:
            continue
        base = name.partition(':')[0]
        v = np.asarray(r[1], dtype=float)
        w = np.asarray(q[1], dtype=float)
        if base == 'diff_var':
            pos = ref.pair_position(m)
            want = np.array([v[pos[(perm[a], perm[b])]] for a, b in ref.pairs(m)], dtype=float)
        elif base.startswith('p_pair'):
            want = v[list(perm)][:, list(perm)] if v.ndim == 2 else v
        elif base == 'ci':
            want = v[:, list(perm)]
        else:
            want = v[list(perm)] if v.ndim >= 1 and v.shape[0] == m else v
        ctx.dev('equivariance', maxreldev(w, want) if w.shape == want.shape else float('inf'))
        if not allclose(w, want, TOL_EQ):
            ctx.fail(sig_for(name, cfg, 'not-equivariant'), case,
                     '%s: models reordered by %r give %r, reordered original %r' % (
                         name, list(perm), w.tolist(), want.tolist()))


def judge_all_consistency(ctx, obs, cfg, case):
    """every p-value family returned by test_all must be what the single-purpose test returns"""
    for name, r in obs.items():
        base, _, tt = name.partition(':')
        if not base.endswith('_all') or r[0] != 'ok':
            continue
        single = obs.get(base[:-4] + ':' + tt)
        if single is None or single[0] != 'ok':
            continue
        a, b = np.asarray(r[1], dtype=float), np.asarray(single[1], dtype=float)
        if a.shape != b.shape or not allclose(a, b, 1e-12):
            ctx.fail(sig_for(name, cfg, 'differs-from-single-purpose-test'), case,
                     'test_all(%r) gives %r, %s(%r) gives %r' % (
                         tt, a.tolist(), OPS[base[:-4]].split('.')[1], tt, b.tolist()))


def reference_variances(cov, m, n_rdm, n_pattern):
    """(model_var, diff_var, nc_var) from the stored covariance by the reference contrasts; for a
    3-stack the library's combination of three SCALARS is applied to each reference contrast"""
    cov = np.asarray(cov, dtype=float)
    if cov.ndim < 3:
        return ref.expected_variances(cov, m, n_rdm, n_pattern)
    cache = {}
    out = []
    for layers in ref.stack_contrasts(cov, m):
        arr = np.empty(layers[0].shape)
        for pos in np.ndindex(arr.shape):
            arr[pos] = _scalar_combination(layers[0][pos], layers[1][pos], layers[2][pos], n_rdm, n_pattern, cache)
        out.append(arr)
    return tuple(out)


def judge_t_reference(ctx, obs, cfg, case, ev, ceil, cov, m, dof, n_rdm, n_pattern):
    """t-test p-values (single-purpose and test_all) against the reference computed from the NaN-aware
    means and the reference contrasts of the stored covariance (ceiling: LOWER row)"""
    mv, dv, nv = reference_variances(cov, m, n_rdm, n_pattern)
    with np.errstate(all='ignore'):
        ceiling = float(np.nanmean(np.asarray(ceil, dtype=float)[0]))
    want = ref.t_test_reference(ref.nan_mean_axiswise(ev), mv, dv, nv[:, 0], ceiling, dof)
    plan = [('p_pair', want['p_pair'], want['pair_ok'] | np.eye(m, dtype=bool)), ('p_zero', want['p_zero'], want['zero_ok']),
            ('p_noise', want['p_nc'], want['nc_ok'])]
    for fam, w, ok in plan:
        n_ex = int((~ok).sum()) // (2 if w.ndim == 2 else 1)
        if n_ex:
            ctx.excluded['t statistic undefined (non-positive variance)'] += n_ex
        for suffix in ('', '_all'):
            name = fam + suffix + ':t-test'
            r = obs.get(name)
            if r is None or r[0] != 'ok' or not ok.any():
                continue
            got = np.asarray(r[1], dtype=float)
            if got.shape != w.shape:
                continue        # shape is judged by judge_ranges
            ctx.dev('t-reference', maxreldev(got[ok], w[ok]))
            if not allclose(got[ok], w[ok], TOL):
                ctx.fail(sig_for(name, cfg, 'differs-from-t-test-on-the-covariance-contrast'), case,
                         '%s = %r, reference %r (dof %r, ceiling %r, stored covariance %r)' % (
                             name, got.tolist(), w.tolist(), dof, ceiling, np.asarray(cov).tolist()))


def judge_t_family_consistency(ctx, obs, cfg, case, ceil, cov, m, dof, n_rdm, n_pattern):
    """the three t-test families must test the SAME per-model means: the mean implied by the
    against-zero p-value (t quantile x sqrt(model variance)) has to reproduce the against-ceiling and the
    pairwise p-values with their own variance contrasts"""
    from scipy import stats
    mv, dv, nv = reference_variances(cov, m, n_rdm, n_pattern)
    with np.errstate(all='ignore'):
        ceiling = float(np.nanmean(np.asarray(ceil, dtype=float)[0]))
    for suffix in ('', '_all'):
        r = obs.get('p_zero%s:t-test' % suffix)
        if r is None or r[0] != 'ok':
            continue
        pz = np.asarray(r[1], dtype=float)
        if pz.shape != (m,):
            continue
        usable = (np.asarray(mv) > 1e-12) & (pz > 1e-6) & (pz < 1 - 1e-6)
        implied = np.where(usable, stats.t.isf(np.clip(pz, 1e-300, 1.0), dof) * np.sqrt(np.maximum(mv, 0)), np.nan)
        want = ref.t_test_reference(np.where(usable, implied, 0.0), mv, dv, nv[:, 0], ceiling, dof)
        rn = obs.get('p_noise%s:t-test' % suffix)
        if rn is not None and rn[0] == 'ok' and np.asarray(rn[1]).shape == (m,):
            ok = usable & want['nc_ok']
            got = np.asarray(rn[1], dtype=float)
            if ok.any() and not allclose(got[ok], want['p_nc'][ok], 1e-6):
                ctx.fail(sig_for('p_noise%s:t-test' % suffix, cfg, 'tests-a-different-mean-than-test_zero'), case,
                         'means implied by test_zero %r give p against the ceiling %r, test_noise returns %r' % (
                             implied.tolist(), want['p_nc'].tolist(), got.tolist()))
        rp = obs.get('p_pair%s:t-test' % suffix)
        if rp is not None and rp[0] == 'ok' and np.asarray(rp[1]).shape == (m, m):
            ok = np.outer(usable, usable) & want['pair_ok'] & ~np.eye(m, dtype=bool)
            got = np.asarray(rp[1], dtype=float)
            if ok.any() and not allclose(got[ok], want['p_pair'][ok], 1e-6):
                ctx.fail(sig_for('p_pair%s:t-test' % suffix, cfg, 'tests-a-different-mean-than-test_zero'), case,
                         'means implied by test_zero %r give pairwise p %r, test_pairwise returns %r' % (
                             implied.tolist(), want['p_pair'].tolist(), got.tolist()))


def observe_errorbars(R, shape, full=False):
    """error bars from Result.get_errorbars and from inference_util.get_errorbars (the routine behind the
    plots) next to the get_sem / get_ci / get_means they must agree with; full: also the default level
    ('ci' without a number = 95 %)"""
    from rsatoolbox.util.inference_util import get_errorbars
    out = {'sem': _try(R.get_sem), 'means': _try(R.get_means)}
    kinds = [('sem', 't-test'), ('ci90', 't-test')]
    if shape[0] >= 2:
        kinds.append(('ci40', 'bootstrap'))
    if full:
        kinds.append(('ci', 't-test'))
        if shape[0] >= 2:
            kinds.append(('CI', 'bootstrap'))
    for eb, tt in kinds:
        key = '%s:%s' % (eb, tt)
        out['result:' + key] = _try(lambda: np.array(R.get_errorbars(eb, tt), dtype=float))
        if tt != 'bootstrap' or len(shape) == 2:
            # the util routine's bootstrap branch takes samples x models (its callers in vis average the
            # further dimensions first); Result.get_errorbars is the accessor for > 2-D evaluations
            out['util:' + key] = _try(lambda: np.array(
                get_errorbars(R.model_var, R.evaluations, R.dof, eb, tt), dtype=float))
        if eb != 'sem':
            level = float(eb[2:]) / 100 if len(eb) > 2 else 0.95
            out['ci:' + key] = _try(lambda: np.array(R.get_ci(level, tt), dtype=float))
    return out


def judge_errorbars(ctx, eb, cfg, case):
    """get_errorbars('sem') == (SEM, SEM); get_errorbars('ci..') == (mean - ci_low, ci_high - mean)"""
    if eb['sem'][0] != 'ok' or eb['means'][0] != 'ok' or eb['sem'][1] is None:
        return
    sem, means = np.asarray(eb['sem'][1], dtype=float), np.asarray(eb['means'][1], dtype=float)
    for key, r in eb.items():
        src, _, rest = key.partition(':')
        if src not in ('result', 'util'):
            continue
        kind, _, tt = rest.partition(':')
        op = 'Result.get_errorbars' if src == 'result' else 'inference_util.get_errorbars'
        tag = 'type=%s,test=%s' % ('sem' if kind == 'sem' else ('ci' if len(kind) > 2 else 'ci-default-level'), tt)
        if tt == 'bootstrap':
            tag += ',ndim%s' % cfg.get('ndim', '=any')
        if kind == 'sem':
            want, partner = np.array([sem, sem]), 'get_sem'
        else:
            ci = eb['ci:' + rest]
            if ci[0] != 'ok' or not np.isfinite(ci[1]).all():
                continue          # too few bootstrap samples for the interval: both may refuse
            want, partner = np.array([means - ci[1][0], ci[1][1] - means]), 'get_ci'
        if r[0] != 'ok':
            ctx.fail('%s|%s|raises:%s' % (op, tag, r[1]), case, '%s raised %s' % (key, r[3]))
            continue
        got = np.asarray(r[1], dtype=float)
        if got.shape != want.shape or not allclose(got, want, TOL):
            ctx.fail('%s|%s|differs-from-%s' % (op, tag, partner), case,
                     '%s = %r, from %s and get_means: %r' % (key, got.tolist(), partner, want.tolist()))


def judge_summary(ctx, R, tt, obs, cfg, case):
    """every row of summary(tt) shows the model name, get_means, get_sem and the against-zero /
    against-ceiling p-values of the accessors (3 decimals, '< 0.001' below that, 'nan' where undefined)"""
    sig = lambda kind: 'Result.summary|test=%s|%s' % (tt, kind)   # noqa: E731
    r = _try(lambda: R.summary(tt))
    if r[0] != 'ok':
        ctx.fail(sig('raises:%s' % r[1]), case, 'summary(%r) raised %s' % (tt, r[3]))
        return
    text = r[1]
    m = R.n_model

    def acc(name):
        q = obs.get(name)
        if q is None or q[0] != 'ok' or q[1] is None:
            return np.full(m, np.nan)          # undefined / refused: the table must show nan
        return np.asarray(q[1], dtype=float)
    means, sems = acc('means'), acc('sem')
    p_zero, p_noise = acc('p_zero:' + tt), acc('p_noise:' + tt)
    if obs.get('p_zero:' + tt, ('',))[0] != 'ok' or obs.get('p_noise:' + tt, ('',))[0] != 'ok':
        p_zero, p_noise = np.full(m, np.nan), np.full(m, np.nan)    # one refusal empties both columns
    lines = text.split('\n')
    start = [i for i, ln in enumerate(lines) if ln and set(ln) == {'-'}]
    rows = lines[start[0] + 1:start[0] + 1 + m] if start else []
    if len(rows) != m or any(row.count('|') != 4 for row in rows):
        ctx.fail(sig('table-malformed'), case, text)
        return
    for i, row in enumerate(rows):
        cells = [c.strip() for c in row.split('|')]
        problems = []
        if cells[0] != R.models[i].name:
            problems.append('row %d is labelled %r, model is %r' % (i, cells[0], R.models[i].name))
        try:
            shown_mean, shown_sem = [float(x) for x in cells[1].split('±')]
        except ValueError:
            ctx.fail(sig('table-malformed'), case, text)
            return
        for label, shown, val in (('mean', shown_mean, means[i]), ('sem', shown_sem, sems[i])):
            if np.isnan(val) != np.isnan(shown) or (not np.isnan(val) and abs(shown - val) > 0.0005 + 1e-9):
                problems.append('%s shown %r, accessor %r' % (label, shown, float(val)))
        for label, cell, val in (('p(zero)', cells[2], p_zero[i]), ('p(ceiling)', cells[3], p_noise[i])):
            if cell.startswith('<'):
                if not val < 0.001:
                    problems.append('%s shown %r, accessor %r' % (label, cell, float(val)))
            else:
                shown = float(cell)
                if np.isnan(val) != np.isnan(shown) or (not np.isnan(val) and (
                        val < 0.001 or abs(shown - val) > 0.0005 + 1e-9)):
                    problems.append('%s shown %r, accessor %r' % (label, cell, float(val)))
        if problems:
            ctx.fail(sig('disagrees-with-accessors'), case, '; '.join(problems) + '\n' + text)
    if any(c.startswith('<') for row in rows for c in [x.strip() for x in row.split('|')]):
        ctx.count('summary rows with p < 0.001')
    r2 = _try(lambda: str(R))
    if r2[0] == 'ok' and tt == 't-test' and r2[1] != text:
        ctx.fail('Result.__str__|any|differs-from-summary', case, 'str(result) != result.summary()')


def judge_plain_accessors(ctx, R, case):
    """get_model_var / get_noise_ceil are the stored values, repr names the number of models"""
    mv = R.get_model_var()
    if not (mv is R.model_var or allclose(mv, R.model_var, 0.0)):
        ctx.fail('Result.get_model_var|any|differs-from-model_var', case, '%r vs %r' % (mv, R.model_var))
    if not allclose(R.get_noise_ceil(), R.noise_ceiling, 0.0):
        ctx.fail('Result.get_noise_ceil|any|differs-from-noise_ceiling', case, '%r' % (R.get_noise_ceil(),))
    if ('%d models' % R.n_model) not in repr(R):
        ctx.fail('Result.__repr__|any|wrong-model-count', case, repr(R))


# ----------------------------------------------------------------------------- family V
def _scalar_combination(c0, c1, c2, n_rdm, n_pattern, cache):
    """the library's own dual-bootstrap combination of three scalars (1 model, 3 x 1 x 1 stack)"""
    key = (float(c0), float(c1), float(c2))
    if key not in cache:
        from rsatoolbox.util.inference_util import extract_variances
        mv, _, _ = extract_variances(np.array([[[c0]], [[c1]], [[c2]]], dtype=float), False, n_rdm, n_pattern)
        cache[key] = float(np.asarray(mv).ravel()[0])
    return cache[key]


def _judge_stack(ctx, name, got, layers, n_rdm, n_pattern, cfg, case, cache):
    """got: array of combined contrasts; layers: [c_both, c_rdm, c_pattern] arrays of equal shape"""
    got = np.asarray(got, dtype=float)
    if got.shape != layers[0].shape:
        ctx.fail(sig_for(name, cfg, 'shape'), case, '%s shape %r, expected %r' % (name, got.shape, layers[0].shape))
        return
    for pos in np.ndindex(got.shape):
        c0, c1, c2 = layers[0][pos], layers[1][pos], layers[2][pos]
        upper, lowers = ref.dual_bounds(c0, c1, c2, n_rdm, n_pattern)
        v = got[pos]
        scale = TOL * max(1.0, abs(c0), abs(c1), abs(c2))
        if not v <= upper + scale:
            ctx.fail(sig_for(name, cfg, 'dual-bootstrap-above-two-factor-variance'), case,
                     '%s%r = %r > two-factor %r (rdm %r, pattern %r, n_rdm=%r n_pattern=%r)' % (
                         name, pos, v, c0, c1, c2, n_rdm, n_pattern))
        for low in lowers:
            if not v >= low - scale:
                ctx.fail(sig_for(name, cfg, 'dual-bootstrap-below-single-factor-variance'), case,
                         '%s%r = %r < corrected single factor %r (two-factor %r, rdm %r, pattern %r, n_rdm=%r '
                         'n_pattern=%r)' % (name, pos, v, low, c0, c1, c2, n_rdm, n_pattern))
        want = _scalar_combination(c0, c1, c2, n_rdm, n_pattern, cache)
        ctx.dev('stack-contrast', abs(v - want) / max(1.0, abs(want)))
        if not close(v, want, TOL):
            ctx.fail(sig_for(name, cfg, 'not-the-combination-of-the-layer-contrasts'), case,
                     '%s%r = %r, combination of contrasts (%r, %r, %r) = %r' % (name, pos, v, c0, c1, c2, want))


def run_V(case, ctx):
    from rsatoolbox.inference.result import Result
    m, form, nc = case['m'], case['form'], case['nc']
    cov = build_cov(form, m, nc, case['vals'], ctx.seed)
    models = _models(m)
    ev = np.zeros((2, m))
    ev[1] = 0.5
    ceiling = np.array([0.6, 0.8])
    cfg = {'var': form + ('+nc' if nc else '')}
    perms = list(itertools.permutations(range(m)))
    n_list = N_COMBOS if case.get('all_n', True) else [N_COMBOS[case.get('k', 0) % 9]]
    perm_n = N_COMBOS[case.get('k', 0) % 9]
    base_for_perm = None
    for n_rdm, n_pattern in n_list + ([perm_n] if perm_n not in n_list else []):
        sub = dict(case, n_rdm=n_rdm, n_pattern=n_pattern)
        with ctx.guard('Result.__init__|var=%s' % cfg['var'], sub):
            R = Result(models, ev, 'cosine', 'bootstrap', ceiling, variances=cov.copy(), dof=2,
                       n_rdm=n_rdm, n_pattern=n_pattern)
            obs = observe(R, [], with_var=True, rest=False)
            ctx.case(sub)
            judge_raises(ctx, obs, cfg, sub)
            judge_ranges(ctx, obs, cfg, sub, m)
            if form == 'stack':
                lm, ld, ln = ref.stack_contrasts(cov, m)
                cache = {}
                _judge_stack(ctx, 'model_var', R.model_var, lm, n_rdm, n_pattern, cfg, sub, cache)
                _judge_stack(ctx, 'diff_var', R.diff_var, ld, n_rdm, n_pattern, cfg, sub, cache)
                _judge_stack(ctx, 'noise_ceil_var', R.noise_ceil_var, ln, n_rdm, n_pattern, cfg, sub, cache)
                ctx.outcome(('V', np.round(np.asarray(R.model_var, float), 9).tolist()))
            else:
                want = ref.expected_variances(cov, m, n_rdm, n_pattern)
                for name, w in zip(('model_var', 'diff_var', 'noise_ceil_var'), want):
                    g = np.asarray(getattr(R, name), dtype=float)
                    ctx.dev('contrast', maxreldev(g, w) if g.shape == w.shape else float('inf'))
                    if g.shape != w.shape:
                        ctx.fail(sig_for(name, cfg, 'shape'), sub, '%s shape %r, expected %r' % (name, g.shape, w.shape))
                    elif not allclose(g, w, TOL):
                        ctx.fail(sig_for(name, cfg, 'not-the-contrast-of-the-covariance'), sub,
                                 '%s = %r, contrast x n/(n-1) = %r; covariance %r n_rdm=%r n_pattern=%r' % (
                                     name, g.tolist(), w.tolist(), cov.tolist(), n_rdm, n_pattern))
                ctx.outcome(('V', np.round(want[0], 9).tolist(), np.round(want[1], 9).tolist()))
            if (n_rdm, n_pattern) == perm_n:
                base_for_perm = obs
    if base_for_perm is None:
        return
    n_rdm, n_pattern = perm_n
    for perm in perms[1:]:
        sub = dict(case, n_rdm=n_rdm, n_pattern=n_pattern, perm=list(perm))
        with ctx.guard('Result.__init__|var=%s' % cfg['var'], sub):
            Rp = Result([models[a] for a in perm], ev[:, list(perm)], 'cosine', 'bootstrap', ceiling,
                        variances=ref.permute_cov(cov, perm, m), dof=2, n_rdm=n_rdm, n_pattern=n_pattern)
            obs = observe(Rp, [], with_var=True, rest=False)
            ctx.case(sub)
            judge_equivariance(ctx, base_for_perm, obs, perm, m, cfg, sub)


# ----------------------------------------------------------------------------- family T
def cv_for(shape):
    return {2: 'bootstrap', 3: 'dual_bootstrap_random', 4: 'bootstrap_crossval', 5: 'dual_bootstrap'}[len(shape)]


def build_evaluations(case, seed):
    """evaluation array (samples x models x ...) with the NaN mask applied, and the noise ceiling"""
    shape = tuple(case['shape'])
    m = shape[1]
    vals = case['vals']
    size = int(np.prod(shape))
    if vals[0] == 'A':          # every entry from the alphabet
        ev = np.array(_decode(vals[1], size, vals[2]), dtype=float).reshape(shape)
    elif vals[0] == 'S':        # one alphabet value per (sample, model), constant over the other axes
        a = np.array(_decode(vals[1], shape[0] * m, vals[2]), dtype=float).reshape(shape[0], m)
        ev = np.zeros(shape) + a.reshape((shape[0], m) + (1,) * (len(shape) - 2))
    else:
        fill = vals[1]
        g = rng_for(seed, 'eval', fill, *shape)
        ev = 0.2 + 0.3 * g.normal(size=shape)
        if fill % 3 == 1:
            ev = -np.abs(ev)                    # no evaluation above zero
        elif fill % 3 == 2:
            ev = np.round(ev * 5) / 5           # ties between models and with zero
        ev = np.round(ev, 4)
    mask = list(case.get('mask', []))
    one_sample = shape[0] == 1
    if one_sample:
        ev[..., mask] = np.nan                  # whole subjects / folds missing
    else:
        ev[mask] = np.nan                       # whole bootstrap samples missing
    pat = case.get('nanpat')
    if pat:
        # uneven NaN patterns inside sample 1 (0 if there is only one): one fold, one repetition of one
        # fold (all models), or a single entry of one model
        sidx = 1 if shape[0] > 1 else 0
        if pat == 'fold':
            ev[(sidx, slice(None), 0)] = np.nan
        elif pat == 'rep':
            ev[(sidx, slice(None), 0, shape[3] - 1)] = np.nan
        elif pat == 'model':
            ev[(sidx, m - 1) + (0,) * (len(shape) - 2)] = np.nan
        elif pat == 'rep-all':      # the same repetition of the same fold missing in EVERY sample
            ev[(slice(None), slice(None), 0, shape[3] - 1)] = np.nan
        elif pat == 'model-all':    # the same entry of one model missing in every sample
            ev[(slice(None), m - 1) + (0,) * (len(shape) - 3) + (shape[-1] - 1,)] = np.nan
        else:
            raise ValueError(pat)
    ncf = case.get('ncf', 'fixed')
    g = rng_for(seed, 'ceil', *shape)
    if vals[0] in ('A', 'S'):
        lo, hi = 0.25, 0.5
    else:
        lo, hi = round(float(g.uniform(0.2, 0.5)), 4), round(float(g.uniform(0.6, 0.9)), 4)
    if ncf == 'fixed':
        ceil = np.array([lo, hi])
    else:
        # per-sample ceilings, shaped as the evaluation routines store them
        if one_sample:
            cshape = (2, shape[2])                                   # crossval: 2 x folds
        elif len(shape) == 2:
            cshape = (2, shape[0])                                   # eval_bootstrap*: 2 x N
        elif len(shape) == 3:
            cshape = (2, shape[0], shape[2])                         # 2 x N x n_cv
        elif len(shape) == 4:
            cshape = (2, shape[0], shape[3])                         # bootstrap_crossval: 2 x N x n_cv
        else:
            cshape = (2, shape[0], shape[3], shape[4])               # eval_dual_bootstrap: 2 x N x n_cv x 3
        jitter = np.round(0.05 * g.normal(size=cshape), 4) if vals[0] == 'B' else np.zeros(cshape)
        ceil = np.zeros(cshape) + np.array([lo, hi]).reshape((2,) + (1,) * (len(cshape) - 1)) + jitter
        if one_sample:
            ceil[:, mask] = np.nan
        else:
            ceil[:, mask] = np.nan
    return ev, ceil


VAR_COMBOS = {
    'a': (1, 'matrix', False, (None, None)),
    'b': (2, 'matrix', True, (5, None)),
    'c': (7, 'stack', True, (5, 3)),
    'd': (2, 'vector', True, (None, 3)),
    'e': (1, 'stack', False, (None, None)),
    'f': (7, 'vector', False, (3, 5)),
    'g': (3, 'scalar', False, (3, None)),
}


def untied_matrix(ev):
    """[i,j] True if models i and j differ in at least one non-NaN bootstrap sample (per-sample means)"""
    e = np.asarray(ev, dtype=float)
    with np.errstate(all='ignore'):
        while e.ndim > 2:
            e = np.nanmean(e, axis=-1)
    m = e.shape[1]
    out = np.zeros((m, m), dtype=bool)
    for i in range(m):
        for j in range(m):
            if i != j:
                out[i, j] = any((not np.isnan(a)) and (not np.isnan(b)) and a != b for a, b in zip(e[:, i], e[:, j]))
    return out


def run_T(case, ctx):
    from rsatoolbox.inference.result import Result
    shape = tuple(case['shape'])
    m = shape[1]
    if str(case.get('nanpat', '')).startswith('model') and int(np.prod(shape[2:])) == 1:
        # with a single fold and repetition the missing entry is one model's WHOLE evaluation in a sample; the
        # statement speaks of NaN samples (all models), not of samples in which one model alone has no
        # evaluation - counted, not judged
        ctx.exclude('one model alone without evaluation in a sample: outside the statement (NaN samples)')
        return
    ev, ceil = build_evaluations(case, ctx.seed)
    per_model_valid = [np.isfinite(np.moveaxis(ev, 1, 0)[j]).any() for j in range(m)]
    if not all(per_model_valid):
        ctx.exclude('all samples NaN')
        return
    dof, form, nc_rows, (n_rdm, n_pattern) = VAR_COMBOS[case['vc']]
    if form == 'scalar' and m != 1:
        form = 'vector'
    cov = build_cov(form, m, nc_rows, ['B', case.get('vfill', 0)], ctx.seed)
    cv = case.get('cv') or ('fixed' if shape[0] == 1 else cv_for(shape))
    types = [t for t in case['types'] if not (t == 'bootstrap' and shape[0] < 2)]
    if 'ranksum' in types and len(shape) != 3:
        raise ValueError('ranksum admissible for 3-D evaluations only')
    models = _models(m)
    cfg = {'var': form + ('+nc' if nc_rows else ''), 'cv': 'fixed/crossvalidation' if shape[0] == 1 else 'bootstrap',
           'nc': 'fixed' if ceil.ndim == 1 else 'per-sample', 'ndim': '=2' if len(shape) == 2 else '>2'}

    def make(perm):
        return Result([models[a] for a in perm], ev[:, list(perm)].copy(), 'cosine', cv, ceil.copy(),
                      variances=ref.permute_cov(cov, perm, m), dof=dof, n_rdm=n_rdm, n_pattern=n_pattern)

    if case.get('nanpat'):
        cfg['nan'] = 'same-in-every-sample' if case['nanpat'].endswith('-all') else 'uneven'
    ident = tuple(range(m))
    with ctx.guard('Result.__init__|var=%s' % cfg['var'], case):
        R = make(ident)
        base = observe(R, types)
        ctx.case(case)
        judge_raises(ctx, base, cfg, case)
        judge_ranges(ctx, base, cfg, case, m, untied_matrix(ev) if 'bootstrap' in types else None)
        judge_all_consistency(ctx, base, cfg, case)
        if 't-test' in types:
            judge_t_reference(ctx, base, cfg, case, ev, ceil, cov, m, dof, n_rdm, n_pattern)
            judge_t_family_consistency(ctx, base, cfg, case, ceil, cov, m, dof, n_rdm, n_pattern)
            judge_errorbars(ctx, observe_errorbars(R, shape), cfg, case)
            judge_summary(ctx, R, 't-test', base, cfg, case)
        r = base['means']
        if r[0] == 'ok':
            want = ref.nan_mean_axiswise(ev)
            got = np.asarray(r[1], dtype=float)
            ctx.dev('means', maxreldev(got, want) if got.shape == want.shape else float('inf'))
            if got.shape != want.shape or not allclose(got, want, TOL):
                ctx.fail(sig_for('means', cfg, 'not-the-nan-aware-mean'), case,
                         'get_means() = %r, NaN-aware mean %r; evaluations %r' % (got.tolist(), want.tolist(), ev.tolist()))
        for name in sorted(base):
            if name.startswith('p_zero') and base[name][0] == 'ok':
                ctx.outcome(('T', name, np.round(np.asarray(base[name][1], float), 6).tolist()))
    for perm in list(itertools.permutations(range(m)))[1:]:
        sub = dict(case, perm=list(perm))
        with ctx.guard('Result.__init__|var=%s' % cfg['var'], sub):
            obs = observe(make(perm), types)
            ctx.case(sub)
            judge_equivariance(ctx, base, obs, perm, m, cfg, sub)


# ----------------------------------------------------------------------------- family F
def _fixed_inputs(case, seed):
    """-> (model rdm vectors, data rdm vectors) for the unpatched eval_fixed"""
    m, n, n_cond = case['m'], case['n'], case['n_cond']
    L = n_cond * (n_cond - 1) // 2
    g = rng_for(seed, 'fixed-models', m, n_cond)
    mod = np.round(np.abs(g.normal(size=(4, L))) + 0.2, 3)[:m]
    vals = case['vals']
    if vals[0] == 'A':
        data = np.array(_decode(vals[1], n * L, vals[2]), dtype=float).reshape(n, L)
    else:
        g = rng_for(seed, 'fixed-data', vals[1], n, n_cond)
        data = np.round(np.abs(0.6 * mod[g.integers(m)] + g.normal(size=(n, L))) + 0.1, 3)
    return mod, data


PROVS = ['fresh', 'subset', 'subsample', 'concat', 'userindex']


def data_with_provenance(dvec, prov, exact=True):
    """RDMs object holding exactly the rows of dvec (in this order), obtained in different ways; what
    differs is the 'index' rdm descriptor: 0..n-1, non-contiguous, repeated (draw order), re-initialised,
    user-supplied with duplicates.  eval_fixed's statistics are across ALL rows of the stack."""
    from rsatoolbox.rdm import RDMs, concat
    dvec = np.asarray(dvec, dtype=float)
    n, L = dvec.shape
    if prov == 'fresh':
        return RDMs(dvec.copy())
    if prov == 'subset':
        # rows of interest at positions 1, 3, 4, 6, 7, 9, ... of a larger stack
        pos = [1 + i + (i + 1) // 2 for i in range(n)]
        big = np.zeros((pos[-1] + 2, L)) + 9.0 + np.arange(pos[-1] + 2)[:, None] + np.arange(L)[None, :] ** 2
        big[pos] = dvec
        return RDMs(big).subset('index', pos)
    if prov == 'subsample':
        # a with-replacement draw: the 'index' descriptor repeats, in draw order
        if not exact:
            return RDMs(dvec.copy()).subsample('index', [(2 * i) // 3 for i in range(n)])
        uniq, draw = [], []
        for row in dvec.tolist():
            if row not in uniq:
                uniq.append(row)
            draw.append(uniq.index(row))
        if len(uniq) == n:            # no repeated row: every RDM drawn once, in reversed order
            return RDMs(dvec[::-1].copy()).subsample('index', list(range(n - 1, -1, -1)))
        return RDMs(np.array(uniq)).subsample('index', draw)
    if prov == 'concat':
        k = max(1, n // 2)
        return concat([RDMs(dvec[:k].copy()), RDMs(dvec[k:].copy())]) if n > 1 else RDMs(dvec.copy())
    if prov == 'userindex':
        return RDMs(dvec.copy(), rdm_descriptors={'index': [(i // 2) * 3 for i in range(n)]})
    raise ValueError(prov)


def provenance_rows(dvec, prov):
    """'subsample' means repeated RDMs: make every second row a repeat of its predecessor"""
    dvec = np.array(dvec, dtype=float)
    if prov == 'subsample' and len(dvec) > 2:
        for i in range(2, len(dvec), 3):
            dvec[i] = dvec[i - 1]
    return dvec


def _undefined_real(mod, data, method):
    """the comparison measure (or the pooled RDM of the noise ceiling) is undefined for these RDMs"""
    from scipy.stats import rankdata
    cos = method in ('cosine', 'cosine_cov')

    def deg(v):
        return bool(np.max(np.abs(v)) < 1e-12) if cos else bool(np.ptp(v) < 1e-12)

    def pool(rows):
        if cos:
            z = [r / np.sqrt(np.mean(r ** 2)) for r in rows]
        elif method in ('corr', 'corr_cov'):
            z = [(r - np.mean(r)) / np.std(r) for r in rows]
        else:
            z = [rankdata(r) for r in rows]
        return np.mean(np.array(z), axis=0)
    rows = [np.asarray(r, dtype=float) for r in data]
    if any(deg(r) for r in rows) or any(deg(np.asarray(r, dtype=float)) for r in mod):
        return True
    sets = [rows] + [rows[:i] + rows[i + 1:] for i in range(len(rows))]
    return any(deg(pool(st)) for st in sets if st)


F_CFG = {'var': 'eval_fixed', 'cv': 'fixed', 'nc': 'fixed', 'ndim': '>2'}


def _F_execute(case, ctx):
    """run eval_fixed for the base order and every reordering; -> record for _F_judge or None"""
    import rsatoolbox.inference.evaluate as evaluate
    from rsatoolbox.model import ModelFixed
    from rsatoolbox.rdm import RDMs
    m, n = case['m'], case['n']
    patched = case['mode'] == 'patched'
    method = case.get('method', 'cosine')
    cfg = F_CFG
    if patched:
        vals = case['vals']
        if vals[0] == 'A':
            E = np.array(_decode(vals[1], m * n, vals[2]), dtype=float).reshape(m, n)
        else:
            g = rng_for(ctx.seed, 'fixed-evals', vals[1], m, n)
            E = np.round(0.3 + 0.2 * g.normal(size=(m, n)) + 0.2 * g.normal(size=(1, n)), 4)
        lo = case.get('lo', 0.25)
        models = _models(m)
        data = data_with_provenance(np.arange(3.0 * n).reshape(n, 3) + 1.0, case.get('prov', 'fresh'), exact=False)
    else:
        mod, dvec = _fixed_inputs(case, ctx.seed)
        dvec = provenance_rows(dvec, case.get('prov', 'fresh'))
        if _undefined_real(mod, dvec, method):
            ctx.exclude('comparison measure / pooled RDM undefined (zero-norm or constant RDM)')
            return None
        models = [ModelFixed('model%d' % i, mod[i]) for i in range(m)]
        data = data_with_provenance(dvec, case.get('prov', 'fresh'))
        if data.n_rdm != n or not np.array_equal(data.get_vectors(), dvec):
            from mc.runner import HarnessError
            raise HarnessError('provenance %r did not reproduce the intended stack' % case.get('prov'))
        E = None

    def run(perm):
        if not patched:
            return evaluate.eval_fixed([models[a] for a in perm], data, method=method)
        rows = [E[a] for a in perm]
        calls = []

        def fake_compare(pred, dat, meth='cosine', *a, **k):
            calls.append(1)
            return np.array([rows[len(calls) - 1]])

        def fake_ceiling(dat, method='cosine', rdm_descriptor='index'):
            return lo, lo + 0.25
        saved = evaluate.compare, evaluate.boot_noise_ceiling
        evaluate.compare, evaluate.boot_noise_ceiling = fake_compare, fake_ceiling
        try:
            return evaluate.eval_fixed([models[a] for a in perm], data, method=method)
        finally:
            evaluate.compare, evaluate.boot_noise_ceiling = saved

    ident = tuple(range(m))
    types = ['t-test']
    rec = None
    with ctx.guard('eval_fixed|n_model=%s' % ('1' if m == 1 else '>1'), case):
        R = run(ident)
        per_subject = np.asarray(R.evaluations, dtype=float)[0]
        if per_subject.shape != (m, n):
            ctx.fail('eval_fixed|any|evaluations-shape', case, 'shape %r' % (R.evaluations.shape,))
            return None
        if patched and not np.array_equal(per_subject, E):
            from mc.runner import HarnessError
            raise HarnessError('replaced compare() is not what eval_fixed stored: binding lost')
        if not np.isfinite(per_subject).all():
            ctx.exclude('comparison measure undefined for an RDM (NaN evaluation)')
            return None
        ceiling = float(np.asarray(R.noise_ceiling, dtype=float)[0])
        if not np.isfinite(ceiling):
            ctx.exclude('noise ceiling undefined')
            return None
        base = observe(R, types)
        ctx.case(case)
        judge_raises(ctx, base, cfg, case)
        judge_ranges(ctx, base, cfg, case, m)
        judge_all_consistency(ctx, base, cfg, case)
        rec = {'case': case, 'base': base, 'per_subject': per_subject, 'ceiling': ceiling,
               'mean_ref': ref.nan_mean_per_model(R.evaluations)}
    if rec is None:
        return None
    for perm in list(itertools.permutations(range(m)))[1:]:
        sub = dict(case, perm=list(perm))
        with ctx.guard('eval_fixed|n_model=%s' % ('1' if m == 1 else '>1'), sub):
            obs = observe(run(perm), types)
            ctx.case(sub)
            judge_equivariance(ctx, base, obs, perm, m, cfg, sub)
    return rec


def _F_judge(rec, want, ctx):
    """eval_fixed output against the classical t statistics of the per-subject evaluations"""
    case, base, per_subject, ceiling = rec['case'], rec['base'], rec['per_subject'], rec['ceiling']
    m = per_subject.shape[0]
    cfg = F_CFG
    detail = 'per-subject evaluations %r, ceiling %r' % (per_subject.tolist(), ceiling)

    def cmp(name, want_arr, okmask, kind):
        r = base.get(name)
        if r is None or r[0] != 'ok':
            return
        got = np.asarray(r[1], dtype=float)
        if got.shape != want_arr.shape:
            ctx.fail(sig_for(name, cfg, 'shape'), case, '%s shape %r' % (name, got.shape))
            return
        n_ex = int((~okmask).sum()) // (2 if got.ndim == 2 else 1)
        if n_ex:
            ctx.excluded['t statistic undefined (zero variance)'] += n_ex
        if okmask.any():
            ctx.dev(name, maxreldev(got[okmask], want_arr[okmask]))
            if not allclose(got[okmask], want_arr[okmask], TOL):
                ctx.fail('eval_fixed|%s|%s' % (name.partition(':')[0], kind), case,
                         '%s = %r, scipy %r; %s' % (name, got.tolist(), want_arr.tolist(), detail))
    allok = np.ones(m, dtype=bool)
    cmp('sem', want['sem'], allok, 'differs-from-classical-sem')
    cmp('means', rec['mean_ref'], allok, 'not-the-nan-aware-mean')
    for suffix in ('', '_all'):
        cmp('p_pair%s:t-test' % suffix, want['p_pair'], want['pair_ok'] | np.eye(m, dtype=bool),
            'differs-from-paired-t-test')
        cmp('p_zero%s:t-test' % suffix, want['p_zero'], want['var_ok'], 'differs-from-one-sided-one-sample-t-test')
        cmp('p_noise%s:t-test' % suffix, want['p_nc'], want['var_ok'], 'differs-from-two-sided-one-sample-t-test')
    ctx.outcome(('F', np.round(want['p_zero'], 6).tolist()))


def _F_judge_batch(recs, ctx):
    """the scipy reference for many records in a few calls (grouped by array shape)"""
    groups = {}
    for rec in recs:
        groups.setdefault(rec['per_subject'].shape, []).append(rec)
    for shape, rs in groups.items():
        with ctx.guard('eval_fixed|reference', rs[0]['case']):
            wants = ref.classical_tests_batch(np.array([r['per_subject'] for r in rs]), [r['ceiling'] for r in rs])
            for rec, want in zip(rs, wants):
                _F_judge(rec, want, ctx)


def run_F(case, ctx):
    rec = _F_execute(case, ctx)
    if rec is not None:
        _F_judge_batch([rec], ctx)


# ----------------------------------------------------------------------------- family M
EFFECTS = [-1000.0, -2.0, -0.5, -0.1, -1e-6, 0.0, 1e-6, 0.1, 0.5, 2.0, 1000.0]
VAR_LEVELS = [1.0, 0.01, 1e-12, 0.0, -0.5, 1e6]


def run_M(case, ctx):
    """model `target` takes each effect of the grid, everything else (variances, dof, other models) fixed"""
    from rsatoolbox.inference.result import Result
    m, dof, nc_rows, level, target = case['m'], case['dof'], case['nc'], case['level'], case['target']
    shape = tuple(case['shape'])
    s = m + 2 if nc_rows else m
    var = VAR_LEVELS[level]
    cov = np.eye(s) * var
    if case.get('corr'):
        cov = cov + 0.3 * var * (np.ones((s, s)) - np.eye(s))
    others = [0.05 * (j + 1) for j in range(m)]
    ceiling = np.array([0.3, 0.5])
    models = _models(m)
    cfg = {'var': 'matrix' + ('+nc' if nc_rows else ''), 'nc': 'fixed', 'ndim': '=2' if len(shape) == 2 else '>2'}
    rows = []
    for e in EFFECTS:
        means = list(others)
        means[target] = e
        ev = np.zeros(shape) + np.array(means).reshape((1, m) + (1,) * (len(shape) - 2))
        sub = dict(case, effect=e)
        with ctx.guard('Result.__init__|var=%s' % cfg['var'], sub):
            R = Result(models, ev, 'cosine', 'fixed' if shape[0] == 1 else cv_for(shape), ceiling, variances=cov.copy(),
                       dof=dof, n_rdm=case.get('n_rdm'), n_pattern=None)
            obs = observe(R, ['t-test'])
            ctx.case(sub)
            judge_raises(ctx, obs, cfg, sub)
            judge_ranges(ctx, obs, cfg, sub, m)
            judge_all_consistency(ctx, obs, cfg, sub)
            rows.append((e, obs))
    slack = 1e-12

    def series(name, pick):
        out = []
        for e, obs in rows:
            r = obs.get(name)
            if r is None or r[0] != 'ok':
                return None
            out.append((e, float(pick(np.asarray(r[1], dtype=float)))))
        return out
    for suffix in ('', '_all'):
        # against zero: one-sided, p must not increase with the effect
        ser = series('p_zero%s:t-test' % suffix, lambda p: p[target])
        if ser:
            for (e0, p0), (e1, p1) in zip(ser, ser[1:]):
                if p1 > p0 + slack:
                    ctx.fail(sig_for('p_zero%s:t-test' % suffix, cfg, 'p-increases-with-effect'), case,
                             'effect %r -> p %r, larger effect %r -> p %r (variance %r, dof %r)' % (e0, p0, e1, p1, var, dof))
            ctx.outcome(('M', [round(p, 9) for _, p in ser]))
        # against the ceiling: two-sided in |effect - ceiling|
        ser = series('p_noise%s:t-test' % suffix, lambda p: p[target])
        if ser:
            ordered = sorted(((abs(e - 0.3), p) for e, p in ser))
            for (d0, p0), (d1, p1) in zip(ordered, ordered[1:]):
                if d1 > d0 and p1 > p0 + slack:
                    ctx.fail(sig_for('p_noise%s:t-test' % suffix, cfg, 'p-increases-with-effect'), case,
                             '|effect-ceiling| %r -> p %r, larger %r -> p %r (variance %r, dof %r)' % (d0, p0, d1, p1, var, dof))
        # pairwise: two-sided in |effect_target - effect_other|
        for other in range(m):
            if other == target:
                continue
            ser = series('p_pair%s:t-test' % suffix, lambda p: p[target, other])
            if ser:
                ordered = sorted(((abs(e - others[other]), p) for e, p in ser))
                for (d0, p0), (d1, p1) in zip(ordered, ordered[1:]):
                    if d1 > d0 and p1 > p0 + slack:
                        ctx.fail(sig_for('p_pair%s:t-test' % suffix, cfg, 'p-increases-with-effect'), case,
                                 '|difference| %r -> p %r, larger %r -> p %r (variance %r, dof %r)' % (d0, p0, d1, p1, var, dof))


# ----------------------------------------------------------------------------- family S
# Sequences of calls on ONE object: a reported value must be a function of the evaluations that
# were supplied, whatever was asked from the same Result (or computed from the same ndarray) before.
def _S_types(shape):
    return ['t-test'] + (['bootstrap'] if shape[0] >= 2 else []) + (['ranksum'] if len(shape) == 3 else [])


def S_ops(level, shape):
    """operation alphabet of one case (names are stable: they go into replay files)"""
    types = _S_types(shape)
    if level in ('result', 'eval_fixed'):
        ops = ['get_means', 'get_sem', 'get_ci:t-test', 'get_ci:bootstrap']
        for tt in types:
            ops += ['test_pairwise:' + tt, 'test_zero:' + tt, 'test_noise:' + tt, 'test_all:' + tt]
            if tt == 't-test' or (tt == 'bootstrap' and len(shape) == 2) or tt == 'ranksum':
                ops.append('summary:' + tt)          # summary() prints one p per model: 2-D bootstrap only
        return ops
    ops = ['extract_variances', 't_tests', 't_test_0', 't_test_nc', 'get_errorbars:sem', 'get_errorbars:ci']
    for tt in types:
        ops += ['pair_tests:' + tt, 'zero_tests:' + tt, 'nc_tests:' + tt, 'all_tests:' + tt]
    if 'bootstrap' in types:
        ops.append('bootstrap_pair_tests')
    if 'ranksum' in types:
        ops += ['ranksum_pair_test', 'ranksum_value_test:0', 'ranksum_value_test:ceiling']
    return ops


def _S_call(level, op, st):
    name, _, arg = op.partition(':')
    if level in ('result', 'eval_fixed'):
        R = st['R']
        if name == 'get_means':
            return R.get_means()
        if name == 'get_sem':
            return R.get_sem()
        if name == 'get_ci':
            return R.get_ci(0.9, arg)
        if name == 'summary':
            return R.summary(arg)
        return getattr(R, name)(arg)
    from rsatoolbox.util import inference_util as iu
    ev, nc, var = st['evaluations'], st['noise_ceiling'], st['variances']
    mv, dv, nv, dof = st['model_var'], st['diff_var'], st['noise_ceil_var'], st['dof']
    if name == 'extract_variances':
        return iu.extract_variances(var, st['nc_included'], st['n_rdm'], st['n_pattern'])
    if name == 't_tests':
        return iu.t_tests(ev, dv, dof)
    if name == 't_test_0':
        return iu.t_test_0(ev, mv, dof)
    if name == 't_test_nc':
        return iu.t_test_nc(ev, nv[:, 0], st['ceiling'], dof)
    if name == 'get_errorbars':
        return iu.get_errorbars(mv, ev, dof, arg if arg == 'sem' else 'ci90', 't-test')
    if name == 'pair_tests':
        return iu.pair_tests(ev, arg, dv, dof)
    if name == 'zero_tests':
        return iu.zero_tests(ev, arg, mv, dof)
    if name == 'nc_tests':
        return iu.nc_tests(ev, nc, arg, nv, dof)
    if name == 'all_tests':
        return iu.all_tests(ev, nc, arg, mv, dv, nv, dof)
    if name == 'bootstrap_pair_tests':
        return iu.bootstrap_pair_tests(ev)
    if name == 'ranksum_pair_test':
        return iu.ranksum_pair_test(ev)
    if name == 'ranksum_value_test':
        return iu.ranksum_value_test(ev, 0 if arg == '0' else st['ceiling'])
    raise ValueError(op)


def _S_state_fp(level, st):
    from mc.util import fingerprint
    if level in ('result', 'eval_fixed'):
        R = st['R']
        return fingerprint({k: getattr(R, k) for k in (
            'evaluations', 'variances', 'noise_ceiling', 'model_var', 'diff_var', 'noise_ceil_var', 'dof',
            'n_rdm', 'n_pattern', 'cv_method', 'method', 'n_model', 'n_bootstraps')})
    return fingerprint({k: v for k, v in st.items()})


def _S_out(level, op, st):
    """-> (fingerprint of the output, printable output)"""
    from mc.util import fingerprint
    try:
        out = _S_call(level, op, st)
    except Exception as e:
        from mc.runner import exc_origin
        origin, where = exc_origin(sys.exc_info()[2])
        tag = 'raises:%s%s' % (type(e).__name__, '@oracle' if origin == 'oracle' else '')
        return tag, '%s: %s [%s %s]' % (type(e).__name__, str(e)[:150], origin, where)
    if isinstance(out, tuple):
        out = [np.array(o, dtype=float) if o is not None else None for o in out]
    elif isinstance(out, list):
        out = [np.array(o, dtype=float) for o in out]
    elif out is not None and not isinstance(out, str):
        out = np.array(out, dtype=float)
    return fingerprint(out), out


def _S_builder(case, seed):
    """-> (fresh() building a new state from the same original inputs, original evaluations, shape)"""
    level = case['level']
    if level == 'eval_fixed':
        import rsatoolbox.inference.evaluate as evaluate
        from rsatoolbox.model import ModelFixed
        from rsatoolbox.rdm import RDMs
        m, n, n_cond = case['m'], case['n'], 4
        L = n_cond * (n_cond - 1) // 2
        g = rng_for(seed, 'seq-fixed', m, n, case.get('fill', 0))
        mod = np.round(np.abs(g.normal(size=(m, L))) + 0.2, 3)
        dvec = np.round(np.abs(0.6 * mod[0] + g.normal(size=(n, L))) + 0.1, 3)
        models = [ModelFixed('model%d' % i, mod[i]) for i in range(m)]

        def fresh():
            return {'R': evaluate.eval_fixed(models, RDMs(dvec.copy()), method=case.get('method', 'corr'))}
        ev0 = np.array(fresh()['R'].evaluations, dtype=float)
        return fresh, ev0, ev0.shape
    from rsatoolbox.inference.result import Result
    from rsatoolbox.util.inference_util import extract_variances
    shape = tuple(case['shape'])
    m = shape[1]
    ev, ceil = build_evaluations(dict(case, vals=['B', case.get('fill', 0)]), seed)
    dof, form, nc_rows, (n_rdm, n_pattern) = VAR_COMBOS[case['vc']]
    cov = build_cov(form, m, nc_rows, ['B', case.get('fill', 0)], seed)
    cv = 'fixed' if shape[0] == 1 else cv_for(shape)
    if case.get('cv'):
        cv = case['cv']
    models = _models(m)
    if level == 'result':
        def fresh():
            return {'R': Result(models, ev.copy(), 'cosine', cv, ceil.copy(), variances=cov.copy(), dof=dof,
                                n_rdm=n_rdm, n_pattern=n_pattern)}
    else:
        def fresh():
            var = cov.copy()
            mv, dv, nv = extract_variances(var.copy(), nc_rows, n_rdm, n_pattern)
            return {'evaluations': ev.copy(), 'noise_ceiling': ceil.copy(), 'variances': var,
                    'model_var': np.array(mv), 'diff_var': np.array(dv), 'noise_ceil_var': np.array(nv),
                    'dof': dof, 'nc_included': nc_rows, 'n_rdm': n_rdm, 'n_pattern': n_pattern,
                    'ceiling': float(np.nanmean(ceil[0]))}
    return fresh, ev, shape


S_OPNAME = {'result': 'Result.%s', 'eval_fixed': 'Result.%s', 'util': 'inference_util.%s'}


def _S_sig(level, op, shape, kind):
    name = op.partition(':')[0]
    return '%s|samples%s|%s' % (S_OPNAME[level] % name, '=1' if shape[0] == 1 else '>1', kind)


def _S_diff(a, b):
    try:
        if isinstance(a, str) or isinstance(b, str):
            return 'first call alone:\n%s\nin the sequence:\n%s' % (b, a)
        fa = np.concatenate([np.ravel(x) for x in (a if isinstance(a, list) else [a]) if x is not None])
        fb = np.concatenate([np.ravel(x) for x in (b if isinstance(b, list) else [b]) if x is not None])
        return 'in the sequence %s, on a fresh object %s' % (np.round(fa, 6).tolist()[:12], np.round(fb, 6).tolist()[:12])
    except Exception:
        return '%r vs %r' % (a, b)


def run_S(case, ctx):
    level = case['level']
    with ctx.guard('sequence|level=%s' % level, case):
        fresh, ev0, shape = _S_builder(case, ctx.seed)
        if not np.isfinite(ev0).any(axis=tuple(i for i in range(ev0.ndim) if i != 1)).all():
            ctx.exclude('all samples NaN')
            return
        ops = S_ops(level, shape)
        # single calls on fresh objects: the value every later occurrence must reproduce
        alone = {}
        for op in ops:
            st = fresh()
            fp0 = _S_state_fp(level, st)
            alone[op] = _S_out(level, op, st)
            sub = dict(case, seq=[op])
            ctx.case(sub)
            if alone[op][0].endswith('@oracle'):
                ctx.fail(_S_sig(level, op, shape, alone[op][0]), sub, alone[op][1])
            if _S_state_fp(level, st) != fp0:
                ctx.fail(_S_sig(level, op, shape, 'modifies-' + ('result' if level != 'util' else 'arguments')), sub,
                         '%s changed the stored evaluations / variances / noise ceiling' % op)
        if level != 'util' and not alone['get_means'][0].startswith('raises'):
            want = ref.nan_mean_per_model(ev0)
            got = np.asarray(alone['get_means'][1], dtype=float)
            if got.shape != want.shape or not allclose(got, want, TOL):
                ctx.fail(_S_sig(level, 'get_means', shape, 'not-the-nan-aware-mean'), case,
                         'get_means() = %r, NaN-aware mean %r' % (got.tolist(), want.tolist()))
        if 'seq' in case:
            seqs = [list(case['seq'])]
        else:
            firsts = ops[slice(*case['first'])] if 'first' in case else ops
            seqs = [[a] + list(rest) for a in firsts for rest in itertools.product(ops, repeat=case.get('depth', 2) - 1)]
        base = {k: v for k, v in case.items() if k not in ('seq', 'first')}
        for seq in seqs:
            if len(seq) < 2:
                continue
            sub = dict(base, seq=seq)
            st = fresh()
            fp0 = _S_state_fp(level, st)
            ctx.case(sub)
            modified_by = None
            for k, op in enumerate(seq):
                fp_out, out = _S_out(level, op, st)
                fp1 = _S_state_fp(level, st)
                if k > 0 and fp_out != alone[op][0]:
                    detail = '%s after %r differs from the same call on a fresh object with the original ' \
                             'evaluations: %s' % (op, seq[:k], _S_diff(out, alone[op][1]))
                    if modified_by is None:
                        # stored inputs are bit-identical, the output still depends on the history
                        ctx.fail(_S_sig(level, op, shape, 'depends-on-earlier-call'), sub, detail)
                    else:
                        # consequence of the modification already reported: one signature per culprit
                        ctx.fail(_S_sig(level, modified_by, shape, 'later-outputs-wrong'), sub, detail)
                if fp1 != fp0:
                    ctx.fail(_S_sig(level, op, shape, 'modifies-' + ('result' if level != 'util' else 'arguments')), sub,
                             'call %d (%s) of %r changed the stored evaluations / variances / noise ceiling' % (
                                 k + 1, op, seq))
                    fp0 = fp1
                    modified_by = modified_by or op
            ctx.outcome(('S', level, seq[-1], alone[seq[-1]][0][:12]))


# ----------------------------------------------------------------------------- family X
# test_all / all_tests against the single-purpose routines and against the reference t-tests, for stored
# covariances whose two ceiling rows differ (in variance and in covariance with the models), every input form.
X_SHAPES = [(1, 3), (3,), (2, 2, 2)]          # trailing shapes: (samples, [models], ...)


def run_X(case, ctx):
    from rsatoolbox.inference.result import Result
    from rsatoolbox.util import inference_util as iu
    m, form = case['m'], case['form']
    n_rdm, n_pattern = case['n']
    dof = case['dof']
    cov = build_cov(form, m, True, case['vals'], ctx.seed)
    if case['vals'][0] == 'B':
        # make the two ceiling rows clearly different: upper ceiling noisier and differently correlated
        cov = np.array(cov, dtype=float)
        if cov.ndim == 1:
            cov[-1] = cov[-1] * 3.0 + 0.2
        else:
            cov[..., -1, -1] = cov[..., -1, -1] * 3.0 + 0.2
            cov[..., :-2, -1] *= -0.5
            cov[..., -1, :-2] *= -0.5
    cov = cov * case.get('scale', 1.0)
    tshape = X_SHAPES[case['shape']]
    shape = (tshape[0], m) + tuple(tshape[1:])
    g = rng_for(ctx.seed, 'X-eval', m, case['shape'], case.get('fill', 0))
    ev = np.round(0.2 + 0.3 * g.normal(size=shape), 4)
    ceil = np.array([0.35, 0.8])
    cv = 'fixed' if shape[0] == 1 else cv_for(shape)
    cfg = {'var': form + '+nc', 'cv': cv, 'nc': 'fixed', 'ndim': '=2' if len(shape) == 2 else '>2'}
    with ctx.guard('Result.__init__|var=%s' % cfg['var'], case):
        R = Result(_models(m), ev.copy(), 'cosine', cv, ceil.copy(), variances=cov.copy(), dof=dof,
                   n_rdm=n_rdm, n_pattern=n_pattern)
        obs = observe(R, ['t-test'], with_var=True, rest=False)
        ctx.case(case)
        judge_raises(ctx, obs, cfg, case)
        judge_ranges(ctx, obs, cfg, case, m)
        judge_all_consistency(ctx, obs, cfg, case)
        judge_t_reference(ctx, obs, cfg, case, ev, ceil, cov, m, dof, n_rdm, n_pattern)
        judge_errorbars(ctx, observe_errorbars(R, shape, full=True), cfg, case)
        obs['means'] = _try(R.get_means)
        judge_summary(ctx, R, 't-test', obs, cfg, case)
        judge_plain_accessors(ctx, R, case)
        # the util-level routines on the same arrays
        mv, dv, nv = iu.extract_variances(cov.copy(), True, n_rdm, n_pattern)
        u = {}
        allr = _try(lambda: iu.all_tests(ev.copy(), ceil.copy(), 't-test', mv, dv, nv, dof))
        if allr[0] == 'ok':
            u['p_pair_all:t-test'], u['p_zero_all:t-test'], u['p_noise_all:t-test'] = [('ok', x) for x in allr[1]]
        else:
            u['all:t-test'] = allr
        u['p_pair:t-test'] = _try(lambda: iu.pair_tests(ev.copy(), 't-test', dv, dof))
        u['p_zero:t-test'] = _try(lambda: iu.zero_tests(ev.copy(), 't-test', mv, dof))
        u['p_noise:t-test'] = _try(lambda: iu.nc_tests(ev.copy(), ceil.copy(), 't-test', nv, dof))
        ucfg = dict(cfg, util=True)
        for name in list(u):
            if u[name][0] == 'raises':
                ctx.fail('inference_util.%s|var=%s|raises:%s' % (name.partition(':')[0], cfg['var'], u[name][1]), case, u[name][3])
        for fam_, fn in (('p_pair', 'pair_tests'), ('p_zero', 'zero_tests'), ('p_noise', 'nc_tests')):
            a, b = u.get(fam_ + '_all:t-test'), u.get(fam_ + ':t-test')
            if a and b and a[0] == b[0] == 'ok':
                a, b = np.asarray(a[1], dtype=float), np.asarray(b[1], dtype=float)
                if a.shape != b.shape or not allclose(a, b, 1e-12):
                    ctx.fail('inference_util.all_tests[%s]|test=t-test,var=%s|differs-from-%s' % (fam_[2:], cfg['var'], fn),
                             case, 'all_tests gives %r, %s gives %r' % (a.tolist(), fn, b.tolist()))
                r = obs.get(fam_ + ':t-test')
                if r and r[0] == 'ok' and not allclose(b, np.asarray(r[1], dtype=float), 1e-12):
                    ctx.fail('inference_util.%s|test=t-test,var=%s|differs-from-Result-method' % (fn, cfg['var']), case,
                             '%s gives %r, the Result method %r' % (fn, b.tolist(), np.asarray(r[1]).tolist()))
        if obs.get('p_noise:t-test', ('',))[0] == 'ok':
            ctx.outcome(('X', np.round(np.asarray(obs['p_noise:t-test'][1], float), 6).tolist()))


# ----------------------------------------------------------------------------- family N
# Results WITHOUT variance estimates (plain cross-validation, eval_fixed on one RDM): means are defined,
# every variance-based quantity must be reported as undefined (None / NaN) or refused - never a number -
# by the Result methods and by the util routines alike; the variance-free tests keep working.
def _refused_or_nan(r):
    if r[0] == 'raises':
        return r[2] != 'oracle'
    v = r[1]
    if v is None:
        return True
    if isinstance(v, (tuple, list)):
        return all(x is None or np.isnan(np.asarray(x, dtype=float)).all() for x in v)
    return bool(np.isnan(np.asarray(v, dtype=float)).all())


def run_N(case, ctx):
    from rsatoolbox.inference.result import Result
    from rsatoolbox.util import inference_util as iu
    shape = tuple(case['shape'])
    m = shape[1]
    ev, ceil = build_evaluations(dict(case, vals=['B', case.get('fill', 0)]), ctx.seed)
    if not all(np.isfinite(np.moveaxis(ev, 1, 0)[j]).any() for j in range(m)):
        ctx.exclude('all samples NaN')
        return
    cv = case.get('cv') or ('crossvalidation' if shape[0] == 1 else cv_for(shape))
    types = [t for t in _S_types(shape) if t != 't-test']
    if shape[0] == 1 and case.get('mask'):
        types = [t for t in types if t != 'ranksum']     # rank-sum over subjects with missing evaluations: not claimed
    if 'ranksum' in types and shape[-1] < 2:
        # a rank-sum test over ONE subject is undefined (scipy refuses it when the single difference is zero)
        types = [t for t in types if t != 'ranksum']
        ctx.exclude('rank-sum test over a single subject: undefined')
    cfg = {'var': 'none', 'cv': 'fixed/crossvalidation' if shape[0] == 1 else 'bootstrap',
           'nc': 'fixed' if ceil.ndim == 1 else 'per-sample', 'ndim': '=2' if len(shape) == 2 else '>2'}
    models = _models(m)
    with ctx.guard('Result.__init__|var=none', case):
        R = Result(models[0] if (m == 1 and case.get('single')) else models, ev.copy(), 'cosine', cv, ceil.copy(),
                   variances=None, dof=case.get('dof', 0))
        ctx.case(case)
        obs = observe(R, types, with_var=False)
        judge_raises(ctx, obs, cfg, case)
        judge_ranges(ctx, obs, cfg, case, m, untied_matrix(ev) if 'bootstrap' in types else None)
        judge_all_consistency(ctx, obs, cfg, case)
        judge_plain_accessors(ctx, R, case)
        want = ref.nan_mean_per_model(ev)
        if obs['means'][0] == 'ok' and not allclose(np.asarray(obs['means'][1], dtype=float), want, TOL):
            ctx.fail(sig_for('means', cfg, 'not-the-nan-aware-mean'), case,
                     'get_means() = %r, NaN-aware mean %r' % (np.asarray(obs['means'][1]).tolist(), want.tolist()))
        # variance-based quantities: undefined, never numbers
        c = float(np.nanmean(ceil[0]))
        undefined = {
            'Result.model_var': ('ok', R.model_var), 'Result.diff_var': ('ok', R.diff_var),
            'Result.noise_ceil_var': ('ok', R.noise_ceil_var), 'Result.get_sem': _try(R.get_sem),
            'Result.get_ci': _try(lambda: R.get_ci(0.9, 't-test')),
            'Result.get_errorbars[sem]': _try(lambda: R.get_errorbars('sem')),
            'Result.get_errorbars[ci]': _try(lambda: R.get_errorbars('ci', 't-test')),
            'Result.test_pairwise': _try(lambda: R.test_pairwise('t-test')),
            'Result.test_zero': _try(lambda: R.test_zero('t-test')),
            'Result.test_noise': _try(lambda: R.test_noise('t-test')),
            'Result.test_all': _try(lambda: R.test_all('t-test')),
            'inference_util.t_tests': _try(lambda: iu.t_tests(ev.copy(), None, 2)),
            'inference_util.t_test_0': _try(lambda: iu.t_test_0(ev.copy(), None, 2)),
            'inference_util.t_test_nc': _try(lambda: iu.t_test_nc(ev.copy(), None, c, 2)),
            'inference_util.pair_tests': _try(lambda: iu.pair_tests(ev.copy(), 't-test', None, 2)),
            'inference_util.zero_tests': _try(lambda: iu.zero_tests(ev.copy(), 't-test', None, 2)),
            'inference_util.nc_tests': _try(lambda: iu.nc_tests(ev.copy(), ceil.copy(), 't-test', None, 2)),
            'inference_util.all_tests': _try(lambda: iu.all_tests(ev.copy(), ceil.copy(), 't-test', None, None, None, 2)),
            'inference_util.get_errorbars[sem]': _try(lambda: iu.get_errorbars(None, ev.copy(), 2, 'sem', 't-test')),
            'inference_util.get_errorbars[ci]': _try(lambda: iu.get_errorbars(None, ev.copy(), 2, 'ci', 't-test')),
        }
        for op, r in undefined.items():
            if r[0] == 'raises':
                ctx.count('refused: %s %s' % (op, r[1]))
            if not _refused_or_nan(r):
                ctx.fail('%s|var=none|number-without-variance-estimate' % op, case, '%s returned %r' % (op, r[1]))
        ueb = undefined['inference_util.get_errorbars[sem]']
        if ueb[0] == 'ok' and np.asarray(ueb[1]).shape != (2, m):
            ctx.fail('inference_util.get_errorbars|var=none|shape', case, 'shape %r' % (np.asarray(ueb[1]).shape,))
        # summary: means shown, everything variance-based shown as nan; the variance-free tests agree with it
        base = dict(obs)
        base['sem'] = ('ok', None)
        base['p_zero:t-test'] = base['p_noise:t-test'] = ('raises',)
        judge_summary(ctx, R, 't-test', base, cfg, case)
        for tt in types:
            if tt == 'ranksum' or len(shape) == 2:
                judge_summary(ctx, R, tt, base, cfg, case)
        # requests that are not understood are refused, by every wrapper
        for op, fn in (('Result.test_pairwise', lambda: R.test_pairwise('z-test')),
                       ('Result.test_zero', lambda: R.test_zero('z-test')),
                       ('Result.test_noise', lambda: R.test_noise('z-test')),
                       ('Result.test_all', lambda: R.test_all('z-test')),
                       ('inference_util.get_errorbars', lambda: iu.get_errorbars(np.ones(m), ev.copy(), 2, 'std', 't-test'))):
            r = _try(fn)
            if r[0] != 'raises' or r[2] == 'oracle':
                ctx.fail('%s|unknown-request|not-refused' % op, case, 'returned %r' % (r[1],))
        ctx.outcome(('N', np.round(want, 6).tolist()))


# ----------------------------------------------------------------------------- enumeration
def _chunks(total, size):
    return [[a, min(total, a + size)] for a in range(0, total, size)]


def shapes_for(m, tier):
    th = tier == 'thorough'
    out = {
        2: [(2, m), (3, m), (4, m)] + ([(5, m)] if th else []),
        3: [(1, m, 2), (1, m, 3), (3, m, 2), (4, m, 3)] + ([(1, m, 5), (2, m, 4), (5, m, 2)] if th else []),
        4: [(2, m, 2, 2), (3, m, 1, 2)] + ([(4, m, 2, 3), (5, m, 1, 1)] if th else []),
        5: [(2, m, 2, 2, 3), (3, m, 1, 1, 3)] + ([(4, m, 2, 2, 3)] if th else []),
    }
    return out


def masks_for(shape):
    n = shape[2] if shape[0] == 1 else shape[0]
    return [list(c) for c in combi.masks(n, min(4, n))]


def shards(tier, seed):
    th = tier == 'thorough'
    out = []
    # ---- V: Tier-A alphabets per form
    for m in (1, 2, 3, 4):
        for nc in (False, True):
            s = m + 2 if nc else m
            plan = []
            if m == 1 and not nc:
                plan.append(('scalar', 'c6'))
            plan.append(('vector', 'v3'))
            t = _tri(s)
            if t <= 3:
                plan.append(('matrix', 'v4'))
            elif t <= 6:
                plan.append(('matrix', 'v4' if th else 'v3'))
            elif t <= 10:
                plan.append(('matrix', 'v3' if th else 'v2'))
            if 3 * t <= 3:
                plan.append(('stack', 'c6'))
            elif 3 * t <= 9:
                plan.append(('stack', 'v3' if th else 'v2'))
            for form, alpha in plan:
                total = len(ALPHA[alpha]) ** cov_length(form, s)
                per = max(8, int(2500 / (9 + [1, 2, 6, 24][m - 1])))
                for rng in _chunks(total, per):
                    out.append({'fam': 'V', 'tierA': alpha, 'm': m, 'form': form, 'nc': nc, 'range': rng})
            # fills for every form
            forms = ['vector', 'matrix', 'stack'] + (['scalar'] if (m == 1 and not nc) else [])
            for form in forms:
                out.append({'fam': 'V', 'tierB': 10 if th else 4, 'm': m, 'form': form, 'nc': nc})
    # ---- T: fills over all shapes / masks / ceiling forms / (dof, variance form) combos
    vcs = ['a', 'b', 'c', 'd', 'e', 'f', 'g'] if th else ['a', 'b', 'c']
    for m in (1, 2, 3, 4):
        sh = shapes_for(m, tier)
        for ndim in (2, 3, 4, 5):
            for shape in sh[ndim]:
                for ncf in ('fixed', 'boot'):
                    for fill in range(5 if th else (2 if m < 4 else 1)):
                        # 24 orders of 4 models: one shard per (dof, variance form) group keeps shards small
                        for part in ([vcs[i:i + 2] for i in range(0, len(vcs), 2)] if (th and m == 4) else [vcs]):
                            out.append({'fam': 'T', 'kind': 'fills', 'shape': list(shape), 'ncf': ncf, 'fill': fill,
                                        'vcs': part, 'types': ['t-test', 'bootstrap']})
                if ndim == 3:
                    for ncf in (('fixed', 'boot') if th else ('boot',)):
                        for mk in range(4 if m == 4 else 1):
                            out.append({'fam': 'T', 'kind': 'fills', 'shape': list(shape), 'ncf': ncf,
                                        'fill': 3 if th else 0, 'vcs': ['a'], 'types': ['ranksum'],
                                        'maskpart': [mk, 4 if m == 4 else 1]})
    # ---- T: Tier-A alphabets (all sign / tie / zero patterns)
    # (shape, mode, alphabet with a fixed ceiling, alphabet with per-sample ceilings)
    if th:
        planA = [((2, 1), 'A', 'q4', 'q4'), ((2, 2), 'A', 'q4', 'q4'), ((3, 2), 'A', 'q4', 'q4'),
                 ((2, 3), 'A', 'q4', 'q3'), ((1, 2, 2), 'A', 'q4', 'q4'), ((1, 1, 3), 'A', 'q4', 'q4'),
                 ((1, 2, 3), 'A', 'q4', 'q3'), ((2, 2, 2, 1), 'S', 'q4', 'q4'), ((2, 2, 1, 2, 3), 'S', 'q4', 'q4'),
                 ((4, 2), 'A', 'q3', 'q3'), ((2, 2, 2), 'A', 'q3', 'q3'), ((3, 3), 'A', 'q2', 'q2'),
                 ((2, 4), 'A', 'q3', 'q2'), ((3, 2, 2), 'S', 'q4', 'q3')]
    else:
        planA = [((2, 1), 'A', 'q4', 'q4'), ((2, 2), 'A', 'q4', 'q4'), ((3, 2), 'A', 'q3', 'q3'),
                 ((2, 3), 'A', 'q3', 'q2'), ((1, 2, 2), 'A', 'q4', 'q3'), ((1, 1, 3), 'A', 'q4', 'q4'),
                 ((1, 2, 3), 'A', 'q3', 'q2'), ((2, 2, 2, 1), 'S', 'q4', 'q3'), ((2, 2, 1, 2, 3), 'S', 'q4', 'q3')]
    for shape, mode, alpha_fixed, alpha_boot in planA:
        length = int(np.prod(shape)) if mode == 'A' else shape[0] * shape[1]
        m = shape[1]
        per = max(16, 600 // [1, 2, 6, 24][m - 1])
        for ncf, alpha in (('fixed', alpha_fixed), ('boot', alpha_boot)):
            total = len(ALPHA[alpha]) ** length
            for rng in _chunks(total, per):
                types = ['t-test', 'bootstrap']
                if len(shape) == 3 and total <= (1024 if th else 256):
                    types = types + ['ranksum']
                out.append({'fam': 'T', 'kind': 'alpha', 'shape': list(shape), 'mode': mode, 'alpha': alpha,
                            'ncf': ncf, 'range': rng, 'types': types})
    # ---- F: eval_fixed with replaced compare: every per-subject evaluation matrix over the alphabet
    planF = [(1, 2, 'q4'), (1, 3, 'q4'), (1, 4, 'q4'), (2, 2, 'q4'), (2, 3, 'q4'), (3, 2, 'q4' if th else 'q3'),
             (4, 2, 'q2')]
    if th:
        planF += [(2, 4, 'q4'), (3, 3, 'q3'), (4, 2, 'q3'), (1, 5, 'q4')]
    for m, n, alpha in planF:
        total = len(ALPHA[alpha]) ** (m * n)
        per = max(16, 1200 // [1, 2, 6, 24][m - 1])
        for rng in _chunks(total, per):
            out.append({'fam': 'F', 'mode': 'patched', 'm': m, 'n': n, 'alpha': alpha, 'range': rng})
    for m in (1, 2, 3, 4):
        out.append({'fam': 'F', 'mode': 'patched', 'm': m, 'ns': [2, 3, 4, 5, 6] + ([7] if th else []),
                    'fills': 6 if th else 3})
        for method in ['cosine', 'corr', 'spearman'] + (['tau-a', 'rho-a', 'cosine_cov'] if th else []):
            out.append({'fam': 'F', 'mode': 'real', 'm': m, 'method': method, 'ns': [2, 3, 4, 5, 6],
                        'n_conds': [3, 4] + ([5] if th else []), 'fills': 5 if th else 2})
    for m in ((1, 2, 3) if th else (1, 2)):
        for method in ('cosine', 'corr'):
            total = 3 ** 6
            for rng in _chunks(total, 243):
                out.append({'fam': 'F', 'mode': 'real', 'm': m, 'method': method, 'alpha': 'v3', 'n': 2,
                            'n_cond': 3, 'range': rng})
    # ---- S: every ordered pair (thorough: triple) of calls on ONE Result / one shared ndarray
    for m in (1, 2, 3):
        plan = [((1, m, 3), 'a', 'fixed', [], None), ((1, m, 4), 'a', 'boot', [], 'crossvalidation'),
                ((3, m), 'b', 'boot', [], None), ((3, m, 2), 'b', 'boot', [], None),
                ((2, m, 2, 2), 'c', 'fixed', [], None), ((4, m), 'b', 'fixed', [2], None)]
        if th:
            plan += [((1, m, 5), 'b', 'fixed', [1], None), ((4, m, 3), 'c', 'boot', [0], None),
                     ((2, m, 1, 1, 3), 'b', 'boot', [], None)]
        for shape, vc, ncf, mask, cv in plan:
            for level in ('result', 'util'):
                for fill in range(2 if th else 1):
                    case = {'fam': 'S', 'level': level, 'shape': list(shape), 'vc': vc, 'ncf': ncf, 'mask': mask,
                            'fill': fill, 'depth': 2}
                    if cv:
                        case['cv'] = cv
                    out.append(case)
                    if th and m <= 2 and fill == 0:
                        n_ops = len(S_ops(level, shape))
                        for a in range(0, n_ops, 2):
                            out.append(dict(case, depth=3, first=[a, a + 2]))
        out.append({'fam': 'S', 'level': 'eval_fixed', 'm': m, 'n': 4, 'fill': 0, 'depth': 2})
        if th:
            out.append({'fam': 'S', 'level': 'eval_fixed', 'm': m, 'n': 6, 'fill': 1, 'depth': 2, 'method': 'cosine'})
    # ---- X: test_all vs single-purpose tests vs reference t-tests, asymmetric ceiling rows, every form
    for m in (1, 2, 3, 4):
        for form in ('vector', 'matrix', 'stack'):
            out.append({'fam': 'X', 'm': m, 'form': form, 'fills': 6 if th else 2})
    for m, form, alpha in [(1, 'vector', 'v3'), (2, 'vector', 'v3'), (1, 'matrix', 'v3')] + (
            [(3, 'vector', 'v3'), (1, 'stack', 'v2')] if th else []):
        total = len(ALPHA[alpha]) ** cov_length(form, m + 2)
        for rng in _chunks(total, 400):
            out.append({'fam': 'X', 'm': m, 'form': form, 'alpha': alpha, 'range': rng})
    # ---- N: Results without variance estimates
    for m in (1, 2, 3):
        out.append({'fam': 'N', 'm': m, 'fills': 4 if th else 2})
    # ---- M: monotonicity grids
    for m in (1, 2, 3):
        for dof in (1, 2, 7):
            out.append({'fam': 'M', 'm': m, 'dof': dof})
    return out


def run_shard(shard, ctx):
    fam = shard['fam']
    if fam == 'V':
        m, form, nc = shard['m'], shard['form'], shard['nc']
        if 'tierA' in shard:
            for idx in range(*shard['range']):
                run_case({'fam': 'V', 'm': m, 'form': form, 'nc': nc, 'vals': ['A', shard['tierA'], idx], 'k': idx}, ctx)
        else:
            for fill in range(shard['tierB']):
                run_case({'fam': 'V', 'm': m, 'form': form, 'nc': nc, 'vals': ['B', fill], 'k': fill}, ctx)
                if form == 'stack':     # 3-stacks: every n combination with every permutation
                    for k in range(9):
                        run_case({'fam': 'V', 'm': m, 'form': form, 'nc': nc, 'vals': ['B', fill], 'k': k,
                                  'all_n': False}, ctx)
    elif fam == 'T':
        shape = shard['shape']
        if shard['kind'] == 'fills':
            masks = masks_for(shape)
            if 'maskpart' in shard:
                a, b = shard['maskpart']
                masks = masks[a::b]
            if 'ranksum' not in shard['types'] and shape[0] >= 2 and len(shape) >= 3:
                # NaN entries spread unevenly over the further axes (mean of means != pooled mean)
                for pat in ['fold', 'model', 'model-all'] + (['rep', 'rep-all'] if len(shape) >= 4 else []):
                    for i, vc in enumerate(shard['vcs'][:2]):
                        run_case({'fam': 'T', 'shape': shape, 'mask': [], 'nanpat': pat, 'ncf': shard['ncf'],
                                  'vc': vc, 'types': shard['types'], 'vals': ['B', shard['fill']], 'vfill': i % 2}, ctx)
            for mask in masks:
                if 'ranksum' in shard['types'] and shape[0] == 1 and mask:
                    continue        # rank-sum over subjects with missing evaluations: not claimed
                for i, vc in enumerate(shard['vcs']):
                    run_case({'fam': 'T', 'shape': shape, 'mask': mask, 'ncf': shard['ncf'], 'vc': vc,
                              'types': shard['types'], 'vals': ['B', shard['fill']], 'vfill': i % 2}, ctx)
                if shape[0] == 1 and 'ranksum' not in shard['types'] and 'a' in shard['vcs']:
                    run_case({'fam': 'T', 'shape': shape, 'mask': mask, 'ncf': shard['ncf'], 'vc': 'a',
                              'cv': 'crossvalidation', 'types': ['t-test'], 'vals': ['B', shard['fill']]}, ctx)
        else:
            for idx in range(*shard['range']):
                run_case({'fam': 'T', 'shape': shape, 'mask': [], 'ncf': shard['ncf'], 'vc': 'b',
                          'types': shard['types'], 'vals': [shard['mode'], shard['alpha'], idx]}, ctx)
    elif fam == 'F':
        cases = []
        if shard['mode'] == 'patched':
            if 'range' in shard:
                for idx in range(*shard['range']):
                    cases.append({'fam': 'F', 'mode': 'patched', 'm': shard['m'], 'n': shard['n'],
                                  'vals': ['A', shard['alpha'], idx], 'lo': 0.25 if idx % 2 else 0.3,
                                  'prov': PROVS[idx % len(PROVS)]})
            else:
                for n in shard['ns']:
                    for prov in PROVS:
                        for fill in range(shard['fills'] if prov == 'fresh' else 1):
                            cases.append({'fam': 'F', 'mode': 'patched', 'm': shard['m'], 'n': n, 'vals': ['B', fill],
                                          'lo': 0.4, 'prov': prov})
        else:
            if 'range' in shard:
                for idx in range(*shard['range']):
                    cases.append({'fam': 'F', 'mode': 'real', 'm': shard['m'], 'n': shard['n'],
                                  'n_cond': shard['n_cond'], 'method': shard['method'],
                                  'vals': ['A', shard['alpha'], idx]})
            else:
                for n in shard['ns']:
                    for n_cond in shard['n_conds']:
                        for fill in range(shard['fills']):
                            cases.append({'fam': 'F', 'mode': 'real', 'm': shard['m'], 'n': n, 'n_cond': n_cond,
                                          'method': shard['method'], 'vals': ['B', fill]})
                    if shard['m'] <= 3 or ctx.tier == 'thorough':
                        for prov in PROVS[1:]:      # data provenance menu (index descriptor forms)
                            cases.append({'fam': 'F', 'mode': 'real', 'm': shard['m'], 'n': n, 'n_cond': 4,
                                          'method': shard['method'], 'vals': ['B', 0], 'prov': prov})
        recs = [r for r in (_F_execute(c, ctx) for c in cases) if r is not None]
        _F_judge_batch(recs, ctx)
    elif fam == 'M':
        m = shard['m']
        for level in range(len(VAR_LEVELS)):
            for nc in (False, True):
                for shape in ([1, m, 3], [3, m], [2, m, 2, 1]):
                    for target in range(m):
                        run_case({'fam': 'M', 'm': m, 'dof': shard['dof'], 'nc': nc, 'level': level, 'shape': shape,
                                  'target': target, 'corr': bool((level + target) % 2),
                                  'n_rdm': [None, 3][target % 2]}, ctx)
    elif fam == 'S':
        run_case(shard, ctx)
    elif fam == 'N':
        m = shard['m']
        for fill in range(shard['fills']):
            for shape, cv, ncf in (((1, m, 3), 'crossvalidation', 'boot'), ((1, m, 4), 'fixed', 'fixed'),
                                   ((1, m, 1), 'fixed', 'fixed'), ((3, m), None, 'boot'), ((4, m), None, 'fixed'),
                                   ((3, m, 2), None, 'boot'), ((4, m, 2, 2), None, 'boot')):
                for mask in masks_for(shape)[:4]:
                    case = {'fam': 'N', 'shape': list(shape), 'ncf': ncf, 'mask': mask, 'fill': fill}
                    if cv:
                        case['cv'] = cv
                    run_case(case, ctx)
                    if m == 1 and not mask:
                        run_case(dict(case, single=True, dof=3), ctx)
    elif fam == 'X':
        m, form = shard['m'], shard['form']
        if 'range' in shard:
            for idx in range(*shard['range']):
                run_case({'fam': 'X', 'm': m, 'form': form, 'vals': ['A', shard['alpha'], idx], 'n': N_COMBOS[idx % 9],
                          'dof': (1, 2, 7)[idx % 3], 'shape': idx % 3}, ctx)
        else:
            for fill in range(shard['fills']):
                for k, n in enumerate(N_COMBOS):
                    for sh in range(len(X_SHAPES)):
                        run_case({'fam': 'X', 'm': m, 'form': form, 'vals': ['B', fill], 'fill': fill, 'n': list(n),
                                  'dof': (1, 2, 7)[(k + sh) % 3], 'shape': sh}, ctx)
                        if k % 3 == fill % 3:     # tiny variances: p-values below 0.001 in every column
                            run_case({'fam': 'X', 'm': m, 'form': form, 'vals': ['B', fill], 'fill': fill,
                                      'n': list(n), 'dof': (7, 2, 1)[(k + sh) % 3], 'shape': sh, 'scale': 1e-5}, ctx)
    else:
        raise ValueError(fam)


def run_case(case, ctx):
    fam = case['fam']
    if fam == 'V':
        run_V(case, ctx)
    elif fam == 'T':
        run_T(case, ctx)
    elif fam == 'F':
        run_F(case, ctx)
    elif fam == 'M':
        run_M(case, ctx)
    elif fam == 'S':
        run_S(case, ctx)
    elif fam == 'X':
        run_X(case, ctx)
    elif fam == 'N':
        run_N(case, ctx)
    else:
        raise ValueError(fam)
