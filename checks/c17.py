"""C17 - RDM transforms mean what they say; measures are invariant as theory dictates
(DESIGN 4/C17)

Part T (transforms): every stack of 1-2 RDM vectors over a small value alphabet (all tie /
zero / sign patterns) plus fixed generic fills, every transform with every parameter of its
menu (5 rank methods, 9 quantile pairs, 5 custom functions), every NaN mask up to a weight
for every transform that supports missing entries (rank, sqrt, positive, custom; a missing
entry must stay missing; minmax / geodesic / geo-topological are undefined with NaN on the
unchanged tree: excluded and counted); the real transform is run on a freshly built RDMs object carrying one of
four descriptor / measure-name configurations and judged entry by entry against the plain
definitions of mc/ref/c17_ref.py, and its descriptors / measure name against the source's.

Part I (invariance): for every comparison method named in the property, compare() of two
stacks before and after mapping either / both stacks by every map of the class the theory
names for the method (strictly increasing maps for rank-based measures, positive affine maps
for correlation-type, positive scalings for cosine-type measures); every (i, j) entry must be
unchanged.  For the rank-based measures the maps include range-compressing / -expanding ones
(50+1e-4x, 1e-9x, 1e6x, tanh(x/1e5), exp(5x)), stacks with a common missing entry, and each
entry is also judged against the order-only definition (exact comparisons) on the mapped values.

Correlation-type (corr, corr_cov with sigma_k None / variance vector / matrix) and cosine-type
measures are also driven over stacks with common missing entries (every single position, a few
pairs / triples of positions) under every affine map (incl. offsets +7, +1e3) resp. scaling of
their class, and corr(_cov) must equal cosine(_cov) of the RDMs centred on their available entries.

The measures built on the shared cosine kernel (cosine, corr, spearman, rho-a, cosine_cov, corr_cov)
are also run on stacks that CONTAIN a degenerate (all-zero / constant) RDM next to ordinary ones, in
either argument: the entries between ordinary RDMs must be invariant and equal the definition.
The geo-topological transform must follow ONE reading of 'its quantile thresholds' (joint / per
RDM) for all nine quantile pairs of a stack, boundary pairs (0,1), (0,u), (l,1) included.

Sequences: every ordered pair (first call, second call) of the 11 compare configurations and 7
transforms on ONE pair of RDMs objects (compare only: also plain arrays): inputs bit-identical
after each call, the second result equal to the one on fresh objects and invariant (map of its
class applied to the privately kept true values).

Part T also runs minmax / geodesic on integer-valued RDMs with values 1..K for every K (value
range K-1, and five positive affine images of each) and requires the extremes to go to exactly
0 and 1.  Part P/N (rank-based evaluations have noise ceilings): both pool_rdm twins against
the mean of per-RDM tie-averaged ranks, and pool_rdm / boot_noise_ceiling / cv_noise_ceiling /
eval_fixed unchanged when every data RDM goes through its OWN strictly increasing map, and
equal to an independent computation from the mean of per-RDM ranks.
"""
import itertools
import math

import numpy as np

from mc import combi
from mc.ref import c17_ref as ref
from mc.ref import measures as mref
from mc.util import allclose, close, maxreldev, reldev, rng_for, spd

PROPERTY = 'C17'
LEVEL = 'exploration'
RULE = ('Part T: every stack of 1-2 RDM vectors over {-1,0,1,2}^3 (all 64, all 4096 ordered '
        'pairs) and {0,1,2}^6 (all 729, each with a fixed set of partner vectors) plus fixed '
        'generic fills for 3-6 conditions; for each stack every transform x parameter (rank '
        'methods average/min/max/dense/ordinal, sqrt, positive, minmax, geodesic, 9 quantile '
        'pairs, 5 custom functions) and, for the transforms that support missing entries (rank, '
        'sqrt, positive, custom), every NaN mask up to a weight; one '
        'evaluation = one real transform call judged against the reference definition and the '
        'source\'s descriptors. Part I: one evaluation = one (i,j) entry of a real compare() '
        'call on mapped stacks judged against the same entry on the unmapped stacks, for every '
        'method x map of its invariance class x side (first, second, both arguments); rank-based '
        'measures additionally under range-compressing / -expanding increasing maps, on stacks with '
        'a common missing entry, and against the order-only definition on the mapped values. '
        'Part T integer ranges: minmax / geodesic on RDMs over {1, K//2+1, K}^3, [K,a,b,c,d,1] and integer '
        'fills for every K up to the bound, alone and as the stack of 5 positive affine images; extremes '
        'must map to exactly 0 / 1. Part P/N: for spearman, rho-a, kendall, tau-b, tau-a the pooled RDM '
        '(both pool_rdm implementations) of every 2-stack over {0,1,2}^3 and of generic 2-4 stacks (also '
        'with a common missing pair), and boot / cv / eval_fixed noise ceilings of generic stacks, untreated '
        '(against the mean-of-per-RDM-ranks definition) and with every RDM mapped by its own increasing map '
        '(rotations of 7 harness maps, rank_transform, minmax_transform, sqrt_transform). '
        'Non-trivial = transform / measure defined for the input (non-constant RDM for '
        'minmax/geodesic, distinct quantile thresholds, non-degenerate vectors for the '
        'measure); distinct = distinct case descriptor (plus (i,j) for part I).')
ASSUMPTIONS = [
    'reference definitions in mc/ref/c17_ref.py and mc/ref/measures.py are correct',
    'quantile thresholds use linear interpolation between order statistics (numpy default); the '
    'statement does not say whether the quantiles of a stack are taken per RDM or jointly: for '
    'stacks of 2 either reading is accepted, stacks for which one of the readings is undefined '
    'are excluded',
    'whichever reading (joint - the one the tree implements - or per RDM) explains the geo-topological result, '
    'it must be the same for all quantile pairs applied to one stack',
    'a stack whose quantile thresholds are closer than 1e-6 has no defined clipped-linear map (excluded)',
    'rank method "ordinal" breaks ties by position (scipy semantics named in the docstring)',
    'NaN entries: rank_transform, sqrt_transform, positive_transform and transform(fun) keep a missing '
    'entry missing; minmax / geodesic / geo-topological return all-NaN or raise on the unchanged tree '
    'and are not claimed (excluded, counted)',
    'the pooled RDM of a rank-based method is the mean over RDMs of each RDM\'s own tie-averaged ranks '
    '(library docstring / warning "noise ceiling for tau based on averaged ranks"); lower noise ceiling = '
    'mean similarity of each RDM with the pool of the others, upper = with the pool of all',
    'minmax "onto [0,1]": minimum and maximum of every RDM map to exactly 0.0 and 1.0 (division by the range)',
    'harness-applied maps are verified to be strictly increasing in floating point on each stack '
    '(pairwise order check), otherwise the case is excluded',
    'values outside the enumerated alphabets are represented by fixed generic fills only',
    '"updated measure name" is read as: a non-empty string different from the source\'s name',
    'whitened measures go through the library\'s conjugate-gradient solve: tolerance 1e-5 (largest deviation seen 6e-8)',
]
TOL = 1e-9
TOL_CG = 1e-4     # scipy cg stops at a relative RESIDUAL of 1e-5; the error of the whitened similarity can exceed that
GAP_MIN = 1e-6
TOLERANCES = {'transform values': TOL, 'invariance plain': TOL, 'invariance whitened(cg)': TOL_CG,
              'quantile threshold gap below which geo-topological is undefined': GAP_MIN}
BOUNDS = {
    'quick': {'alphabets': ['{-1,0,1,2}^3 singles + all ordered pairs', '{0,1,2}^6 singles + 2 partners'],
              'nan_masks': 'n=3: all masks (weight<=3) singles, all 8x8 mask pairs on 1 partner; '
                           'n=4: weight<=1',
              'generic': {'n_cond': [3, 4, 5, 6], 'fills': 2, 'stack': [1, 2]},
              'invariance': {'tierA': ['{0,1,2}^3 all pairs (kendall / tau-b: every second map each)',
                                       '{-1,0,1,2}^3 all pairs (tau-a: one side per map; kendall / tau-b: every '
                                       'second vector against all 64, every second map each, one side per map)'],
                             'generic_fills': 4, 'n_cond': [4, 5],
                             'common_nan': 'rank-based: n_cond=4, every single missing pair, 5 maps, one side per map; '
                                           'corr/cosine types (sigma_k none/vector/full): n_cond 4,5, every single position + 3-4 '
                                           'pairs/triples, every harness map of the class, one side per map, every second fill',
                             'centring_law': 'corr(_cov)==cosine(_cov) of centred RDMs: both n=3 alphabets, fills n_cond 4,5 complete '
                                             'and with every single / every pair (n_cond 4) of missing positions'},
              'degenerate_in_stack': 'cosine, corr, spearman, rho-a, cosine_cov, corr_cov (all sigma_k forms): whole {0,1,2}^3 '
                                     'block with its zero / constant vectors, all maps, all sides; fills with an all-zero RDM '
                                     'inserted in the first / second / both stacks (one placement per fill and value kind)',
              'geotop_stacks': 'all Tier-A 2-stacks and fills with 1, 2 and 3 RDMs x 9 quantile pairs, reading consistent per stack',
              'sequences': 'fills n_cond 4,5 x 3 value kinds: all 18x18 ordered call pairs on RDMs objects, 11x11 on arrays',
              'integer_ranges': 'K = 2..64: {1,K//2+1,K}^3 (27), [K,a,b,c,d,1] (16), 3 integer fills; each alone and as 5 affine images',
              'pool_and_noise_ceilings': {'pool_tierA': 'all 729 2-stacks over {0,1,2}^3, one treatment each (rotating)',
                                          'pool_fills': 'n_cond 4,5 x n_rdm 2,3,4 x 3 value kinds x 2 fills x 10 treatments; common NaN n_cond=4,n_rdm=3',
                                          'noise_ceilings': 'n_cond 4 x n_rdm 2,3,4 and n_cond 5 x n_rdm 3; 3 value kinds; 6 treatments'}},
    'thorough': {'alphabets': ['{-1,0,1,2}^3 singles + all ordered pairs', '{0,1,2}^6 singles + 16 partners',
                               '{-1,0,1,2}^6 singles'],
                 'nan_masks': 'n=3: all masks singles, all 8x8 mask pairs on 12 partners; n=4: weight<=3',
                 'generic': {'n_cond': [3, 4, 5, 6], 'fills': 8, 'stack': [1, 2, 3]},
                 'invariance': {'tierA': ['{0,1,2}^3 all pairs', '{-1,0,1,2}^3 all pairs',
                                          '{0,1,2}^6: 27 rows x all 729'],
                                'generic_fills': 20, 'n_cond': [4, 5, 6],
                                'common_nan': 'rank-based as quick; corr/cosine types: all fills, all sides, n_cond 4 every pair of positions',
                                'centring_law': 'as quick with 4 fills'},
                 'degenerate_in_stack': 'as quick plus the {-1,0,1,2}^3 blocks; fills: every placement, every side',
                 'sequences': 'as quick with 3 fills',
                 'integer_ranges': 'K = 2..128 as in quick; K = 2..64: all 729 vectors over {1,K//2+1,K}^6',
                 'pool_and_noise_ceilings': {'pool_tierA': 'all 2-stacks over {0,1,2}^3 and {-1,0,1,2}^3, all 19683 3-stacks over {0,1,2}^3',
                                             'pool_fills': 'as quick with 6 fills',
                                             'noise_ceilings': 'n_cond 4,5 x n_rdm 2,3,4 x 3 value kinds x 4 fills x 10 treatments'}},
}

# ------------------------------------------------------------------ alphabets and fills
ALPHA = {'012^3': ((0, 1, 2), 3), 'm1012^3': ((-1, 0, 1, 2), 3), '012^6': ((0, 1, 2), 6),
         'm1012^6': ((-1, 0, 1, 2), 6)}
_ALPHA_CACHE = {}


def alphabet_vectors(name):
    if name not in _ALPHA_CACHE:
        alpha, length = ALPHA[name]
        _ALPHA_CACHE[name] = np.array(list(combi.vectors(alpha, length)), dtype=float)
    return _ALPHA_CACHE[name]


def generic_stack(seed, n_cond, fill, kind, n_vec, tag='T'):
    """fixed generic fill: kind 'signed' (generic position, both signs), 'ties' (rounded to
    halves: ties, zeros, negatives), 'nonneg' (absolute values)"""
    g = rng_for(seed, 'c17fill' + tag, n_cond, fill, n_vec)
    x = g.normal(size=(n_vec, n_cond * (n_cond - 1) // 2)) * 1.5
    x[:, 0] += 0.3
    if kind == 'ties':
        x = np.round(x * 2) / 2
        x[:, 0] += 0.5
    elif kind == 'nonneg':
        x = np.abs(x)
    elif kind != 'signed':
        raise ValueError(kind)
    return np.round(x, 4)


# ------------------------------------------------------------------ transforms menu
RANK_METHODS = list(ref.RANK_METHODS)
QUANTILE_PAIRS = [[lo, up] for lo in (0.0, 0.2, 0.4) for up in (0.6, 0.8, 1.0)]
CUSTOM = {
    'square': lambda v: v ** 2,
    'affine3x-1': lambda v: 3 * v - 1,
    'abs': np.abs,
    'exp': np.exp,
    'cumsum_rows': lambda v: np.cumsum(v, axis=1),   # not element-wise: acts on each vector
}
CUSTOM_REF = {
    'square': lambda row: [a * a for a in row],
    'affine3x-1': lambda row: [3 * a - 1 for a in row],
    'abs': lambda row: [abs(a) for a in row],
    'exp': lambda row: [math.exp(a) for a in row],
    'cumsum_rows': lambda row: list(itertools.accumulate(row)),
}
OPS = ([['rank', m] for m in RANK_METHODS] + [['sqrt', None], ['positive', None], ['minmax', None],
                                              ['geodesic', None]] +
       [['geotop', qp] for qp in QUANTILE_PAIRS] + [['custom', f] for f in CUSTOM])
# operations driven through the NaN-mask families: all of them; those the library does not support
# with missing entries are excluded and counted in run_T
NAN_OPS = OPS
NAN_UNSUPPORTED = ('minmax', 'geodesic', 'geotop')
# operations driven over the integer-range RDMs (values 1..K for every K): the two that depend on
# the exact image of the extremes
RANGE_OPS = [['minmax', None], ['geodesic', None]]
GEOTOP_OPS = [['geotop', qp] for qp in QUANTILE_PAIRS]
LIBNAME = {'rank': 'rank_transform', 'sqrt': 'sqrt_transform', 'positive': 'positive_transform',
           'minmax': 'minmax_transform', 'geodesic': 'geodesic_transform',
           'geotop': 'geotopological_transform', 'custom': 'transform'}
MEASURES = [None, 'Euclidean', 'squared euclidean', 'crossnobis']


def source_descriptors(dclass, n_rdm, n_cond):
    """four descriptor configurations; returns (measure, descriptors, rdm_desc, pattern_desc)"""
    if dclass == 0:
        return None, None, None, None
    if dclass == 1:
        return ('Euclidean', {'subj': 3, 'tag': 'a'},
                {'session': np.array([7 - i for i in range(n_rdm)]),
                 'name': ['r%d' % ((3 * i + 1) % 5) for i in range(n_rdm)]},
                {'type': np.array([(i * 2) % 3 for i in range(n_cond)]),
                 'label': ['c%s' % 'qzamxbkw'[(3 * i + 1) % 8] for i in range(n_cond)]})
    if dclass == 2:
        return ('squared euclidean', {'roi': 'V1'},
                {'run': [5 + 2 * i for i in range(n_rdm)], 'index': [10 + i for i in range(n_rdm)]},
                {'index': list(range(n_cond - 1, -1, -1)), 'cat': ['x', 'y'] * (n_cond // 2) + ['x'] * (n_cond % 2)})
    if dclass == 3:
        return ('crossnobis', {'noise': [1, 2, 3]},
                {'w': np.array([0.5 + i for i in range(n_rdm)])},
                {'pos': np.array([1.5 * i for i in range(n_cond)])})
    raise ValueError(dclass)


def _vals(v):
    if isinstance(v, np.ndarray):
        return v.tolist()
    return list(v) if isinstance(v, (list, tuple)) else v


def _same_dict(got, want):
    if got is None or set(got.keys()) != set(want.keys()):
        return False
    for k in want:
        if _vals(got[k]) != _vals(want[k]):
            return False
    return True


def _reference_rows(op, param, vecs):
    """per-RDM reference; returns (list of rows or None if undefined, reason)"""
    rows = []
    for row in vecs:
        row = [float(a) for a in row]
        if op == 'rank':
            r = ref.ranks(row, param)
        elif op == 'sqrt':
            r = ref.sqrt_clip(row)
        elif op == 'positive':
            r = ref.positive(row)
        elif op == 'minmax':
            r = ref.minmax(row)
        elif op == 'geodesic':
            r = ref.geodesic(row)
        elif op == 'custom':
            r = CUSTOM_REF[param](row)
        else:
            raise ValueError(op)
        if r is None:
            return None, 'constant RDM: %s undefined' % LIBNAME[op]
        rows.append(r)
    return rows, None


def _geotop_candidates(vecs, low, up):
    """reference results under the two readings of 'its quantile thresholds' (jointly over
    the stack / per RDM); None if one of them is undefined"""
    cands = []
    flat = [float(a) for row in vecs for a in row]
    ql, qu = ref.quantile(flat, low), ref.quantile(flat, up)
    if not qu - ql > GAP_MIN:
        return None
    cands.append(('joint', [ref.geotopological(row, ql, qu) for row in vecs], [(ql, qu)] * len(vecs)))
    if len(vecs) > 1:
        rows, thr = [], []
        for row in vecs:
            ql, qu = ref.quantile(row, low), ref.quantile(row, up)
            if not qu - ql > GAP_MIN:
                return None
            rows.append(ref.geotopological(row, ql, qu))
            thr.append((ql, qu))
        cands.append(('per-rdm', rows, thr))
    return cands


def _geotop_kind(got, cands, vecs):
    """which part of the clipped-linear law the first wrong entry violates (no data values)"""
    _, want, thr = cands[0]
    for r, row in enumerate(vecs):
        ql, qu = thr[r]
        for k, x in enumerate(row):
            g, w = got[r][k], want[r][k]
            if close(g, w, TOL):
                continue
            if x < ql:
                return 'below-low-threshold-not-0'
            if x > qu:
                return 'above-up-threshold-not-1'
            if g == 1.0:
                return 'between-thresholds-set-to-1'
            return 'between-thresholds-not-linear'
    return 'value-mismatch'


def _geodesic_kind(got, want, vecs):
    for r, row in enumerate(vecs):
        hi = max(row)
        for k, x in enumerate(row):
            if x == hi and not close(got[r][k], want[r][k], TOL) and got[r][k] < want[r][k]:
                return 'maximal-edge-not-removed'
    for r, row in enumerate(vecs):
        lo = min(row)
        for k, x in enumerate(row):
            if close(got[r][k], want[r][k], TOL):
                continue
            if x == lo and want[r][k] == 0.0:
                return 'minimal-edge-length-not-0'
        # no minimal edge wrong, some other path
    return 'path-length-mismatch'


def _register(ctx, case, nontrivial=True):
    """ctx.case without the JSON + blake2 hashing (dominant cost for 2e5 tiny transform calls); the
    runner sets PYTHONHASHSEED=0, so hash(repr) is stable"""
    import mc.runner as _r
    ctx.evaluations += 1
    ctx.last_case = case
    if nontrivial:
        ctx.distinct.add(hash(repr(case)))
    if _r._is_sample_index(ctx.evaluations) and len(ctx.samples) < 8:
        ctx.samples.append(_r.jsonable(case))


def run_T(case, ctx, vecs=None, state=None):
    """one transform call on one stack; case: {'kind':'T','src':..., 'op','param','dclass'}"""
    import rsatoolbox.rdm as rr
    if vecs is None:
        vecs = _stack_from_src(case['src'], ctx.seed)
    op, param, dclass = case['op'], case['param'], case['dclass']
    vecs = np.array(vecs, dtype=float)
    k, m = vecs.shape
    n_cond = ref.n_from_len(m)
    name = LIBNAME[op]
    stack = 'stack=1' if k == 1 else 'stack>1'
    has_nan = bool(np.isnan(vecs).any())
    cfg = stack + (',nan' if has_nan else '')
    if op == 'rank':
        # rank_transform ranks each RDM on its own by construction: class = method (+ NaN present)
        cfg = 'method=%s' % param + (',nan' if has_nan else '')
    if has_nan and op in NAN_UNSUPPORTED:
        # min / max / quantile of an RDM with missing entries are NaN on the unchanged tree (the
        # whole result is NaN, geodesic_transform raises): not claimed by the statement
        ctx.exclude('%s: RDM with missing (NaN) entries not supported' % name)
        return
    # ---------------- reference
    if op == 'geotop':
        cands = _geotop_candidates(vecs.tolist(), param[0], param[1])
        if cands is None:
            _register(ctx, case, nontrivial=False)
            ctx.exclude('geo-topological: quantile thresholds coincide (under one of the readings)')
            return
    else:
        want, why = _reference_rows(op, param, vecs.tolist())
        if want is None:
            _register(ctx, case, nontrivial=False)
            ctx.exclude(why)
            return
    _register(ctx, case)
    measure, desc, rdesc, pdesc = source_descriptors(dclass, k, n_cond)
    with ctx.guard('%s|%s' % (name, cfg), case):
        src = rr.RDMs(vecs.copy(), dissimilarity_measure=measure, descriptors=desc,
                      rdm_descriptors=rdesc, pattern_descriptors=pdesc)
        # what the source looks like once constructed (index entries added by the class)
        src_desc = dict(src.descriptors)
        src_rdesc = {a: _vals(b) for a, b in src.rdm_descriptors.items()}
        src_pdesc = {a: _vals(b) for a, b in src.pattern_descriptors.items()}
        if op == 'rank':
            res = rr.rank_transform(src, method=param)
        elif op == 'sqrt':
            res = rr.sqrt_transform(src)
        elif op == 'positive':
            res = rr.positive_transform(src)
        elif op == 'minmax':
            res = rr.minmax_transform(src)
        elif op == 'geodesic':
            res = rr.geodesic_transform(src)
        elif op == 'geotop':
            res = rr.geotopological_transform(src, param[0], param[1])
        else:
            res = rr.transform(src, CUSTOM[param])
        # ---------------- container
        if not isinstance(res, rr.RDMs):
            ctx.fail('%s|%s|not-an-RDMs' % (name, stack), case, 'returned %r' % type(res))
            return
        got = np.asarray(res.dissimilarities, dtype=float)
        if got.shape != (k, m) or res.n_rdm != k or res.n_cond != n_cond:
            ctx.fail('%s|%s|shape' % (name, stack), case, 'dissimilarities %r n_rdm %r n_cond %r for a %dx%d stack'
                     % (got.shape, res.n_rdm, res.n_cond, k, m))
            return
        # ---------------- values
        if op == 'geotop':
            hits = []
            for reading, rows, _ in cands:
                if allclose(got, rows, TOL):
                    if not hits:
                        ctx.dev('geotop/' + reading, maxreldev(got, rows))
                    hits.append(reading)
            hit = hits[0] if hits else None
            if state is not None and k > 1 and hits:
                state.setdefault('geotop', []).append((param, hits))
            if hit is None:
                ctx.fail('%s|%s|%s' % (name, stack, _geotop_kind(got.tolist(), cands, vecs.tolist())), case,
                         'stack %s quantiles (%s, %s): got %s, clipped-linear map gives %s (thresholds %s)' % (
                             vecs.tolist(), param[0], param[1], got.tolist(), cands[0][1], cands[0][2][0]))
            elif k > 1:
                ctx.count('geotop_stack_matches_' + hit)
            ctx.outcomes.add(hash(('geotop', np.round(got, 6).tobytes())))
        else:
            ctx.dev(name, maxreldev(got, want))
            if op == 'minmax':
                # 'onto [0, 1]': the minimum of each RDM goes to 0 and the maximum to 1, exactly
                # (geodesic_transform identifies the maximal edges by their weight 1)
                if not all(float(np.max(row)) == 1.0 for row in got):
                    ctx.fail('%s|%s|maximum-not-exactly-1' % (name, stack), case,
                             'stack %s: maxima of the result %s' % (vecs.tolist(), [repr(float(np.max(r))) for r in got]))
                if not all(float(np.min(row)) == 0.0 for row in got):
                    ctx.fail('%s|%s|minimum-not-exactly-0' % (name, stack), case,
                             'stack %s: minima of the result %s' % (vecs.tolist(), [repr(float(np.min(r))) for r in got]))
            if not allclose(got, want, TOL):
                kind = 'value-mismatch'
                if op == 'geodesic':
                    kind = _geodesic_kind(got.tolist(), want, vecs.tolist())
                elif has_nan:
                    # a missing entry must stay missing (and nothing else may become missing)
                    wn = np.isnan(np.array(want, dtype=float))
                    kind = 'nan-positions' if not np.array_equal(np.isnan(got), wn) else 'value-mismatch'
                ctx.fail('%s|%s|%s' % (name, cfg, kind), case, 'stack %s%s: got %s, definition %s' % (
                    vecs.tolist(), '' if param is None else ' (%s)' % (param,), got.tolist(), want))
            ctx.outcomes.add(hash((op, (np.round(np.nan_to_num(got, nan=-7.0, posinf=-8.0), 6) + 0.0).tobytes())))
        # ---------------- descriptors and measure name
        if not _same_dict(res.descriptors, src_desc):
            ctx.fail('%s|descriptors|descriptors-differ' % name, case,
                     'source %r result %r' % (src_desc, res.descriptors))
        if not _same_dict(res.rdm_descriptors, src_rdesc):
            ctx.fail('%s|descriptors|rdm_descriptors-differ' % name, case,
                     'source %r result %r' % (src_rdesc, res.rdm_descriptors))
        if not _same_dict(res.pattern_descriptors, src_pdesc):
            ctx.fail('%s|descriptors|pattern_descriptors-differ' % name, case,
                     'source %r result %r' % (src_pdesc, res.pattern_descriptors))
        new = res.dissimilarity_measure
        if new == measure:
            ctx.fail('%s|measure-name|not-updated' % name, case,
                     'source measure %r, result measure %r' % (measure, new))
        elif not isinstance(new, str) or not new.strip():
            ctx.fail('%s|measure-name|not-a-string' % name, case, 'source measure %r, result %r' % (measure, new))


def geotop_consistency(ctx, src, state):
    """the statement leaves open whether the quantile thresholds of a stack are taken jointly or per
    RDM - but it is ONE transform: the same reading must explain the results for all quantile pairs"""
    seen = (state or {}).get('geotop', [])
    if len(seen) < 2:
        return
    common = set(seen[0][1])
    for _, hits in seen:
        common &= set(hits)
    if not common:
        ctx.fail('geotopological_transform|stack>1|quantile-reading-differs-between-quantile-pairs',
                 {'kind': 'Tgeo', 'src': src},
                 'stack %s: readings of "the quantile thresholds" matching the result, per (low, up): %s' % (
                     src, ['%s: %s' % (qp, '/'.join(h)) for qp, h in seen]))


def run_Tgeo(case, ctx):
    """all quantile pairs on one stack + the consistency of the reading across them"""
    vecs = _stack_from_src(case['src'], ctx.seed)
    state = {}
    for n, qp in enumerate(QUANTILE_PAIRS):
        run_T({'kind': 'T', 'src': case['src'], 'op': 'geotop', 'param': qp, 'dclass': n % 4}, ctx, vecs, state)
    geotop_consistency(ctx, case['src'], state)


# ------------------------------------------------------------------ stack sources
def _partners(i, n, count):
    """fixed partner indices for vector i among n (reverse, neighbours, strides)"""
    cand = [n - 1 - i, (i + 1) % n, (i * 7 + 3) % n, (i + n // 2) % n, (i * 13 + 5) % n, (i + 27) % n,
            (i * 5 + 11) % n, (i + 81) % n, (i * 3 + 2) % n, (i + 243) % n, (i * 11 + 1) % n, (i + 9) % n,
            (i * 17 + 4) % n, (i + 3) % n, (i * 19 + 8) % n, (i + 100) % n]
    out = []
    for c in cand:
        if c not in out:
            out.append(c)
        if len(out) == count:
            break
    return out


def _stack_from_src(src, seed):
    """src: ['alpha', name, [idx...], masks|None] or ['fill', n_cond, fill, kind, n_vec, nanpos|None]"""
    if src[0] == 'alpha':
        V = alphabet_vectors(src[1])
        vecs = np.array([V[i] for i in src[2]], dtype=float)
        if src[3] is not None:
            for r, mask in enumerate(src[3]):
                for p in mask:
                    vecs[r, p] = np.nan
        return vecs
    if src[0] == 'fill':
        vecs = generic_stack(seed, src[1], src[2], src[3], src[4])
        if src[5] is not None:
            for (r, p) in src[5]:
                vecs[r, p] = np.nan
        return vecs
    if src[0] == 'range':
        return range_stack(seed, *src[1:])
    raise ValueError(src)


RESCALINGS = [(1.0, 0.0), (3.0, 0.0), (0.1, 5.0), (7.0, -2.0), (1.0 / 3.0, 1.0)]


def range_stack(seed, n_cond, K, family, idx, rescale):
    """integer-valued RDM with minimum 1 and maximum K (value range K-1):
    family 'abc': the idx-th vector over the alphabet {1, K//2+1, K};
    family 'clusters' (4 conditions): [K, a, b, c, d, 1] with a..d over {K//2+1, K-1} - the maximal pair
        is far from everything, the detours around it are long;
    family 'fill': fixed pseudo-random integers 1..K with the extremes forced in.
    rescale 'none': that single RDM; 'stack5': the stack of its five positive affine images RESCALINGS"""
    m = n_cond * (n_cond - 1) // 2
    mid = K // 2 + 1
    if family == 'abc':
        digits = []
        x = idx
        for _ in range(m):
            digits.append(x % 3)
            x //= 3
        v = np.array([(1, mid, K)[d] for d in reversed(digits)], dtype=float)
    elif family == 'clusters':
        assert n_cond == 4
        bits = [(idx >> b) & 1 for b in range(4)]
        v = np.array([K] + [(mid, K - 1)[b] for b in bits] + [1], dtype=float)
    elif family == 'fill':
        g = rng_for(seed, 'c17range', n_cond, K, idx)
        v = np.round(1 + (K - 1) * g.uniform(size=m))
        pos = g.permutation(m)
        v[pos[0]] = 1
        v[pos[1]] = K
    else:
        raise ValueError(family)
    if rescale == 'none':
        return v[None, :].copy()
    if rescale == 'stack5':
        return np.array([a * v + o for a, o in RESCALINGS])
    raise ValueError(rescale)


def _all_masks(m, maxw):
    return [list(c) for c in combi.masks(m, maxw)]


def _iter_T(shard):
    """yields (src, ops) for the stacks of one T shard"""
    kind = shard['t']
    alpha = shard.get('alpha')
    if kind == 'single':
        for i in range(shard['rows'][0], shard['rows'][1]):
            yield ['alpha', alpha, [i], None], OPS
    elif kind == 'pairs':
        n = len(alphabet_vectors(alpha))
        for i in range(shard['rows'][0], shard['rows'][1]):
            js = range(n) if shard['partners'] == 'all' else _partners(i, n, shard['partners'])
            for j in js:
                yield ['alpha', alpha, [i, j], None], OPS
    elif kind == 'nan-single':
        m = ALPHA[alpha][1]
        masks = [mk for mk in _all_masks(m, shard['maxw']) if mk]
        for i in range(shard['rows'][0], shard['rows'][1]):
            for mk in masks:
                yield ['alpha', alpha, [i], [mk]], NAN_OPS
    elif kind == 'nan-pairs':
        m = ALPHA[alpha][1]
        n = len(alphabet_vectors(alpha))
        masks = _all_masks(m, shard['maxw'])
        for i in range(shard['rows'][0], shard['rows'][1]):
            for j in _partners(i, n, shard['partners']):
                for m1 in masks:
                    for m2 in masks:
                        if not m1 and not m2:
                            continue
                        yield ['alpha', alpha, [i, j], [m1, m2]], NAN_OPS
    elif kind == 'range':
        for K in range(shard['K'][0], shard['K'][1]):
            fams = [(3, 'abc', range(27)), (4, 'clusters', range(16)), (4, 'fill', range(2)), (5, 'fill', range(1))]
            if shard.get('full'):
                fams = [(4, 'abc', range(729))]
            for n_cond, fam, idxs in fams:
                for idx in idxs:
                    for rs in ('none', 'stack5'):
                        yield ['range', n_cond, K, fam, idx, rs], RANGE_OPS
    elif kind == 'fill':
        n_cond, fill = shard['n_cond'], shard['fill']
        m = n_cond * (n_cond - 1) // 2
        for n_vec in shard['stacks']:
            for vk in ('signed', 'ties', 'nonneg'):
                yield ['fill', n_cond, fill, vk, n_vec, None], OPS
                # every single missing entry, and two missing entries in different rows
                for r in range(n_vec):
                    for p in range(m):
                        yield ['fill', n_cond, fill, vk, n_vec, [[r, p]]], NAN_OPS
                if n_vec >= 2:
                    for p in range(m):
                        yield ['fill', n_cond, fill, vk, n_vec, [[0, p], [1, (p + 1) % m]]], NAN_OPS
        if 3 not in shard['stacks']:
            # stacks of 3 RDMs with different ranges for every quantile pair (incl. the boundary pairs)
            for vk in ('signed', 'ties', 'nonneg'):
                yield ['fill', n_cond, fill, vk, 3, None], GEOTOP_OPS
    else:
        raise ValueError(kind)


# ------------------------------------------------------------------ invariance part
RANK_BASED = ['spearman', 'rho-a', 'kendall', 'tau-b', 'tau-a']
CORR_TYPE = ['corr', 'corr_cov']
COS_TYPE = ['cosine', 'cosine_cov']

# name -> (class, domain, callable on an RDMs object returning RDMs or array)
MAPS = {}


def _np_map(fun):
    def apply(rdms):
        import rsatoolbox.rdm as rr
        return rr.RDMs(fun(rdms.get_vectors().copy()))
    return apply


def _lib(fname, **kw):
    def apply(rdms):
        import rsatoolbox.rdm as rr
        return getattr(rr, fname)(rdms, **kw)
    return apply


def _lib_custom(fun):
    def apply(rdms):
        import rsatoolbox.rdm as rr
        return rr.transform(rdms, fun)
    return apply


# class: 'monotone' (strictly increasing, not affine), 'affine' (a*x+b, a>0, b!=0), 'scaling' (a*x, a>0)
MAPS['cube'] = ('monotone', 'any', _np_map(lambda v: v ** 3))
MAPS['exp'] = ('monotone', 'any', _np_map(np.exp))
MAPS['sqrt'] = ('monotone', 'nonneg', _np_map(np.sqrt))
MAPS['lib:transform(cube)'] = ('monotone', 'any', _lib_custom(lambda v: v ** 3))
MAPS['lib:sqrt_transform'] = ('monotone', 'nonneg', _lib('sqrt_transform'))
MAPS['lib:rank_transform(average)'] = ('monotone', 'any', _lib('rank_transform', method='average'))
MAPS['lib:rank_transform(min)'] = ('monotone', 'any', _lib('rank_transform', method='min'))
MAPS['lib:rank_transform(max)'] = ('monotone', 'any', _lib('rank_transform', method='max'))
MAPS['lib:rank_transform(dense)'] = ('monotone', 'any', _lib('rank_transform', method='dense'))
MAPS['2x+1'] = ('affine', 'any', _np_map(lambda v: 2 * v + 1))
MAPS['0.5x-1.3'] = ('affine', 'any', _np_map(lambda v: 0.5 * v - 1.3))
MAPS['3.7x+0.25'] = ('affine', 'any', _np_map(lambda v: 3.7 * v + 0.25))
MAPS['lib:minmax_transform'] = ('affine', 'any', _lib('minmax_transform'))
MAPS['2.5x+7'] = ('affine', 'any', _np_map(lambda v: 2.5 * v + 7.0))
MAPS['0.3x+1e3'] = ('affine', 'any', _np_map(lambda v: 0.3 * v + 1e3))
MAPS['0.5x'] = ('scaling', 'any', _np_map(lambda v: 0.5 * v))
MAPS['2x'] = ('scaling', 'any', _np_map(lambda v: 2 * v))
MAPS['3.7x'] = ('scaling', 'any', _np_map(lambda v: 3.7 * v))
# class 'rescaling': strictly increasing maps that compress / expand / shift the value range by many
# orders of magnitude (a measure that only depends on the order must not care how close the values are)
MAPS['50+1e-4x'] = ('rescaling', 'any', _np_map(lambda v: 50. + 1e-4 * v))
MAPS['1e-9x'] = ('rescaling', 'any', _np_map(lambda v: 1e-9 * v))
MAPS['1e6x'] = ('rescaling', 'any', _np_map(lambda v: 1e6 * v))
MAPS['tanh(x/1e5)'] = ('rescaling', 'any', _np_map(lambda v: np.tanh(v / 1e5)))
MAPS['exp(5x)'] = ('rescaling', 'any', _np_map(lambda v: np.exp(5 * v)))
MAPS['lib:transform(1e3+1e-5x)'] = ('rescaling', 'any', _lib_custom(lambda v: 1e3 + 1e-5 * v))
MAP_ORDER = list(MAPS)
# maps driven over stacks with a common missing (NaN) entry: the library transforms that support NaN
# and two harness maps
NAN_MAPS = ['cube', 'lib:transform(cube)', 'lib:sqrt_transform', 'lib:rank_transform(average)',
            '50+1e-4x']


# the large-offset affine maps are for the correlation-type measures; the rank-based ones already get
# large offsets / tiny slopes through the 'rescaling' class
CORR_ONLY_MAPS = ('2.5x+7', '0.3x+1e3')


# measures driven over stacks that contain a degenerate (all-zero / constant) RDM next to ordinary ones
DEGEN_METHODS = ('cosine', 'corr', 'spearman', 'rho-a', 'cosine_cov', 'corr_cov')


def degen_maps_for(method):
    """maps for stacks with degenerate RDMs: minmax_transform is undefined for a constant RDM"""
    return [m for m in maps_for(method) if m != 'lib:minmax_transform']


def nan_maps_for(method):
    """maps driven over stacks with common missing entries"""
    if method in RANK_BASED:
        return list(NAN_MAPS)
    return [m for m in maps_for(method) if not m.startswith('lib:')]   # minmax_transform: no NaN support


def maps_for(method):
    if method in RANK_BASED:
        classes = ('monotone', 'affine', 'scaling', 'rescaling')
        return [m for m in MAP_ORDER if MAPS[m][0] in classes and m not in CORR_ONLY_MAPS]
    elif method in CORR_TYPE:
        classes = ('affine', 'scaling')
    else:
        classes = ('scaling',)
    return [m for m in MAP_ORDER if MAPS[m][0] in classes]


def _partner_map(method, mp, nonneg, nan=False, degen=False):
    """the map applied to the second argument when both are mapped: the next admissible one"""
    pool = nan_maps_for(method) if nan else (degen_maps_for(method) if degen else maps_for(method))
    ms = [m for m in pool if nonneg or MAPS[m][1] == 'any']
    return ms[(ms.index(mp) + 1) % len(ms)]


def _inv_stacks(src, seed):
    """src: ['alpha', name, [a,b]] -> X = rows a..b, Y = all ; ['alpharows', name, [rows]] ;
    ['fill', n_cond, fill, kind]"""
    if src[0] == 'alpha':
        V = alphabet_vectors(src[1])
        return V[src[2][0]:src[2][1]], V
    if src[0] == 'alpharows':
        V = alphabet_vectors(src[1])
        return V[src[2]], V
    if src[0] == 'fill':
        X = generic_stack(seed, src[1], src[2], src[3], 5, tag='IX')
        Y = generic_stack(seed, src[1], src[2], src[3], 6, tag='IY')
        if len(src) > 4 and src[4]:
            # the same condition pairs missing in every RDM of both stacks (supported by compare)
            X[:, src[4]] = np.nan
            Y[:, src[4]] = np.nan
        if len(src) > 5 and src[5]:
            # an all-zero RDM (zero norm, constant: degenerate for every measure) inside the stack(s),
            # at a position that depends on the fill
            zero = np.zeros((1, X.shape[1]))
            if 'x' in src[5]:
                k = src[2] % (len(X) + 1)
                X = np.concatenate([X[:k], zero, X[k:]])
            if 'y' in src[5]:
                k = (src[2] + 2) % (len(Y) + 1)
                Y = np.concatenate([Y[:k], zero, Y[k:]])
        return X, Y
    raise ValueError(src)


def _sigma(kind, n, seed):
    if kind == 'none':
        return None
    if kind == 'full':
        return spd(rng_for(seed, 'c17sigma', n), n)
    if kind == 'vector':
        return np.round(rng_for(seed, 'c17sigmavec', n).uniform(0.5, 3.0, size=n), 3)
    raise ValueError(kind)


def run_I(case, ctx, base=None):
    """case: {'kind':'I','method','sigma','src','map','side'}; one compare() call on mapped
    stacks, judged entry-wise against compare() on the unmapped stacks and (rank-based measures)
    against the reference definition evaluated on the mapped values"""
    import rsatoolbox.rdm as rr
    method, mp, side = case['method'], case['map'], case['side']
    X, Y = _inv_stacks(case['src'], ctx.seed)
    keep = ~np.isnan(X[0])
    has_nan = not bool(keep.all())
    # degenerate vectors (undefined measure): counted; they leave the stacks, or - case['degen'] - stay
    # in the stacks next to the ordinary RDMs and only their own entries are not judged
    degen = bool(case.get('degen'))
    kx = [i for i, x in enumerate(X) if not mref.is_degenerate(method, x[keep])]
    ky = [j for j, y in enumerate(Y) if not mref.is_degenerate(method, y[keep])]
    n_ex = len(X) * len(Y) - len(kx) * len(ky)
    if n_ex:
        ctx.excluded['measure undefined (zero norm / constant vector)'] += n_ex
        ctx.evaluations += n_ex
    if not kx or not ky:
        return None
    if degen:
        if not n_ex:
            return None     # nothing degenerate in these stacks: covered by the plain case
        kx, ky = set(kx), set(ky)
    else:
        X, Y = X[kx], Y[ky]
        kx, ky = set(range(len(X))), set(range(len(Y)))
    nonneg = bool(np.nanmin(X) >= 0 and np.nanmin(Y) >= 0)
    cls, dom, fun = MAPS[mp]
    if dom == 'nonneg' and not nonneg:
        raise ValueError('map %s needs non-negative stacks' % mp)
    n_cond = ref.n_from_len(X.shape[1])
    white = method in ('cosine_cov', 'corr_cov')
    rank_based = method in RANK_BASED
    kw = {'sigma_k': _sigma(case['sigma'], n_cond, ctx.seed)} if white else {}
    tol = TOL_CG if white else TOL
    tag = 'method=%s,map=%s' % (method, cls)
    if white:
        tag += ',sigma_k=%s' % case['sigma']
    if has_nan:
        tag += ',nan'
    if degen:
        tag += ',degenerate-RDM-in-stack'
    sigma_ref = kw.get('sigma_k')
    import mc.runner as _r
    with ctx.guard('invariance|' + tag, case):
        rx, ry = rr.RDMs(X.copy()), rr.RDMs(Y.copy())
        if base is None:
            base = np.asarray(rr.compare(rx, ry, method=method, **kw))
        mp2 = _partner_map(method, mp, nonneg, has_nan, degen)
        tx = fun(rx) if side in ('x', 'xy') else rx
        if side == 'y':
            ty = fun(ry)
        elif side == 'xy':
            ty = MAPS[mp2][2](ry)
        else:
            ty = ry
        TX = np.asarray(tx.get_vectors(), dtype=float)
        TY = np.asarray(ty.get_vectors(), dtype=float)
        if rank_based:
            # harness-applied maps must really be strictly increasing in floating point on this data
            for used, A, B in ((mp if side != 'y' else None, X, TX),
                               (mp if side == 'y' else (mp2 if side == 'xy' else None), Y, TY)):
                if used is None or used.startswith('lib:'):
                    continue
                if not all(ref.same_order(a, b) for a, b in zip(A, B)):
                    ctx.exclude('harness map not strictly increasing in floating point on this stack')
                    return base
        got = np.asarray(rr.compare(tx, ty, method=method, **kw))
        if got.shape != base.shape:
            ctx.fail('invariance|%s|shape' % tag, case, '%r vs %r' % (got.shape, base.shape))
            return base
        h = _r.h64(case)
        for i in range(got.shape[0]):
            if i not in kx:
                continue
            txi = TX[i][keep] if (rank_based or degen) else None
            for j in range(got.shape[1]):
                if j not in ky:
                    continue
                ctx.evaluations += 1
                ctx.distinct.add(hash((h, i, j)))
                ctx.dev('inv/' + method, reldev(got[i, j], base[i, j]))
                if not close(got[i, j], base[i, j], tol) or math.isnan(got[i, j]):
                    ctx.fail('invariance|%s|changed' % tag, dict(case, i=i, j=j),
                             '%s of x=%s, y=%s is %.12g; after %s on %s%s it is %.12g' % (
                                 method, X[i].tolist(), Y[j].tolist(), base[i, j], mp, side,
                                 ' (second argument mapped by %s)' % mp2 if side == 'xy' else '', got[i, j]))
                if rank_based or degen:
                    # the definition (rank-based: order-only, exact comparisons) evaluated on the mapped values
                    if white:
                        want = mref.similarity(method, txi, TY[j][keep], sigma_ref,
                                               None if not has_nan else (n_cond, list(np.nonzero(keep)[0])))
                    else:
                        want = mref.similarity(method, txi, TY[j][keep])
                    if want is not None:
                        ctx.dev('inv-def/' + method, reldev(got[i, j], want))
                        if not close(got[i, j], want, tol):
                            ctx.fail('invariance|%s|differs-from-definition' % tag, dict(case, i=i, j=j),
                                     '%s of the mapped x=%s, y=%s (map %s on %s) is %.12g, definition %.12g' % (
                                         method, TX[i].tolist(), TY[j].tolist(), mp, side, got[i, j], want))
                if (i + 7 * j) % 5 == 0:
                    ctx.outcome(round(float(base[i, j]), 9))
        ctx.last_case = case
        if len(ctx.samples) < 2:
            ctx.samples.append(_r.jsonable(dict(case, example_x=X[0].tolist(), example_y=Y[-1].tolist())))
    return base


def run_C(case, ctx):
    """correlation-type = cosine-type of the mean-centred RDMs (mean over the available entries):
    corr == cosine and corr_cov == cosine_cov (same sigma_k) after removing each RDM's own mean;
    case: {'kind':'C','src':..., 'sigma':...}"""
    import rsatoolbox.rdm as rr
    X, Y = _inv_stacks(case['src'], ctx.seed)
    keep = ~np.isnan(X[0])
    kx = [i for i, x in enumerate(X) if not mref.is_degenerate('corr', x[keep])]
    ky = [j for j, y in enumerate(Y) if not mref.is_degenerate('corr', y[keep])]
    if not kx or not ky:
        ctx.exclude('measure undefined (zero norm / constant vector)')
        return
    X, Y = X[kx], Y[ky]
    n_cond = ref.n_from_len(X.shape[1])
    nan = ',nan' if not keep.all() else ''
    # own centring, entry by entry over the available entries
    Xc = np.array([[a - sum(r[keep]) / int(keep.sum()) for a in r] for r in X])
    Yc = np.array([[a - sum(r[keep]) / int(keep.sum()) for a in r] for r in Y])
    pairs = [('corr', 'cosine', {}, TOL)] if case['sigma'] == 'none' else []
    pairs.append(('corr_cov', 'cosine_cov', {'sigma_k': _sigma(case['sigma'], n_cond, ctx.seed)}, TOL_CG))
    for m_corr, m_cos, kw, tol in pairs:
        tag = 'law|%s==%s-of-centred|sigma_k=%s%s' % (m_corr, m_cos, case['sigma'], nan)
        with ctx.guard(tag, case):
            a = np.asarray(rr.compare(rr.RDMs(X.copy()), rr.RDMs(Y.copy()), method=m_corr, **kw))
            b = np.asarray(rr.compare(rr.RDMs(Xc), rr.RDMs(Yc), method=m_cos, **kw))
            ctx.case(dict(case, law=m_corr), n=a.size)
            ctx.dev('law/' + m_corr, maxreldev(a, b))
            ctx.outcome(np.round(a, 7).tolist())
            if not allclose(a, b, tol):
                ctx.fail(tag + '|differs', case, '%s of %s, %s: %s; %s of the mean-centred RDMs: %s' % (
                    m_corr, X.tolist()[:2], Y.tolist()[:2], a.tolist()[:2], m_cos, b.tolist()[:2]))


def nan_positions(n_cond, full=False):
    """common missing entries: every single position; a few pairs and one triple of positions (full: every
    pair of positions for 4 conditions)"""
    m = n_cond * (n_cond - 1) // 2
    out = [[p] for p in range(m)]
    if n_cond == 4 and full:
        out += [[p, q] for p in range(m) for q in range(p + 1, m)]
    elif n_cond == 4:
        out += [[0, 1], [2, 5], [1, 3, 4]]
    else:
        out += [[0, 1], [2, 7], [4, m - 1], [2, 7, m - 2]]
    return out


def run_L(case, ctx):
    """theory link between the two halves: Spearman = Pearson correlation of the rank-transformed
    RDMs (average ranks); rho-a likewise 12*cov/(n^3-n) needs no separate law"""
    import rsatoolbox.rdm as rr
    X, Y = _inv_stacks(case['src'], ctx.seed)
    kx = [i for i, x in enumerate(X) if not mref.is_degenerate('spearman', x)]
    ky = [j for j, y in enumerate(Y) if not mref.is_degenerate('spearman', y)]
    if not kx or not ky:
        return
    X, Y = X[kx], Y[ky]
    with ctx.guard('law|spearman==corr-of-rank_transform', case):
        rx, ry = rr.RDMs(X.copy()), rr.RDMs(Y.copy())
        a = np.asarray(rr.compare(rx, ry, method='spearman'))
        b = np.asarray(rr.compare(rr.rank_transform(rx), rr.rank_transform(ry), method='corr'))
        ctx.case(case, n=a.size)
        ctx.dev('law/spearman', maxreldev(a, b))
        if not allclose(a, b, TOL):
            ctx.fail('law|spearman==corr-of-rank_transform|differs', case,
                     'spearman %s vs corr of rank_transform %s' % (a.tolist()[:3], b.tolist()[:3]))


# ------------------------------------------------------------------ pooled RDMs and noise ceilings
# A rank-based evaluation also has a noise ceiling; it is built from the pooled RDM (mean over RDMs of
# each RDM's own tie-averaged ranks).  Each data RDM may go through its OWN strictly increasing map.
PER_RDM = {
    '0.01x': lambda v: 0.01 * v, '7x': lambda v: 7.0 * v, 'cube': lambda v: v ** 3, 'exp': np.exp,
    '50+1e-4x': lambda v: 50.0 + 1e-4 * v, '2x+1': lambda v: 2.0 * v + 1.0, 'id': lambda v: v + 0.0,
}
PER_RDM_ORDER = list(PER_RDM)
VARIANTS = (['rot%d' % k for k in range(len(PER_RDM_ORDER))] +
            ['lib:rank_transform', 'lib:minmax_transform', 'lib:sqrt_transform'])
QUICK_VARIANTS = ['rot1', 'rot3', 'rot5', 'lib:rank_transform', 'lib:minmax_transform', 'lib:sqrt_transform']
METHOD_CLASS = {'spearman': 'spearman/rho-a', 'rho-a': 'spearman/rho-a', 'kendall': 'kendall/tau-b',
                'tau-b': 'kendall/tau-b', 'tau-a': 'tau-a'}


def _variant_ok(variant, vecs):
    """is the variant an admissible strictly increasing treatment of this stack"""
    if variant == 'lib:sqrt_transform':
        return bool(np.nanmin(vecs) >= 0)
    if variant == 'lib:minmax_transform':   # undefined for constant RDMs and RDMs with missing entries
        return not np.isnan(vecs).any() and all(np.max(r) > np.min(r) for r in vecs)
    return True


def _apply_variant(variant, vecs):
    """returns (RDMs object of the treated stack, None) or (None, reason to exclude)"""
    import rsatoolbox.rdm as rr
    if variant.startswith('lib:'):
        return getattr(rr, variant[4:])(rr.RDMs(vecs.copy())), None
    k = int(variant[3:])
    out = np.array([PER_RDM[PER_RDM_ORDER[(r + k) % len(PER_RDM_ORDER)]](row.copy()) for r, row in enumerate(vecs)])
    if not all(ref.same_order(a, b) for a, b in zip(vecs, out)):
        return None, 'harness map not strictly increasing in floating point on this stack'
    return rr.RDMs(out), None


def _pool_twins():
    from rsatoolbox.util import inference_util, pooling
    return (('inference_util', inference_util.pool_rdm), ('pooling', pooling.pool_rdm))


def run_P(case, ctx, vecs=None, base=None):
    """pooled RDM of a rank-based method.  variant 'base': both pool_rdm twins against the mean of the
    per-RDM tie-averaged ranks; other variants: the pool of the stack whose RDMs went through
    (different) strictly increasing maps must equal the pool of the untreated stack"""
    import rsatoolbox.rdm as rr
    method, variant = case['method'], case['variant']
    if vecs is None:
        vecs = _stack_from_src(case['src'], ctx.seed)
    vecs = np.array(vecs, dtype=float)
    if variant != 'base' and not _variant_ok(variant, vecs):
        ctx.exclude('per-RDM map not admissible for this stack (negative / constant / missing entries)')
        return base
    want = ref.pooled_ranks(vecs.tolist())
    cls = METHOD_CLASS[method]
    nan = ',nan' if np.isnan(vecs).any() else ''
    with ctx.guard('pool_rdm|method=%s%s' % (cls, nan), case):
        if variant == 'base':
            data = rr.RDMs(vecs.copy())
        else:
            data, why = _apply_variant(variant, vecs)
            if data is None:
                ctx.exclude(why)
                return base
        if base is None and variant != 'base':
            base = {tw: np.asarray(f(rr.RDMs(vecs.copy()), method=method).get_vectors(), dtype=float)
                    for tw, f in _pool_twins()}
        out = {}
        for tw, f in _pool_twins():
            _register(ctx, dict(case, twin=tw))
            got = np.asarray(f(data, method=method).get_vectors(), dtype=float)
            out[tw] = got
            if got.shape != (1, vecs.shape[1]):
                ctx.fail('pool_rdm|%s|shape' % tw, case, 'shape %r' % (got.shape,))
                continue
            ctx.outcomes.add(hash((np.round(np.nan_to_num(got, nan=-7.0), 6) + 0.0).tobytes()))
            if variant == 'base':
                ctx.dev('pool/' + tw, maxreldev(got[0], want))
                if not allclose(got[0], want, TOL):
                    ctx.fail('pool_rdm|%s,method=%s|differs-from-mean-of-per-RDM-ranks' % (tw, cls), case,
                             '%s pool of %s: got %s, mean of the per-RDM ranks %s' % (
                                 method, vecs.tolist(), got[0].tolist(), want))
            else:
                ctx.dev('pool-inv/' + tw, maxreldev(got, base[tw]))
                if not allclose(got, base[tw], TOL):
                    ctx.fail('pool_rdm|%s,method=%s|changed-under-per-RDM-increasing-maps' % (tw, cls), case,
                             '%s pool of %s is %s; after %s (stack %s) it is %s' % (
                                 method, vecs.tolist(), base[tw].tolist(), variant,
                                 np.asarray(data.get_vectors()).tolist(), got.tolist()))
        if variant == 'base':
            base = out
    return base


def _ceilings(data, model, method, conds):
    """the three library noise ceilings of one data stack + the model evaluations"""
    from rsatoolbox.inference import boot_noise_ceiling, cv_noise_ceiling, eval_fixed
    from rsatoolbox.inference.crossvalsets import sets_leave_one_out_rdm
    out = {}
    out['boot_noise_ceiling'] = np.array(boot_noise_ceiling(data, method=method), dtype=float)
    _, test_set, ceil_set = sets_leave_one_out_rdm(data)
    idx = np.array(conds)
    test_sub = [(t[0].subset_pattern('index', idx), idx) for t in test_set]
    out['cv_noise_ceiling'] = np.array(cv_noise_ceiling(data, ceil_set, test_sub, method=method), dtype=float)
    res = eval_fixed(model, data, method=method)
    out['eval_fixed'] = np.array(res.noise_ceiling, dtype=float).ravel()
    out['evaluations'] = np.array(res.evaluations, dtype=float).ravel()
    return out


def run_N(case, ctx, base=None):
    """noise ceilings (boot_noise_ceiling, cv_noise_ceiling on a pattern subset, eval_fixed) of a
    rank-based method.  variant 'base': against the independent computation from the mean of per-RDM
    ranks; other variants: unchanged when every data RDM goes through its own increasing map"""
    import rsatoolbox.rdm as rr
    from rsatoolbox.model import ModelFixed
    method, variant = case['method'], case['variant']
    _, n_cond, fill, vk, n_vec, _ = case['src']
    vecs = np.array(_stack_from_src(case['src'], ctx.seed), dtype=float)
    if variant != 'base' and not _variant_ok(variant, vecs):
        ctx.exclude('per-RDM map not admissible for this stack (negative / constant / missing entries)')
        return base
    conds = list(range(n_cond - 1))

    def sim(a, b):
        if mref.is_degenerate(method, a) or mref.is_degenerate(method, b):
            return None
        return mref.similarity(method, a, b)
    want = {'boot_noise_ceiling': ref.noise_ceiling(vecs.tolist(), sim)}
    want['eval_fixed'] = want['boot_noise_ceiling']
    want['cv_noise_ceiling'] = ref.noise_ceiling(vecs.tolist(), sim, ref.pair_positions(n_cond, conds))
    if any(w is None for w in want.values()):
        ctx.exclude('noise ceiling undefined (constant pooled or data RDM)')
        return base
    mvec = generic_stack(ctx.seed, n_cond, fill, 'signed', 1, tag='M')
    with ctx.guard('noise_ceiling|rank-based', case):
        model = ModelFixed('m', rr.RDMs(mvec))
        if base is None and variant != 'base':
            base = _ceilings(rr.RDMs(vecs.copy()), model, method, conds)
        if variant == 'base':
            data = rr.RDMs(vecs.copy())
        else:
            data, why = _apply_variant(variant, vecs)
            if data is None:
                ctx.exclude(why)
                return base
        got = _ceilings(data, model, method, conds)
        for name in ('boot_noise_ceiling', 'cv_noise_ceiling', 'eval_fixed'):
            ctx.case(dict(case, routine=name))
            ctx.outcome(np.round(got[name], 9).tolist())
            if got[name].shape != (2,):
                ctx.fail('noise_ceiling|%s|shape' % name, case, 'shape %r' % (got[name].shape,))
                continue
            if variant == 'base':
                ctx.dev('nc/' + name, maxreldev(got[name], want[name]))
                if not allclose(got[name], want[name], TOL):
                    ctx.fail('noise_ceiling|%s|differs-from-definition' % name, case,
                             '%s (lower, upper) of %s: got %s, from the mean of per-RDM ranks %s' % (
                                 method, vecs.tolist(), got[name].tolist(), list(want[name])))
            else:
                ctx.dev('nc-inv/' + name, maxreldev(got[name], base[name]))
                if not allclose(got[name], base[name], TOL):
                    ctx.fail('noise_ceiling|%s|changed-under-per-RDM-increasing-maps' % name, case,
                             '%s (lower, upper) of %s is %s; after %s it is %s' % (
                                 method, vecs.tolist(), base[name].tolist(), variant, got[name].tolist()))
        if variant != 'base':
            ctx.case(dict(case, routine='evaluations'))
            if not allclose(got['evaluations'], base['evaluations'], TOL):
                ctx.fail('eval_fixed|evaluations|changed-under-per-RDM-increasing-maps', case,
                         '%s evaluations %s; after %s of the data: %s' % (
                             method, base['evaluations'].tolist(), variant, got['evaluations'].tolist()))
        else:
            base = got
    return base


def _iter_P(shard):
    """yields (src, variants) for the stacks of one P shard"""
    if shard['t'] == 'alpha':
        V = alphabet_vectors(shard['alpha'])
        n, k = len(V), shard['k']
        cnt = 0
        for i in range(shard['rows'][0], shard['rows'][1]):
            for rest in itertools.product(range(n), repeat=k - 1):
                cnt += 1
                # one treatment per stack, rotating through all of them
                yield ['alpha', shard['alpha'], [i] + list(rest), None], [VARIANTS[(cnt + i) % len(VARIANTS)]]
    elif shard['t'] == 'fill':
        n_cond, n_vec = shard['n_cond'], shard['n_vec']
        m = n_cond * (n_cond - 1) // 2
        for fill in range(shard['fills']):
            for vk in ('signed', 'ties', 'nonneg'):
                yield ['fill', n_cond, fill, vk, n_vec, None], VARIANTS
                if n_cond == 4 and n_vec == 3:
                    # every single condition pair missing in all RDMs
                    for pos in range(m):
                        yield (['fill', n_cond, fill, vk, n_vec, [[r, pos] for r in range(n_vec)]],
                               ['rot%d' % (pos % 7), 'lib:rank_transform', 'lib:sqrt_transform'])
    else:
        raise ValueError(shard)


# ------------------------------------------------------------------ sequences on ONE pair of objects
# Every ordered pair (first call, second call) from the measure and transform lists on the SAME two
# objects: an earlier call must not change what a later one returns.
SEQ_CMP = [('cmp', m, 'none') for m in RANK_BASED + ['corr', 'cosine', 'corr_cov', 'cosine_cov']] + \
          [('cmp', 'corr_cov', 'full'), ('cmp', 'cosine_cov', 'full')]
SEQ_TF = [('tf', 'rank', None), ('tf', 'sqrt', None), ('tf', 'positive', None), ('tf', 'minmax', None),
          ('tf', 'geodesic', None), ('tf', 'geotop', [0.2, 0.8]), ('tf', 'custom', 'square')]
SEQ_OPS = [list(o) for o in SEQ_CMP + SEQ_TF]
# one map of the invariance class of each measure, applied by the harness to the privately kept values
SEQ_MAP = {'cube': lambda v: v ** 3, '2.5x+7': lambda v: 2.5 * v + 7.0, '3.7x': lambda v: 3.7 * v}


def _seq_map_for(method):
    return 'cube' if method in RANK_BASED else ('2.5x+7' if method in CORR_TYPE else '3.7x')


def _seq_name(op):
    if op[0] == 'cmp':
        return 'compare:%s%s' % (op[1], '' if op[2] == 'none' else ',sigma_k=' + op[2])
    return LIBNAME[op[1]]


def _seq_call(op, a, b, n_cond, seed):
    """one library call on the pair (a, b); returns a flat float array"""
    import rsatoolbox.rdm as rr
    if op[0] == 'cmp':
        kw = {}
        if op[1] in ('corr_cov', 'cosine_cov'):
            kw['sigma_k'] = _sigma(op[2], n_cond, seed)
        return np.asarray(rr.compare(a, b, method=op[1], **kw), dtype=float).ravel()
    out = []
    for obj in (a, b):
        if op[1] == 'rank':
            r = rr.rank_transform(obj)
        elif op[1] == 'sqrt':
            r = rr.sqrt_transform(obj)
        elif op[1] == 'positive':
            r = rr.positive_transform(obj)
        elif op[1] == 'minmax':
            r = rr.minmax_transform(obj)
        elif op[1] == 'geodesic':
            r = rr.geodesic_transform(obj)
        elif op[1] == 'geotop':
            r = rr.geotopological_transform(obj, op[2][0], op[2][1])
        else:
            r = rr.transform(obj, CUSTOM[op[2]])
        out.append(np.asarray(r.dissimilarities, dtype=float).ravel())
    return np.concatenate(out)


def _seq_objects(X, Y, rep):
    """fresh objects from private values; returns (a, b, arrays whose bits are watched)"""
    import rsatoolbox.rdm as rr
    x0, y0 = X.copy(), Y.copy()
    if rep == 'array':
        return x0, y0, [x0, y0]
    a = rr.RDMs(x0, dissimilarity_measure='Euclidean')
    b = rr.RDMs(y0, dissimilarity_measure='Euclidean')
    return a, b, [x0, y0, a.dissimilarities, b.dissimilarities]


def run_S(case, ctx, cache=None):
    """case: {'kind':'S','src':['fill',n_cond,fill,kind],'rep':'rdms'|'array','first':op,'second':op}.
    first(a, b) then second(a, b) on the same objects: (1) inputs bit-identical after each call,
    (2) second result == second on fresh objects, (3) == second on fresh objects whose first argument
    went through a map of the second measure's invariance class (true values, harness-mapped)"""
    import rsatoolbox.rdm as rr
    first, second, rep = case['first'], case['second'], case['rep']
    X, Y = _inv_stacks(case['src'], ctx.seed)
    X, Y = X[:2], Y[:2]
    n_cond = ref.n_from_len(X.shape[1])
    cache = cache if cache is not None else {}
    tol = TOL_CG if (second[0] == 'cmp' and second[1] in ('corr_cov', 'cosine_cov')) else TOL
    n1, n2 = _seq_name(first), _seq_name(second)
    cls2 = 'compare' if second[0] == 'cmp' else 'transform'
    ctx.case(case)
    with ctx.guard('sequence|after=%s,then=%s' % (n1, cls2), case):
        key = ('fresh', tuple(map(str, second)), rep)
        if key not in cache:
            a, b, _ = _seq_objects(X, Y, rep)
            cache[key] = _seq_call(second, a, b, n_cond, ctx.seed)
            if second[0] == 'cmp':
                f = SEQ_MAP[_seq_map_for(second[1])]
                a, b, _ = _seq_objects(f(X.copy()), Y, rep)
                cache[('inv',) + key[1:]] = _seq_call(second, a, b, n_cond, ctx.seed)
        a, b, watched = _seq_objects(X, Y, rep)
        for op, nm in ((first, n1), (second, n2)):
            before = [np.array(w, copy=True) for w in watched]     # attribute a change to the call that made it
            got = _seq_call(op, a, b, n_cond, ctx.seed)
            for w, t in zip(watched, before):
                if not np.array_equal(w, t, equal_nan=True):
                    ctx.fail('sequence|call=%s,%s|input-modified' % (nm, rep), case,
                             'the call %s changed its input from %s to %s' % (nm, t.tolist(), np.asarray(w).tolist()))
                    break
        ctx.outcome(np.round(np.nan_to_num(got, nan=-7.0, posinf=-8.0), 7).tolist())
        if not allclose(got, cache[key], tol):
            ctx.fail('sequence|after=%s,then=%s|result-differs-from-fresh-objects' % (n1, cls2), case,
                     '%s after %s on the same objects: %s; on fresh objects: %s' % (
                         n2, n1, got.tolist(), cache[key].tolist()))
        if second[0] == 'cmp':
            want = cache[('inv',) + key[1:]]
            if not allclose(got, want, tol):
                ctx.fail('sequence|after=%s,then=%s|not-invariant-relative-to-true-values' % (n1, cls2), case,
                         '%s after %s: %s; %s of the true values with the first argument mapped by %s: %s' % (
                             n2, n1, got.tolist(), n2, _seq_map_for(second[1]), want.tolist()))


# ------------------------------------------------------------------ shards
def shards(tier, seed):
    th = tier == 'thorough'
    out = []
    # ---- T: Tier-A
    out.append({'kind': 'T', 't': 'single', 'alpha': 'm1012^3', 'rows': [0, 64]})
    for a in range(0, 64, 4):
        out.append({'kind': 'T', 't': 'pairs', 'alpha': 'm1012^3', 'rows': [a, a + 4], 'partners': 'all'})
    for a in range(0, 729, 81):
        out.append({'kind': 'T', 't': 'single', 'alpha': '012^6', 'rows': [a, a + 81]})
    step = 81 if not th else 27
    for a in range(0, 729, step):
        out.append({'kind': 'T', 't': 'pairs', 'alpha': '012^6', 'rows': [a, a + step],
                    'partners': 16 if th else 2})
    if th:
        for a in range(0, 4096, 256):
            out.append({'kind': 'T', 't': 'single', 'alpha': 'm1012^6', 'rows': [a, a + 256]})
    # ---- T: NaN masks for rank_transform
    out.append({'kind': 'T', 't': 'nan-single', 'alpha': 'm1012^3', 'rows': [0, 64], 'maxw': 3})
    for a in range(0, 64, 4 if not th else 1):
        out.append({'kind': 'T', 't': 'nan-pairs', 'alpha': 'm1012^3', 'rows': [a, a + (4 if not th else 1)],
                    'maxw': 3, 'partners': 12 if th else 1})
    step = 81 if not th else 9
    for a in range(0, 729, step):
        out.append({'kind': 'T', 't': 'nan-single', 'alpha': '012^6', 'rows': [a, a + step],
                    'maxw': 3 if th else 1})
    # ---- T: generic fills
    for n_cond in (3, 4, 5, 6):
        for fill in range(8 if th else 2):
            out.append({'kind': 'T', 't': 'fill', 'n_cond': n_cond, 'fill': fill,
                        'stacks': [1, 2, 3] if th else [1, 2]})
    # ---- I: invariance.  One shard = (method, sigma, stacks) x a chunk of maps; sides 'all' = first,
    # second and both arguments mapped, 'rot' = one of the three per map, rotating over the maps
    def inv(method, sigma, src, maps=None, chunk=99, sides='all'):
        nonneg = min(ALPHA[src[1]][0]) >= 0
        ms = [mp for mp in maps_for(method)
              if (MAPS[mp][1] == 'any' or nonneg) and (maps is None or mp in maps)]
        for a in range(0, len(ms), chunk):
            out.append({'kind': 'I', 'method': method, 'sigma': sigma, 'src': src, 'maps': ms[a:a + chunk],
                        'sides': sides})
        if method in DEGEN_METHODS and src[0] == 'alpha' and (th or src[1] == '012^3'):
            # the whole alphabet block with its all-zero / constant vectors left inside the stacks
            out.append({'kind': 'I', 'method': method, 'sigma': sigma, 'src': src, 'degen': True,
                        'maps': [mp for mp in ms if mp in degen_maps_for(method)],
                        'sides': 'all' if th or src[1] == '012^3' else 'rot'})

    meth_sig = ([(m, 'none') for m in RANK_BASED + ['corr', 'cosine']] +
                [(m, s) for m in ('corr_cov', 'cosine_cov') for s in ('none', 'vector', 'full')])
    for method, sigma in meth_sig:
        slow = method in ('kendall', 'tau-b')
        # quick tier: 'kendall' and 'tau-b' are two names of one measure (Kendall's tau-b): they share
        # the maps (every second one each)
        half = None
        if slow and not th:
            half = MAP_ORDER[0::2] if method == 'kendall' else MAP_ORDER[1::2]
        inv(method, sigma, ['alpha', '012^3', [0, 27]], maps=half,
            chunk=4 if slow else (8 if method == 'tau-a' else 99))
        if th or not slow:
            for a in (0, 32):
                inv(method, sigma, ['alpha', 'm1012^3', [a, a + 32]],
                    chunk=2 if slow else (6 if method == 'tau-a' else 8),
                    sides='all' if th or method != 'tau-a' else 'rot')
        else:
            # ... and on the negative-valued alphabet take every second vector as first argument
            # (against all 64) and map one side per map
            inv(method, sigma, ['alpharows', 'm1012^3', list(range(0, 64, 2))], maps=half, chunk=3, sides='rot')
        if th:
            rows = [27 * i + (i * 7) % 27 for i in range(27)]
            nrow = 3 if slow else 9
            for a in range(0, 27, nrow):
                inv(method, sigma, ['alpharows', '012^6', rows[a:a + nrow]],
                    chunk=6 if slow or method == 'tau-a' else 99)
    for method, sigma in meth_sig:
        slow = method in ('kendall', 'tau-b')
        for n_cond in ((4, 5, 6) if th else (4, 5)):
            step = (2 if slow else 5) if th else (1 if slow else 2)
            for f0 in range(0, 20 if th else 4, step):
                parts = ['plain', 'nan'] if slow and n_cond == 4 else ['both']
                for part in parts:
                    out.append({'kind': 'Ifill', 'method': method, 'sigma': sigma, 'n_cond': n_cond,
                                'fills': [f0, f0 + step], 'sides': 'all' if th or not slow else 'rot',
                                'part': part})
    # ---- T: integer ranges 1..K for every K (exact image of the extremes under minmax, geodesic)
    kmax = 129 if th else 65
    for a in range(2, kmax, 8 if th else 7):
        out.append({'kind': 'T', 't': 'range', 'K': [a, min(kmax, a + (8 if th else 7))]})
    if th:
        for a in range(2, 65, 2):
            out.append({'kind': 'T', 't': 'range', 'K': [a, a + 2], 'full': True})
    # ---- P: pooled RDMs of the rank-based methods (both pool_rdm twins), N: noise ceilings
    for alpha, k, step in ([('012^3', 2, 9), ('m1012^3', 2, 8), ('012^3', 3, 1)] if th else [('012^3', 2, 9)]):
        for a in range(0, len(alphabet_vectors(alpha)), step):
            out.append({'kind': 'P', 't': 'alpha', 'alpha': alpha, 'k': k, 'rows': [a, a + step]})
    for n_cond in (4, 5):
        for n_vec in (2, 3, 4):
            out.append({'kind': 'P', 't': 'fill', 'n_cond': n_cond, 'n_vec': n_vec, 'fills': 6 if th else 2})
            if not th and n_cond == 5 and n_vec != 3:
                continue
            for method in RANK_BASED:
                for fill in range(4 if th else 1):
                    out.append({'kind': 'N', 'method': method, 'n_cond': n_cond, 'n_vec': n_vec, 'fill': fill,
                                'variants': VARIANTS if th else QUICK_VARIANTS})
    # ---- C: corr(_cov) == cosine(_cov) of the mean-centred RDMs, complete and with common missing entries
    for sigma in ('none', 'vector', 'full'):
        out.append({'kind': 'Cset', 'sigma': sigma, 'fills': 4 if th else 2})
    # ---- S: every ordered pair of calls on one pair of objects
    for n_cond in (4, 5):
        for fill in range(3 if th else 1):
            for vk in ('signed', 'ties', 'nonneg'):
                for rep in ('rdms', 'array'):
                    out.append({'kind': 'Sset', 'src': ['fill', n_cond, fill, vk], 'rep': rep})
    # ---- L: spearman == corr of rank-transformed
    out.append({'kind': 'L', 'src': ['alpha', '012^3', [0, 27]]})
    out.append({'kind': 'L', 'src': ['alpha', 'm1012^3', [0, 64]]})
    for a in range(0, 729, 243):
        out.append({'kind': 'L', 'src': ['alpha', '012^6', [a, a + 243]]})
    for n_cond in (4, 5):
        for vk in ('signed', 'ties', 'nonneg'):
            out.append({'kind': 'L', 'src': ['fill', n_cond, 0, vk]})
    return out


def _sides(mode, mp, shift=0):
    if mode == 'all':
        return ('x', 'y', 'xy')
    return (('x', 'xy', 'y')[(MAP_ORDER.index(mp) + shift) % 3],)


def run_shard(shard, ctx):
    kind = shard['kind']
    if kind == 'T':
        n = 0
        for src, ops in _iter_T(shard):
            vecs = _stack_from_src(src, ctx.seed)
            state = {}
            for op, param in ops:
                n += 1
                run_T({'kind': 'T', 'src': src, 'op': op, 'param': param, 'dclass': n % 4}, ctx, vecs, state)
            geotop_consistency(ctx, src, state)
    elif kind == 'I':
        base = None
        for mp in shard['maps']:
            for side in _sides(shard.get('sides', 'all'), mp):
                case = {'kind': 'I', 'method': shard['method'], 'sigma': shard['sigma'],
                        'src': shard['src'], 'map': mp, 'side': side}
                if shard.get('degen'):
                    case['degen'] = True
                base = run_I(case, ctx, base)
                if base is None:
                    return
    elif kind == 'Ifill':
        method = shard['method']
        part = shard.get('part', 'both')
        thorough = ctx.tier == 'thorough'
        for fill in range(shard['fills'][0], shard['fills'][1]):
            for vk in (('signed', 'ties', 'nonneg') if part != 'nan' else ()):
                src = ['fill', shard['n_cond'], fill, vk]
                base = None
                for mp in maps_for(method):
                    if MAPS[mp][1] == 'nonneg' and vk != 'nonneg':
                        continue
                    for side in _sides(shard.get('sides', 'all'), mp, fill):
                        base = run_I({'kind': 'I', 'method': method, 'sigma': shard['sigma'],
                                      'src': src, 'map': mp, 'side': side}, ctx, base)
                        if base is None:
                            break
                    if base is None:
                        break
            if method not in RANK_BASED and shard['n_cond'] in (4, 5) and (thorough or fill % 2 == 0):
                # correlation- / cosine-type measures on stacks with common missing entries: every map of
                # the class (quick: one side per map, rotating; thorough: every side)
                for vk in (('signed', 'ties', 'nonneg') if thorough else ('signed', 'ties')):
                    for k, pos in enumerate(nan_positions(shard['n_cond'], full=thorough)):
                        src = ['fill', shard['n_cond'], fill, vk, pos]
                        base = None
                        for mp in nan_maps_for(method):
                            for side in (('x', 'y', 'xy') if thorough else _sides('rot', mp, k)):
                                base = run_I({'kind': 'I', 'method': method, 'sigma': shard['sigma'],
                                              'src': src, 'map': mp, 'side': side}, ctx, base)
                                if base is None:
                                    break
                            if base is None:
                                break
            if method in DEGEN_METHODS:
                # an all-zero RDM inside the first, the second or both stacks
                for kv, vk in enumerate(('signed', 'ties', 'nonneg')):
                    for k, where in enumerate(('x', 'y', 'xy')):
                        if not thorough and (fill + kv) % 3 != k:
                            continue    # quick: one placement per (fill, value kind), rotating
                        src = ['fill', shard['n_cond'], fill, vk, None, where]
                        base = None
                        for mp in degen_maps_for(method):
                            if MAPS[mp][1] == 'nonneg' and vk != 'nonneg':
                                continue
                            for side in (('x', 'y', 'xy') if thorough else _sides('rot', mp, k)):
                                base = run_I({'kind': 'I', 'method': method, 'sigma': shard['sigma'], 'src': src,
                                              'map': mp, 'side': side, 'degen': True}, ctx, base)
                                if base is None:
                                    break
                            if base is None:
                                break
            if method in RANK_BASED and shard['n_cond'] == 4 and part != 'plain':
                # every single condition pair missing in all RDMs of both stacks
                for vk in ('ties', 'nonneg'):
                    for p in range(6):
                        src = ['fill', 4, fill, vk, [p]]
                        base = None
                        for mp in NAN_MAPS:
                            if MAPS[mp][1] == 'nonneg' and vk != 'nonneg':
                                continue
                            for side in _sides('rot', mp, p):
                                base = run_I({'kind': 'I', 'method': method, 'sigma': shard['sigma'],
                                              'src': src, 'map': mp, 'side': side}, ctx, base)
                            if base is None:
                                break
    elif kind == 'L':
        run_L(shard, ctx)
    elif kind == 'Sset':
        ops = SEQ_OPS if shard['rep'] == 'rdms' else [o for o in SEQ_OPS if o[0] == 'cmp']
        cache = {}
        for first in ops:
            for second in ops:
                run_S({'kind': 'S', 'src': shard['src'], 'rep': shard['rep'], 'first': first, 'second': second},
                      ctx, cache)
    elif kind == 'Cset':
        for alpha in ('012^3', 'm1012^3'):
            run_C({'kind': 'C', 'src': ['alpha', alpha, [0, len(alphabet_vectors(alpha))]], 'sigma': shard['sigma']}, ctx)
        for n_cond in (4, 5):
            for fill in range(shard['fills']):
                for vk in ('signed', 'ties', 'nonneg'):
                    for pos in [None] + nan_positions(n_cond, full=True):
                        run_C({'kind': 'C', 'src': ['fill', n_cond, fill, vk, pos], 'sigma': shard['sigma']}, ctx)
    elif kind == 'P':
        for src, variants in _iter_P(shard):
            vecs = _stack_from_src(src, ctx.seed)
            for method in RANK_BASED:
                base = None
                for variant in ['base'] + list(variants):
                    base = run_P({'kind': 'P', 'src': src, 'method': method, 'variant': variant}, ctx, vecs, base)
                    if base is None:
                        break
    elif kind == 'N':
        for vk in ('signed', 'ties', 'nonneg'):
            src = ['fill', shard['n_cond'], shard['fill'], vk, shard['n_vec'], None]
            base = None
            for variant in ['base'] + list(shard.get('variants', VARIANTS)):
                base = run_N({'kind': 'N', 'src': src, 'method': shard['method'], 'variant': variant}, ctx, base)
                if base is None:
                    break
    else:
        raise ValueError(kind)


def run_case(case, ctx):
    kind = case['kind']
    if kind == 'T' and 'op' in case:
        run_T(case, ctx)
    elif kind == 'Tgeo':
        run_Tgeo(case, ctx)
    elif kind == 'I' and 'side' in case:
        case = {k: v for k, v in case.items() if k not in ('i', 'j')}
        run_I(case, ctx)
    elif kind == 'L':
        run_L(case, ctx)
    elif kind == 'C':
        run_C(case, ctx)
    elif kind == 'S':
        run_S(case, ctx)
    elif kind == 'P' and 'variant' in case:
        run_P({k: v for k, v in case.items() if k != 'twin'}, ctx)
    elif kind == 'N' and 'variant' in case:
        run_N({k: v for k, v in case.items() if k != 'routine'}, ctx)
    else:
        run_shard(case, ctx)
