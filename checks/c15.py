"""C15 - the unbalanced (compiled) RDM estimator equals its pairwise definition, matches the
balanced estimator where theory says so, and skips missing channels (DESIGN 4/C15)

Bounded exhaustive exploration of calc_rdm_unbalanced / calc_one_similarity:

  lab       every assignment of n <= 5 observations to condition labels (all set partitions) x
            P in {2,3} channels x EVERY NaN mask over the n x P cells with <= 2 missing cells plus
            every whole-channel and whole-observation mask x six methods x both weightings x
            precision {None, SPD} x fold descriptor {none, occurrence index, alternating strings}
            x label namings x data fills; C- and Fortran-ordered, float64 and int64 arrays
  foldpart  every labeling x EVERY assignment of the observations to folds (all set partitions
            of the observations as folds), cross-validated methods
  bal       fold-balanced designs K conditions x M folds x R repetitions in four row orders
            (here the cross-validated methods must coincide with calc_rdm)
  extra     descriptor=None on datasets that ALREADY carry an obs descriptor with a reserved-looking
            name ('index', 'cv_desc', 'conds'): every partition of n <= 4 (thorough 5) observations as its
            pattern of repeated values (ints / strings) and distinct permuted values; the result must
            have one condition per observation labelled 0..n-1, equal the reference / calc_rdm, and
            leave the caller's descriptor alone
  seq       every ordered pair of calls from a menu of 10 (8 calc_rdm_unbalanced configurations: methods x
            weighting x fold / no fold x descriptor None / 'cond', and 2 calc_rdm calls) on ONE Dataset
            object and ONE precision array: the second result must be bit-identical to the same call on a
            fresh Dataset (`depends-on-earlier-call`)
  scale     the labelings (n <= 4) and balanced designs with the measurements multiplied by 1e-5 and 1e4,
            with condition / fold descriptors that are six-digit ints (100000+k) and floats
            1696300000.0+0.5k; judged by the same oracles with tolerances relative to the data scale
  pscale    precision matrices multiplied by 1e-10, 1e-6, 1e6 - full SPD / diagonal / nearly diagonal (off-
            diagonals 1e-3 of the diagonal; these two also unscaled) - with the data scaled inversely (values
            stay O(1)) and not; mahalanobis / crossnobis with and without folds, and balanced designs; judged
            by all oracles with tolerances relative to (data scale)^2 * (precision scale), plus the law
            d(c*P) == c*d(P) for the full computation and h(c*P) == c*h(P) for the single-pair helper
  dtype     measurement dtypes int64 / int32 / uint8 (counts 0..6 and 0..240) / float32 / bool on the designs
            where calc_rdm must coincide - every partition of n <= 5 (repetitions: euclidean, mahalanobis;
            one observation per condition with and without descriptor: + correlation, poisson; balanced
            occurrence folds: crossnobis) and 16 fold-balanced designs (crossnobis, poisson_cv): unbalanced
            == definition on the values the typed array holds == calc_rdm on the same typed array
  list      input forms crossed with the options: the dataset argument as single object / list of 1 / list or
            tuple of 2-3 datasets (every ordered pair of partitions of <= 4 observations into the same K
            conditions: different repetition counts, row orders, label orders, fold codings) x noise as
            None / one shared 2-D matrix / list / tuple / 3-D array of per-dataset matrices x cv_descriptor
            None / given x descriptor None / given x methods x weightings (non-default poisson prior): the
            RDM of every dataset must be the one the single-dataset call with the same options returns, in
            the first dataset's condition order, carrying that dataset's descriptors
  oob_probe the configuration class 'precision + missing channel' is executed in a CHILD process
            only (the compiled kernel reads past a heap buffer there - known finding); everywhere
            else that class is skipped and counted under `not_explored_because_known`

Each executed case is judged by
  (1) mc.ref.c15_ref (pairwise definition): labels in order of first appearance, every value;
  (2) calc_one_similarity for every condition pair (incl. a == b) against the same reference and
      the identity  d(a,b) = h(a,a) + h(b,b) - 2 h(a,b)  with the full computation;
  (3) calc_rdm on the configurations where theory demands equality;
  (4) a channel that is missing everywhere == that channel deleted (precision sub-block);
  (5) Fortran order / int64 input == C order / float64 input;
  (6) after EVERY library call (calc_rdm_unbalanced, calc_one_similarity, calc_rdm) the caller's Dataset
      (measurements incl. identity, dtype, strides; every descriptor dict incl. key order, container and
      element types) and every ndarray argument (precision, fold codes) are bit-identical
      (`modifies-argument:<arg>`).
"""
import json
import math
import os
import subprocess
import sys
import traceback

import numpy as np

from mc import combi
from mc import runner as _runner
from mc.ref import c15_ref as ref
from mc.util import fingerprint, rng_for, spd

PROPERTY = 'C15'
LEVEL = 'exploration'
RULE = ('Every set partition of n<=5 observations into condition labels x P in {2,3} channels x '
        'every NaN mask over the n x P cells with <=2 missing cells + every whole-channel and '
        'whole-observation mask x method configuration (euclidean, correlation, mahalanobis with '
        'precision None / SPD, poisson, crossnobis with precision None / SPD, poisson_cv) x '
        'weighting (number, equal) x fold descriptor (none / occurrence index within the condition '
        'as unsorted ints / alternating strings; every set partition of the observations as folds '
        'for n<=4) x label naming (ascending, descending, strings, all k! for k<=3, descriptor=None) '
        'x data fill (generic floats, integer valued) x dtype (float64, int64) x memory layout (C, F); '
        'fold-balanced designs K in {2,3} x M in {2,3} x R in {1,2} in four row orders with every '
        'single-cell / whole-channel / whole-observation mask; descriptor=None on datasets already carrying '
        'an obs descriptor named index / cv_desc / conds with repeated (every partition) or permuted values.  '
        'One evaluation = one real '
        'calc_rdm_unbalanced (or calc_rdm) call whose every returned label and value was judged; '
        'calc_one_similarity calls (one per condition pair incl. the diagonal) are counted under '
        'counters.helper_calls.  Non-trivial = at least one pair value is defined and finite in the '
        'reference; distinct = distinct case descriptor (generator parameters).')
ASSUMPTIONS = [
    'the estimator is the pairwise definition written out in mc/ref/c15_ref.py: kernel on the channels '
    'valid in both observations, weight = number of those channels; number weighting = sum sim / sum w, '
    'equal weighting = mean of sim / w; d(a,b) = S(a,a) + S(b,b) - 2 S(a,b)',
    'correlation kernel = Pearson r over the shared valid channels times w/2 (so that one complete '
    'observation per condition gives 1 - r); undefined (excluded, counted) for < 2 valid channels or a '
    'vector that is constant on them',
    'a fold descriptor, when given, excludes the observation pairs that share a fold value for every '
    'method (the kernel documents this for cv_desc); crossnobis / poisson_cv without a fold descriptor use '
    'the observation index (documented warning), i.e. only the pair of an observation with itself is excluded',
    'equality with calc_rdm is demanded only where the statement lists it: complete data and one '
    'observation per condition (non-cross-validated methods), euclidean / mahalanobis for any repetition '
    'counts, crossnobis / poisson_cv with an explicit fold descriptor on fold-balanced designs (every '
    'condition has the same number of observations in every fold; exactly one for poisson_cv)',
    'the precision matrix is symmetric positive definite',
    'a library call owns none of its arguments: Dataset, precision and fold-code arrays must be bit-identical '
    'afterwards, and a result may not depend on earlier calls on the same objects',
    'real values are represented by fixed fills derived from VERIF_SEED (generic floats >= 0.1, signed '
    'normals, integer values); the structure (labelings, masks, folds, orders) never depends on the seed',
    'the configuration class precision + missing channel (mahalanobis / crossnobis) is known to read past '
    'a heap buffer in the compiled kernel: it is executed in a child process only (shard oob_probe) and '
    'otherwise skipped and counted (set C15_EXPLORE_OOB=1 to explore it in-process once the kernel is repaired)',
]
TOL = 1e-9
TOL_INV = 1e-12
TOL_F32 = 1e-5
TOLERANCES = {'value vs reference / calc_rdm': TOL, 'dtype / layout invariance': TOL_INV,
              'helper identity': 1e-8,
              'rule': '|a-b| <= tol * max(unit, |a|, |b|); unit = c^2 for data multiplied by c (euclidean, '
                      'mahalanobis, crossnobis), 1 for correlation, min(1, c^2) for poisson kernels; c = 1 '
                      'everywhere outside the scale families; times the precision scale for mahalanobis / crossnobis '
                      'with a precision matrix',
              'poisson vs calc_rdm': 'additionally 64 ulp of the largest term |u log u| of calc_rdm\'s formula '
                                     '(its rounding error does not shrink with the dissimilarity)',
              'float32 vs calc_rdm': '%g of max(1, max x^2): calc_rdm works in single precision there' % TOL_F32,
              'arguments / sequences': 'bit-identical'}
BOUNDS = {
    'quick': {'n_obs': '1..5, every set partition (75)', 'n_channel': [2, 3],
              'nan_masks': 'every subset of <=2 cells + every whole channel + every whole observation',
              'method_configurations': '16 without fold descriptor, 16 with occurrence folds (6 of them on '
                                       'complete data only), 6 with alternating folds',
              'fold_partitions': 'n<=4: every labeling x every fold partition, masks of <=1 cell + whole',
              'balanced': 'K,M in {2,3}, R in {1,2}; 4 row orders; masks: none, every cell, whole channel, '
                          'whole observation (+ every pair of cells for <=6 rows)',
              'existing_descriptors': "descriptor=None with an existing 'index' / 'cv_desc' / 'conds' obs descriptor: "
                                      'every partition of n in 2..4 as its value pattern (ints, strings), reversed and '
                                      'rotated distinct values; 16 method configurations + crossnobis with folds; '
                                      "complete data and two single-cell masks for 'index'",
              'sequences': 'n in 2..5, every partition, occurrence folds, P=3: every ordered pair of a 10-call menu '
                           '(complete data; one NaN cell for n<=4, without the two precision calls)',
              'scales': 'n in 1..4, every partition, P=3: data x 1e-5 / x 1e4, labels and folds 100000+k and '
                        '1696300000.0+0.5k (alone and with x 1e4); 5 masks; all method configurations; 5 balanced designs',
              'precision_scales': 'n in 1..4, every partition, P=3; forms full / diagonal / nearly diagonal x scales '
                                  '1e-10, 1e-6, 1e6 x data scaled inversely or not; mahalanobis / crossnobis, with and '
                                  'without folds, both weightings; 4 balanced designs against calc_rdm',
              'dtypes': 'int64, int32, uint8, uint8 up to 240, float32, bool x every partition of n in 2..5 (P=3) + 8 '
                        'balanced designs in 2 row orders; integer-valued fills with non-integer condition means',
              'input_forms': 'K in {2,3} conditions, member datasets = every partition of K..4 observations into K '
                             'conditions: every single dataset (as object, list of 1, tuple), every ordered pair, one '
                             'triple per partition; 6 (container, noise form) combinations x cv_descriptor x '
                             'descriptor (None when n_obs agree) x both weightings; all 6 methods on every 4th '
                             'structure, 2 rotating methods elsewhere',
              'fills': 'generic float fill + integer fill (complete data)',
              'layout/dtype variants': 'F order on every third case (rotating through configurations and '
                                       'masks), int64 C/F + F on every integer-fill case'},
    'thorough': {'n_obs': '1..6, every set partition (278); n=6: masks of <=2 cells (P=2) / <=1 cell (P=3) + whole',
                 'n_channel': '2, 3 (+4 for n<=4)',
                 'fold_partitions': 'n<=4 with all masks, n=5 with <=1 cell + whole',
                 'balanced': 'K,M in {2,3,4} (R=1), {2,3} (R=2); pairs of cells for <=9 rows',
                 'input_forms': 'member datasets with up to 5 observations',
                 'sequences': 'n in 2..6 with and without a NaN cell', 'scales': 'n in 1..5, P in {2,3}, 6 combinations',
                 'fills': '3 float fills + integer fill; second poisson prior',
                 'layout/dtype variants': 'F order on every case of the labeling and balanced blocks'},
}
DEADLINE = {'quick': 600, 'thorough': 5400}

CV_METHODS = ref.CV_METHODS
EXPLORE_OOB = os.environ.get('C15_EXPLORE_OOB') == '1'
IN_CHILD = os.environ.get('C15_CHILD') == '1'
KNOWN_SKIP = 'not_explored_because_known'
INT_FOLD_VALUES = [7, 3, 5, 1, 9, 4, 8, 2, 6, 0]      # value order != code order
STR_FOLD_VALUES = ['fq', 'fb', 'fz', 'fa', 'fm', 'fc']
FLT_FOLD_VALUES = [1.2, 1.1, 2.1, 1.3, 2.2, 0.5]      # distinct floats sharing an integer part (session.run codes)
BIG_INT = 100000                                      # six-digit ints 100000+k
BIG_FLT = 1696300000.0                                # time-stamp like floats 1696300000.0 + 0.5*k (close together)
SCALES = (1e-5, 1e4)


# ----------------------------------------------------------------------------- generators
_NAMING_CACHE = {}


def _naming(k, tag):
    if tag == 'big6':        # descending, so that first appearance != sorted order
        return [BIG_INT + (k - 1 - i) for i in range(k)]
    if tag == 'bigf':
        return [BIG_FLT + 0.5 * (k - 1 - i) for i in range(k)]
    if (k, tag) not in _NAMING_CACHE:
        for t, names in combi.namings(k):
            _NAMING_CACHE[(k, t)] = list(names)
    return _NAMING_CACHE[(k, tag)]


def _naming_tags(k):
    return [t for t, _ in combi.namings(k)]


_PART_CACHE = {}


def _partitions(n):
    if n not in _PART_CACHE:
        _PART_CACHE[n] = [list(p) for p in combi.set_partitions(n)]
    return _PART_CACHE[n]


def _structure(case):
    """-> (labels or None (descriptor=None), folds or None, n)"""
    d = case['design']
    if d['type'] == 'lab':
        part = d['part']
        n = len(part)
        if d['naming'] == 'index':
            labels = None
        else:
            names = _naming(max(part) + 1, d['naming'])
            labels = [names[g] for g in part]
        fold = d['fold']
        if fold is None:
            folds = None
        elif fold in ('occ', 'occbig', 'occflt'):
            seen = {}
            folds = []
            for g in part:
                v = INT_FOLD_VALUES[seen.get(g, 0)]
                folds.append(v if fold == 'occ' else (BIG_INT + v if fold == 'occbig' else BIG_FLT + 0.5 * v))
                seen[g] = seen.get(g, 0) + 1
        elif fold == 'alt':
            folds = [STR_FOLD_VALUES[i % 2] for i in range(n)]
        elif fold.startswith('fp'):
            fp = _partitions(n)[int(fold[2:])]
            folds = [INT_FOLD_VALUES[c] for c in fp]
        else:
            raise ValueError(fold)
        return labels, folds, n
    if d['type'] == 'bal':
        K, M, R = d['K'], d['M'], d['R']
        names = _naming(K, d['naming'])
        fvals = {'int': INT_FOLD_VALUES, 'str': STR_FOLD_VALUES, 'flt': FLT_FOLD_VALUES,
                 'big6': [BIG_INT + v for v in INT_FOLD_VALUES],
                 'bigf': [BIG_FLT + 0.5 * v for v in INT_FOLD_VALUES]}[d['foldnames']]
        cells = [(c, f) for f in range(M) for c in range(K) for _ in range(R)]
        n = len(cells)
        order = d['order']
        if order == 'bycond':
            cells = sorted(cells)
        elif order == 'rev':
            cells = cells[::-1]
        elif order == 'mix':
            s = n // 2 + 1
            while math.gcd(s, n) != 1:
                s += 1
            cells = [cells[(i * s) % n] for i in range(n)]
        elif order != 'byfold':
            raise ValueError(order)
        return [names[c] for c, _ in cells], [fvals[f] for _, f in cells], n
    raise ValueError(d['type'])


_DATA_CACHE = {}


def _data(seed, n, n_ch, fill, poisson):
    key = (seed, n, n_ch, fill, bool(poisson))
    hit = _DATA_CACHE.get(key)
    if hit is None:
        g = rng_for(seed, 'c15data', 99 if fill == 'int' else fill, n, n_ch)
        if fill == 'int':
            x = g.integers(0, 7, size=(n, n_ch)).astype(float)
        elif fill % 3 == 0:
            x = np.round(g.uniform(0.1, 4.0, size=(n, n_ch)), 3)
        elif fill % 3 == 1:
            x = np.round(g.normal(0.0, 1.5, size=(n, n_ch)), 3)
            if poisson:
                x = np.abs(x)
        else:
            x = np.round(g.uniform(5.0, 9.0, size=(n, n_ch)), 3)
        if len(_DATA_CACHE) > 512:
            _DATA_CACHE.clear()
        hit = _DATA_CACHE[key] = x.tolist()
    return hit


_PREC_CACHE = {}


def _prec(seed, n_ch, which=0):
    """SPD precision matrix (a fresh copy); `which` > 0: further matrices (one per dataset of a list)"""
    key = (seed, n_ch, which)
    if key not in _PREC_CACHE:
        s = spd(rng_for(seed, 'c15prec', n_ch, *([which] if which else [])), n_ch)
        _PREC_CACHE[key] = np.round((s + s.T) / 2.0, 4)
    return _PREC_CACHE[key].copy()


PSCALES = (1e-10, 1e-6, 1e6)
DTYPES = ('int64', 'int32', 'uint8', 'uint8big', 'float32', 'bool')


def _typed(base, tag, poisson):
    """the measurement array of a dtype-family case from an integer-valued (float32: generic) fill:
    int64 / int32 signed small integers (counts for the poisson methods), uint8 counts 0..6, uint8big
    counts 0..240, bool 0/1, float32 the generic fill rounded to single precision"""
    a = np.array(base, dtype=float)
    if tag == 'float32':
        return a.astype(np.float32)
    if tag in ('int64', 'int32'):
        return (a if poisson else a - 2).astype(tag)
    if tag == 'uint8':
        return a.astype(np.uint8)
    if tag == 'uint8big':
        return (a * 40).astype(np.uint8)
    if tag == 'bool':
        return (a % 2).astype(bool)
    raise ValueError(tag)


def _prec_form(seed, n_ch, form, pscale=1.0):
    """the precision matrix of a case: 'spd' full, 'diag' its diagonal, 'near' nearly diagonal (off-diagonal
    entries 1e-3 of the geometric mean of the two diagonal entries, signs of the full matrix), times pscale"""
    if form == 'none':
        return None
    full = _prec(seed, n_ch)
    if form == 'spd':
        out = full
    elif form == 'diag':
        out = np.diag(np.diag(full))
    elif form == 'near':
        d = np.sqrt(np.diag(full))
        out = 1e-3 * np.sign(full) * np.outer(d, d)
        np.fill_diagonal(out, np.diag(full))
    else:
        raise ValueError(form)
    return out * float(pscale) if pscale != 1.0 else out


_MASK_CACHE = {}


def _masks(n, n_ch, maxw):
    """every subset of <= maxw cells, every whole channel, every whole observation (no duplicates)"""
    key = (n, n_ch, maxw)
    if key not in _MASK_CACHE:
        out = [tuple(m) for m in combi.masks(n * n_ch, maxw)]
        seen = set(out)
        extra = [tuple(o * n_ch + ch for o in range(n)) for ch in range(n_ch)]
        extra += [tuple(o * n_ch + c for c in range(n_ch)) for o in range(n)]
        for m in extra:
            if m not in seen:
                seen.add(m)
                out.append(m)
        _MASK_CACHE[key] = [list(m) for m in out]
    return _MASK_CACHE[key]


def _mask_kind(mask, n, n_ch):
    if not mask:
        return 'none'
    for ch in range(n_ch):
        if sorted(mask) == [o * n_ch + ch for o in range(n)]:
            return 'whole-channel'
    for o in range(n):
        if sorted(mask) == [o * n_ch + c for c in range(n_ch)]:
            return 'whole-observation'
    return 'cells'


def _whole_channel(mask, n, n_ch):
    for ch in range(n_ch):
        if sorted(mask) == [o * n_ch + ch for o in range(n)]:
            return ch
    return None


# ----------------------------------------------------------------------------- classes / signatures
def _cls(case, crossval):
    """configuration class of the signature: separates the known kernel defects from everything else"""
    method = case['method']
    nan = bool(case['mask'])
    if case['weighting'] == 'equal' and not crossval:
        return 'weighting=equal,no-fold'
    if method == 'correlation' and nan:
        return 'method=correlation,missing-channel'
    if case['prec'] != 'none' and nan and method in ('mahalanobis', 'crossnobis'):
        return 'precision,missing-channel'
    return 'method=%s,%s' % (method, 'missing-channel' if nan else 'complete')


def _helper_cls(case):
    method = case['method']
    nan = bool(case['mask'])
    if method == 'correlation' and nan:
        return 'method=correlation,missing-channel'
    if case['prec'] != 'none' and nan and method in ('mahalanobis', 'crossnobis'):
        return 'precision,missing-channel'
    return 'method=%s,%s' % (method, 'missing-channel' if nan else 'complete')


def _oob_class(case):
    return case['prec'] != 'none' and bool(case['mask']) and case['method'] in ('mahalanobis', 'crossnobis')


# ----------------------------------------------------------------------------- scale-relative comparison
def _unit(case):
    """natural magnitude of the dissimilarities for data multiplied by case['scale'] (default 1): the
    euclidean / mahalanobis / crossnobis kernels are quadratic in the data, correlation is invariant,
    the poisson kernel is at most quadratic for small rates.  Tolerances are relative to
    max(unit, |a|, |b|); for unscaled data this is the plain rule of mc.util.close."""
    c = float(case.get('scale') or 1.0)
    if case['method'] == 'correlation':
        return 1.0
    if case['method'] in ('poisson', 'poisson_cv'):
        return min(1.0, c * c)
    if case['method'] in ('mahalanobis', 'crossnobis') and case.get('prec', 'none') != 'none':
        return c * c * float(case.get('pscale') or 1.0)        # linear in the precision
    return c * c


def _close(a, b, tol, unit=1.0):
    a = float(a)
    b = float(b)
    if a != a or b != b:
        return a != a and b != b
    if math.isinf(a) or math.isinf(b):
        return a == b
    return abs(a - b) <= tol * max(unit, abs(a), abs(b))


def _reldev(a, b, unit=1.0):
    a = float(a)
    b = float(b)
    if a != a or b != b or math.isinf(a) or math.isinf(b):
        return 0.0
    return abs(a - b) / max(unit, abs(a), abs(b))


# ----------------------------------------------------------------------------- caller-owned arguments
def _snap(v):
    """exact, cheap snapshot of an argument: dtype, shape, strides and bytes of arrays, key order of
    dicts, container and element types of sequences"""
    t = type(v)
    if t is np.ndarray:
        return ('A', v.dtype.str, v.shape, v.strides, v.tobytes())
    if t is list or t is tuple:
        if not any(isinstance(x, (list, tuple, dict, np.ndarray)) for x in v):
            return (t.__name__, tuple(v), tuple(map(type, v)))      # flat sequence of scalars
        return (t.__name__, tuple(_snap(x) for x in v))
    if isinstance(v, dict):
        return ('D', tuple([(k, _snap(x)) for k, x in v.items()])) if v else ('D',)
    if isinstance(v, np.ndarray):
        return ('A', t.__name__, v.dtype.str, v.shape, v.strides, v.tobytes())
    return (t.__name__, repr(v))


_DS_PARTS = ('measurements', 'descriptors', 'obs_descriptors', 'channel_descriptors', 'shape')


def _snap_ds(ds):
    m = ds.measurements
    return ((id(m), m.dtype.str, m.shape, m.strides, m.tobytes()), _snap(ds.descriptors),
            _snap(ds.obs_descriptors), _snap(ds.channel_descriptors), (ds.n_obs, ds.n_channel))


def _args_unchanged(ctx, op, case, ds, before, arrays=()):
    """the caller's Dataset and ndarray arguments must be bit-identical after a library call;
    arrays: (name, array, snapshot before)"""
    after = _snap_ds(ds)
    if after != before:
        for key, was, now in zip(_DS_PARTS, before, after):
            if was != now:
                ctx.fail('%s|any|modifies-argument:dataset.%s' % (op, key), case,
                         'the caller\'s dataset.%s changed during the call: before %.300r, after %.300r' % (
                             key, was, now))
    for name, arr, snap in arrays:
        if arr is not None and _snap(arr) != snap:
            ctx.fail('%s|any|modifies-argument:%s' % (op, name), case,
                     'ndarray argument %s changed during the call: now %r' % (name, arr.tolist()))


# ----------------------------------------------------------------------------- library calls
def _fail_exc(ctx, sigprefix, case, e):
    tb = sys.exc_info()[2]
    origin, where = _runner.exc_origin(tb)
    ctx.fail('%s|raises:%s%s' % (sigprefix, type(e).__name__, '@oracle' if origin == 'oracle' else ''), case,
             '%s: %s [%s %s]\n%s' % (type(e).__name__, e, origin, where, ''.join(traceback.format_tb(tb)[-4:])))


_PASS = (_runner.HarnessError, KeyboardInterrupt, SystemExit, MemoryError)


def _extra(case):
    """an obs descriptor the dataset already carries when it is handed to the library (design key
    'extra' = [name, kind]): a user column with a 'reserved-looking' name.  kind 'part' = the group
    codes of the design's partition (repeated values unless all groups are singletons), 'rev' /
    'rot' = distinct values that are a permutation of 0..n-1, 'str' = the group codes as strings.
    It never is the condition descriptor: these designs are called with descriptor=None, so every
    observation is its own condition whatever the dataset carries."""
    d = case['design']
    ex = d.get('extra')
    if not ex:
        return None
    name, kind = ex
    part = d['part']
    n = len(part)
    if kind == 'part':
        vals = [int(g) for g in part]
    elif kind == 'str':
        vals = ['s%d' % g for g in part]
    elif kind == 'rev':
        vals = list(range(n - 1, -1, -1))
    elif kind == 'rot':
        vals = [(i + 1) % n for i in range(n)]
    else:
        raise ValueError(kind)
    return name, vals


def _dataset(X, labels, folds, extra=None):
    from rsatoolbox.data import Dataset
    obs = {}
    if extra is not None:
        obs[extra[0]] = np.array(extra[1]) if isinstance(extra[1][0], int) else list(extra[1])
    if labels is not None:
        obs['cond'] = list(labels)
    if folds is not None:
        obs['fold'] = np.array(folds) if isinstance(folds[0], int) else list(folds)
    return Dataset(X, obs_descriptors=obs)


def _lib_full(ctx, case, X, labels, folds, prec, cls, op='calc_rdm_unbalanced'):
    """one real call -> (returned labels, value vector) or None (exception reported)"""
    from rsatoolbox.rdm import calc_rdm, calc_rdm_unbalanced
    prior = case.get('prior') or [1, 0.1]
    try:
        extra = _extra(case)
        ds = _dataset(X, labels, folds, extra)
        desc = 'cond' if labels is not None else None
        cvd = 'fold' if folds is not None else None
        before = _snap_ds(ds)
        nsnap = None if prec is None else _snap(prec)
        if op == 'calc_rdm_unbalanced':
            rd = calc_rdm_unbalanced(ds, method=case['method'], descriptor=desc, noise=prec, cv_descriptor=cvd,
                                     prior_lambda=prior[0], prior_weight=prior[1], weighting=case['weighting'])
            name = 'cond' if labels is not None else 'index'
        else:
            rd = calc_rdm(ds, method=case['method'], descriptor=desc, noise=prec, cv_descriptor=cvd,
                          prior_lambda=prior[0], prior_weight=prior[1])
            name = 'cond'
        _args_unchanged(ctx, op, case, ds, before, [('noise', prec, nsnap)])
        vec = np.asarray(rd.dissimilarities, dtype=float)
        if vec.ndim != 2 or vec.shape[0] != 1:
            ctx.fail('%s|any|shape' % op, case, 'dissimilarities have shape %r' % (vec.shape,))
            return None
        if labels is None and op == 'calc_rdm':
            labs = list(range(X.shape[0]))
        else:
            pd = rd.pattern_descriptors.get(name)
            if pd is None:
                ctx.fail('%s|any|labels-missing' % op, case, 'no pattern descriptor %r: %r' % (
                    name, rd.pattern_descriptors))
                return None
            labs = [ref.plain(v) for v in pd]
        if extra is not None and op == 'calc_rdm_unbalanced':
            # the caller's dataset keeps its descriptor; a pattern descriptor of that name (other than
            # the per-observation 'index' the call defines) must carry the observations' own values
            kept = [ref.plain(v) for v in ds.obs_descriptors[extra[0]]]
            if kept != list(extra[1]):
                ctx.fail('calc_rdm_unbalanced|descriptor=None,existing-obs-descriptor|input-descriptor-changed', case,
                         'obs descriptor %r of the caller\'s dataset was %r, is %r after the call' % (
                             extra[0], extra[1], kept))
            pdx = rd.pattern_descriptors.get(extra[0])
            if extra[0] != 'index' and pdx is not None and [ref.plain(v) for v in pdx] != list(extra[1]):
                ctx.fail('calc_rdm_unbalanced|descriptor=None,existing-obs-descriptor|pattern-descriptor-wrong', case,
                         'one condition per observation, yet pattern descriptor %r is %r for observation values %r' % (
                             extra[0], [ref.plain(v) for v in pdx], extra[1]))
        return labs, vec[0]
    except _PASS:
        raise
    except Exception as e:  # noqa: BLE001
        _fail_exc(ctx, '%s|%s' % (op, cls), case, e)
        return None


def _vec_index(i, j, k):
    if i > j:
        i, j = j, i
    return i * k - i * (i + 1) // 2 + (j - i - 1)


# ----------------------------------------------------------------------------- the oracles
def _judge(ctx, case, got, want, cls):
    """values and labels of one full computation against the reference -> (ok, judged, finite)"""
    labs, vec = got
    order = want['order']
    k = len(order)
    if len(labs) != k or len(vec) != k * (k - 1) // 2:
        ctx.fail('calc_rdm_unbalanced|any|n-cond', case, '%d labels / %d values returned for %d distinct labels %r' % (
            len(labs), len(vec), k, order))
        return False, 0, 0
    ok = True
    pos = [ref.find_label(lab, labs) for lab in order]
    if None in pos or len(set(pos)) != k:
        ctx.fail('calc_rdm_unbalanced|any|labels-wrong', case, 'returned labels %r are not the distinct labels %r' % (
            labs, order))
        return False, 0, 0
    if pos != list(range(k)):
        ctx.fail('calc_rdm_unbalanced|any|labels-not-in-order-of-first-appearance', case,
                 'returned labels %r, first appearance gives %r' % (labs, order))
        ok = False
    nan_self = [i for i, s in enumerate(want['self']) if s is None or s != s]   # no valid / no defined self-product
    unit = _unit(case)
    judged = finite = 0
    for (a, b), w in want['dist'].items():
        g = vec[_vec_index(pos[a], pos[b], k)]
        if w is None:
            ctx.exclude('%s undefined for an observation pair (constant vector / < 2 valid channels)' % case['method'])
            continue
        judged += 1
        if w == w:
            finite += 1
        ctx.dev('full/' + case['method'], _reldev(g, w, unit) if (g == g) == (w == w) else 0.0)
        if not _close(g, w, TOL, unit):
            if g != g and w == w and any(c not in (a, b) for c in nan_self) and cls != 'weighting=equal,no-fold':
                ctx.fail('calc_rdm_unbalanced|condition-without-valid-self-product|nan-poisoning', case,
                         'pair (%r,%r): got NaN, pairwise definition gives %.12g; condition(s) %r have no valid '
                         'self-product, which must make only their own pairs NaN; returned vector %r' % (
                             order[a], order[b], w, [order[c] for c in nan_self], vec.tolist()))
            else:
                ctx.fail('calc_rdm_unbalanced|%s|value-mismatch' % cls, case,
                         'pair (%r,%r): got %.12g, pairwise definition %.12g; returned vector %r' % (
                             order[a], order[b], g, w, vec.tolist()))
            ok = False
    if want['dist']:
        first = next(iter(want['dist'].values()))
        ctx.outcome(None if first is None else ('nan' if first != first else round(first, 6)))
    return ok, judged, finite


def _helper(ctx, case, X, rows, lab_eff, folds, want, prec, crossval, full):
    """calc_one_similarity for every condition pair (a <= b) against the reference; identity with the
    full computation when that one was right (full = returned vector in reference order or None)"""
    from rsatoolbox.data import Dataset
    from rsatoolbox.rdm.calc_unbalanced import calc_one_similarity
    method, weighting = case['method'], case['weighting']
    prior = case.get('prior') or [1, 0.1]
    hcls = _helper_cls(case)
    n = len(rows)
    if folds is None:
        codes = list(range(n))
    else:
        seen = ref.first_appearance(folds)
        codes = [seen.index(f) for f in folds]
    groups = want['groups']
    k = len(groups)
    precl = None if prec is None else prec.tolist()
    unit = _unit(case)
    dss, cvs = [], []
    hval = {}
    noise_h = None if prec is None else prec.copy()        # one caller-owned array for all helper calls
    pscale = float(case.get('pscale') or 1.0)
    noise_1 = None                                          # the unscaled precision, for the law h(c*P) == c*h(P)
    if pscale != 1.0 and prec is not None and method in ('mahalanobis', 'crossnobis'):
        noise_1 = prec / pscale
    try:
        for g in groups:
            dss.append(Dataset(X[g]))
            cvs.append(np.array([codes[i] for i in g], dtype=np.int64))
        # caller-owned arguments: raw bytes after every call, complete snapshots once after all calls
        ds_snap = [_snap_ds(d) for d in dss]
        cv_snap = [_snap(c) for c in cvs]
        n_snap = None if noise_h is None else _snap(noise_h)
        ds_bytes = [d.measurements.tobytes() for d in dss]
        cv_bytes = [c.tobytes() for c in cvs]
        n_bytes = None if noise_h is None else noise_h.tobytes()
        for a in range(k):
            for b in range(a, k):
                ca, cb = cvs[a], cvs[b]
                cb_bytes = cv_bytes[b]
                if a == b and not crossval:
                    cb = cb + n          # every ordered pair incl. (i, i) is admissible
                    cb_bytes = cb.tobytes()
                hv, hw = calc_one_similarity(dss[a], dss[b], ca, cb, method=method,
                                             noise=noise_h, weighting=weighting,
                                             prior_lambda=prior[0], prior_weight=prior[1])
                ctx.count('helper_calls')
                if noise_1 is not None:
                    hv1, _ = calc_one_similarity(dss[a], dss[b], ca, cb, method=method, noise=noise_1,
                                                 weighting=weighting)
                    if not _close(hv, hv1 * pscale, TOL, unit):
                        ctx.fail('calc_one_similarity|precision-scale|violates-h(cP)=c*h(P)', dict(case, pair=[a, b]),
                                 'conditions #%d,#%d: precision P/c gives %.12g, P gives %.12g, c = %g' % (
                                     a, b, hv1, hv, pscale))
                for nm, now, was in (('data_i.measurements', dss[a].measurements, ds_bytes[a]),
                                     ('data_j.measurements', dss[b].measurements, ds_bytes[b]),
                                     ('cv_desc_i', ca, cv_bytes[a]), ('cv_desc_j', cb, cb_bytes),
                                     ('noise', noise_h, n_bytes)):
                    if now is not None and now.tobytes() != was:
                        ctx.fail('calc_one_similarity|any|modifies-argument:%s' % nm, dict(case, pair=[a, b]),
                                 'argument %s changed during the call for conditions #%d,#%d: now %r' % (
                                     nm, a, b, now.tolist()))
                ra = [rows[i] for i in groups[a]]
                rb = [rows[i] for i in groups[b]]
                if crossval:
                    fa, fb = [codes[i] for i in groups[a]], [codes[i] for i in groups[b]]
                else:
                    fa = fb = None
                wv, ww = ref.similarity(ra, rb, fa, fb, method, weighting, precl, prior[0], prior[1])
                if wv is None:
                    ctx.exclude('%s undefined for an observation pair (constant vector / < 2 valid channels)' % method)
                    continue
                hval[(a, b)] = hv
                ctx.dev('helper/' + method, _reldev(hv, wv, unit) if (hv == hv) == (wv == wv) else 0.0)
                if not _close(hv, wv, TOL, unit):
                    ctx.fail('calc_one_similarity|%s|value-mismatch' % hcls, dict(case, pair=[a, b]),
                             'conditions #%d,#%d: helper %.12g, pairwise definition %.12g' % (a, b, hv, wv))
                elif not _close(hw, ww, TOL):
                    ctx.fail('calc_one_similarity|%s|weight-mismatch' % hcls, dict(case, pair=[a, b]),
                             'conditions #%d,#%d: helper weight %.12g, definition %.12g' % (a, b, hw, ww))
        for i, d in enumerate(dss):
            _args_unchanged(ctx, 'calc_one_similarity', case, d, ds_snap[i],
                            [('cv_desc', cvs[i], cv_snap[i])] + ([('noise', noise_h, n_snap)] if i == 0 else []))
    except _PASS:
        raise
    except Exception as e:  # noqa: BLE001
        _fail_exc(ctx, 'calc_one_similarity|%s' % hcls, case, e)
        return
    if full is None:
        return
    for a in range(k):
        for b in range(a + 1, k):
            if (a, a) in hval and (b, b) in hval and (a, b) in hval:
                comb = hval[(a, a)] + hval[(b, b)] - 2.0 * hval[(a, b)]
                g = full[_vec_index(a, b, k)]
                if not _close(g, comb, 1e-8, unit):
                    ctx.fail('calc_one_similarity|%s|differs-from-full-computation' % hcls, dict(case, pair=[a, b]),
                             'conditions #%d,#%d: full computation %.12g, h(a,a)+h(b,b)-2h(a,b) = %.12g' % (
                                 a, b, g, comb))


def _balanced_kind(case, lab_eff, folds, has_nan):
    """which clause of the statement demands equality with calc_rdm for this case (or None)"""
    if has_nan:
        return None
    method = case['method']
    order = ref.first_appearance(lab_eff)
    counts = [len(ref.members(lab_eff, lab)) for lab in order]
    if folds is None:
        if method in CV_METHODS:
            return None
        if all(c == 1 for c in counts):
            return 'one-observation-per-condition'
        if method in ('euclidean', 'mahalanobis'):
            return 'repetitions'
        return None
    if method not in CV_METHODS or lab_eff is None:
        return None
    fvals = ref.first_appearance(folds)
    if len(fvals) < 2:
        return None
    for lab in order:
        cnts = [sum(1 for i in range(len(folds)) if lab_eff[i] == lab and folds[i] == f) for f in fvals]
        if min(cnts) == 0 or len(set(cnts)) != 1:
            return None
        if method == 'poisson_cv' and cnts[0] != 1:
            return None
    return 'fold-balanced'


def _vs_calc_rdm(ctx, case, X, labels, folds, prec, got, kind, defined):
    cls = 'method=%s,%s' % (case['method'], kind)
    if case.get('dtype'):
        cls += ',dtype=%s' % case['dtype'].replace('big', '')
    sub = dict(case, oracle='calc_rdm')
    if case['design'].get('naming') == 'index' and case['method'] in CV_METHODS:
        return
    bal = _lib_full(ctx, sub, X.copy(), labels, folds, None if prec is None else prec.copy(),
                    cls, op='calc_rdm')
    ctx.case(sub)
    ctx.count('calc_rdm_comparisons:%s' % kind)
    if bal is None:
        return
    blabs, bvec = bal
    labs, vec = got
    k = len(labs)
    if len(blabs) != k or len(bvec) != len(vec):
        ctx.fail('calc_rdm_unbalanced==calc_rdm|%s|n-cond' % cls, sub, 'calc_rdm returns labels %r, unbalanced %r' % (
            blabs, labs))
        return
    pos = [ref.find_label(lab, blabs) for lab in labs]
    if None in pos:
        ctx.fail('calc_rdm_unbalanced==calc_rdm|%s|labels' % cls, sub, 'calc_rdm returns labels %r, unbalanced %r' % (
            blabs, labs))
        return
    unit = _unit(case)
    tol = TOL
    if case.get('dtype') == 'float32':
        # calc_rdm averages / multiplies single-precision data in single precision (eps 6e-8): the comparison
        # is relative to the size of the products that enter, 1e-5 of max(1, max x^2) (largest deviation seen 7e-8)
        tol = TOL_F32
        unit = max(1.0, float(np.max(np.abs(X))) ** 2)
    floor = 0.0
    if case['method'] in ('poisson', 'poisson_cv'):
        # calc_rdm forms u.log(u) + v.log(v) - u.log(v) - v.log(u) from terms of size |u log u|: its rounding
        # error does not shrink with the dissimilarity.  64 ulp of the largest term is the floor of the comparison.
        prior = case.get('prior') or [1, 0.1]
        rates = [(v + prior[0] * prior[1]) / (1.0 + prior[1]) for v in X.ravel().tolist() if v == v]
        floor = 64 * 2.220446049250313e-16 * max([abs(u * math.log(u)) for u in rates if u > 0] or [0.0])
    for a in range(k):
        for b in range(a + 1, k):
            if not defined[_vec_index(a, b, k)]:
                continue
            g = vec[_vec_index(a, b, k)]
            w = bvec[_vec_index(pos[a], pos[b], k)]
            ctx.dev('calc_rdm/' + case['method'] + ('/float32' if tol != TOL else ''),
                    _reldev(g, w, unit) if (g == g) == (w == w) else 0.0)
            if not _close(g, w, tol, unit) and not (g == g and w == w and abs(g - w) <= floor):
                ctx.fail('calc_rdm_unbalanced==calc_rdm|%s|value-mismatch' % cls, sub,
                         'pair (%r,%r): calc_rdm_unbalanced %.12g (agrees with the pairwise definition), '
                         'calc_rdm %.12g' % (labs[a], labs[b], g, w))
                return


def _same_result(a, b, tol, defined=None, unit=1.0):
    """same labels, same values (NaN == NaN); `defined`: flags per entry, undefined entries are not compared"""
    la, va = a
    lb, vb = b
    if la != lb or len(va) != len(vb):
        return False
    return all(_close(x, y, tol, unit) for i, (x, y) in enumerate(zip(va, vb)) if defined is None or defined[i])


def _defined(want):
    """per entry of the returned vector (reference order): is the value defined by the statement"""
    k = len(want['order'])
    out = [True] * (k * (k - 1) // 2)
    for (a, b), w in want['dist'].items():
        out[_vec_index(a, b, k)] = w is not None
    return out


# ----------------------------------------------------------------------------- one case
def run_case(case, ctx):
    kind = case['kind']
    if kind == 'oob_probe':
        _run_in_child(_probe_cases(ctx.tier), ctx)
        return
    if case.get('probe') and not IN_CHILD:
        _run_in_child([case], ctx)
        return
    if kind == 'seq':
        _run_seq(case, ctx)
        return
    if kind == 'list':
        _run_list(case, ctx)
        return
    _run_structured(case, ctx)


# ----------------------------------------------------------------------------- input forms: lists of datasets
# (container of the datasets, form of the noise argument)
LIST_FORMS = [('list', 'none'), ('list', 'shared2d'), ('list', 'perlist'), ('tuple', 'shared2d'),
              ('list', 'pertuple'), ('tuple', 'array3d')]
_LIST_SINGLE = {}


def _list_members(case, seed):
    """-> per member dataset: (X, labels or None, folds or None)"""
    out = []
    poisson = case['method'] in ('poisson', 'poisson_cv')
    for r, m in enumerate(case['members']):
        labels, folds, n = _structure({'design': dict(m, type='lab')})
        if case['desc'] is None:
            labels = None
        if not case['cv']:
            folds = None
        rows = [list(row) for row in _data(seed, n, case['P'], r % 3, poisson)]
        if r == 0:
            for c in case['mask']:
                rows[c // case['P']][c % case['P']] = ref.NAN
        out.append((np.array(rows, dtype=float), labels, folds))
    return out


def _list_dataset(X, labels, folds, r):
    ds = _dataset(X.copy(), labels, folds)
    ds.descriptors = {'subj': 's%d' % r, 'sess': 3}
    return ds


def _rdm_desc(rd, name, r):
    if rd.rdm_descriptors is not None and name in rd.rdm_descriptors:
        try:
            return True, ref.plain(rd.rdm_descriptors[name][r])
        except Exception:  # noqa: BLE001
            return False, None
    if name in rd.descriptors:
        return True, ref.plain(rd.descriptors[name])
    return False, None


def _run_list(case, ctx):
    """calc_rdm_unbalanced on a single dataset object / a list / a tuple of datasets with the noise given as
    None / one shared 2-D matrix / list / tuple / 3-D array of per-dataset matrices: the RDM of every
    dataset must be the one the single-dataset call with the same options returns (those calls are judged
    by the other blocks), attached to that dataset's descriptors, in the first dataset's condition order"""
    from rsatoolbox.rdm import calc_rdm_unbalanced
    n_ch = case['P']
    method, weighting = case['method'], case['weighting']
    dsform, noiseform = case['forms']
    if case['mask'] and noiseform != 'none' and method in ('mahalanobis', 'crossnobis') and not EXPLORE_OOB:
        ctx.count(KNOWN_SKIP)
        return
    members = _list_members(case, ctx.seed)
    nm = len(members)
    if noiseform == 'none':
        precs = [None] * nm
    elif noiseform == 'shared2d':
        precs = [_prec(ctx.seed, n_ch)] * nm
    else:
        precs = [_prec(ctx.seed, n_ch, r + 1) for r in range(nm)]
    desc = case['desc']
    cvd = 'fold' if case['cv'] else None
    cls = 'input=%s,noise=%s' % (dsform, noiseform)
    prior = case.get('prior') or [1, 0.1]
    kw = {'method': method, 'descriptor': desc, 'cv_descriptor': cvd, 'weighting': weighting,
          'prior_lambda': prior[0], 'prior_weight': prior[1]}
    name = 'cond' if desc else 'index'
    # ---- the single-dataset calls with the same options
    singles = []
    for r, (X, labels, folds) in enumerate(members):
        key = (ctx.seed, json.dumps(_runner.jsonable([case['members'][r], case['mask'] if r == 0 else [], r % 3,
                                                       n_ch, method, weighting, desc, cvd, prior])),
               None if precs[r] is None else precs[r].tobytes())
        hit = _LIST_SINGLE.get(key)
        if hit is None:
            try:
                rd = calc_rdm_unbalanced(_list_dataset(X, labels, folds, r), noise=None if precs[r] is None
                                         else precs[r].copy(), **kw)
                hit = ([ref.plain(v) for v in rd.pattern_descriptors[name]],
                       np.asarray(rd.dissimilarities, dtype=float)[0])
            except _PASS:
                raise
            except Exception as e:  # noqa: BLE001
                hit = ('raises', type(e).__name__)
            if len(_LIST_SINGLE) > 20000:
                _LIST_SINGLE.clear()
            _LIST_SINGLE[key] = hit
        if hit[0] == 'raises':
            ctx.exclude('single-dataset call raises %s (judged by the other blocks)' % hit[1])
            return
        singles.append(hit)
    # ---- the call under test
    dss = [_list_dataset(X, labels, folds, r) for r, (X, labels, folds) in enumerate(members)]
    if noiseform == 'none':
        noise = None
    elif noiseform == 'shared2d':
        noise = precs[0].copy()
    elif noiseform == 'perlist':
        noise = [q.copy() for q in precs]
    elif noiseform == 'pertuple':
        noise = tuple(q.copy() for q in precs)
    elif noiseform == 'array3d':
        noise = np.array(precs)
    else:
        raise ValueError(noiseform)
    arg = dss[0] if dsform == 'single' else (list(dss) if dsform == 'list' else tuple(dss))
    before = [_snap_ds(d) for d in dss]
    nsnap = _snap(noise) if noise is not None else None
    try:
        rd = calc_rdm_unbalanced(arg, noise=noise, **kw)
    except _PASS:
        raise
    except Exception as e:  # noqa: BLE001
        # the single-dataset calls with the same options succeeded: the joint call must not raise
        sizes = 'equal-n_obs' if len(set(X.shape[0] for X, _, _ in members)) == 1 else 'different-n_obs'
        _fail_exc(ctx, 'calc_rdm_unbalanced|input=%s,%s' % ('single' if dsform == 'single' else 'list-of-datasets',
                                                            sizes), case, e)
        ctx.case(case, nontrivial=False)
        return
    for r, d in enumerate(dss):
        _args_unchanged(ctx, 'calc_rdm_unbalanced', case, d, before[r])
    if noise is not None and _snap(noise) != nsnap:
        ctx.fail('calc_rdm_unbalanced|any|modifies-argument:noise', case, 'the noise argument (%s) changed' % noiseform)
    ctx.case(case)
    vecs = np.asarray(rd.dissimilarities, dtype=float)
    labs0, vec0 = singles[0]
    k = len(labs0)
    if vecs.ndim != 2 or vecs.shape[0] != nm or rd.n_rdm != nm:
        ctx.fail('calc_rdm_unbalanced|%s|n-rdm' % cls, case, '%r dissimilarities for %d datasets' % (vecs.shape, nm))
        return
    pd = rd.pattern_descriptors.get(name)
    got_labs = None if pd is None else [ref.plain(v) for v in pd]
    if got_labs != labs0 or vecs.shape[1] != len(vec0):
        ctx.fail('calc_rdm_unbalanced|%s|labels' % cls, case, 'pattern descriptor %r is %r; the first dataset alone '
                 'gives %r (%d values returned, %d expected)' % (name, got_labs, labs0, vecs.shape[1], len(vec0)))
        return
    unit = _unit(case)
    for r in range(nm):
        labs_r, vec_r = singles[r]
        pos = [ref.find_label(lab, labs_r) for lab in labs0]
        if None in pos or len(labs_r) != k:
            ctx.exclude('datasets of one list with different condition sets')
            return
        for a in range(k):
            for b in range(a + 1, k):
                g = vecs[r, _vec_index(a, b, k)]
                w = vec_r[_vec_index(pos[a], pos[b], k)]
                if not _close(g, w, TOL_INV, unit):
                    ctx.fail('calc_rdm_unbalanced|%s|differs-from-single-dataset-call' % cls, case,
                             'dataset %d, pair (%r,%r): %.12g in the joint call, %.12g when the dataset is passed '
                             'alone with the same options (method=%s, cv_descriptor=%r, weighting=%s)' % (
                                 r, labs0[a], labs0[b], g, w, method, cvd, weighting))
                    break
            else:
                continue
            break
        for dname, want in (('subj', 's%d' % r), ('sess', 3)):
            ok, val = _rdm_desc(rd, dname, r)
            if not ok:
                ctx.fail('calc_rdm_unbalanced|%s|rdm-descriptor-missing' % cls, case,
                         'dataset descriptor %r not on RDM %d: rdm_descriptors %r' % (dname, r, rd.rdm_descriptors))
            elif val != want:
                ctx.fail('calc_rdm_unbalanced|%s|rdm-descriptor-wrong' % cls, case,
                         'RDM %d carries %s=%r, its dataset has %r' % (r, dname, val, want))
    ctx.outcome([round(float(v), 6) if v == v else 'nan' for v in vecs[-1][:2]])


# ----------------------------------------------------------------------------- sequences of calls on one object
# (op, method, weighting, fold descriptor given, condition descriptor, precision)
SEQ_MENU = [
    ('calc_rdm_unbalanced', 'euclidean', 'number', False, 'cond', 'none'),
    ('calc_rdm_unbalanced', 'euclidean', 'equal', True, None, 'none'),
    ('calc_rdm_unbalanced', 'crossnobis', 'number', False, 'cond', 'none'),
    ('calc_rdm_unbalanced', 'crossnobis', 'equal', True, 'cond', 'spd'),
    ('calc_rdm_unbalanced', 'poisson_cv', 'number', False, None, 'none'),
    ('calc_rdm_unbalanced', 'correlation', 'number', False, 'cond', 'none'),
    ('calc_rdm_unbalanced', 'mahalanobis', 'number', False, None, 'spd'),
    ('calc_rdm_unbalanced', 'poisson', 'number', True, 'cond', 'none'),
    ('calc_rdm', 'euclidean', None, False, None, 'none'),
    ('calc_rdm', 'crossnobis', None, True, 'cond', 'none'),
]
_SEQ_FRESH = {}


def _seq_menu(has_nan):
    """indices of the menu entries usable for the data (precision + NaN is the known over-reading class)"""
    return [i for i, e in enumerate(SEQ_MENU) if not (has_nan and e[5] == 'spd' and e[0] == 'calc_rdm_unbalanced')]


def _seq_call(ctx, case, ds, prec, entry):
    """one menu call on the given (possibly already used) Dataset / precision objects -> hashable outcome;
    the caller-owned arguments must come back bit-identical"""
    from rsatoolbox.rdm import calc_rdm, calc_rdm_unbalanced
    op, method, weighting, cv, desc, pk = entry
    noise = prec if pk == 'spd' else None
    before = _snap_ds(ds)
    nsnap = None if noise is None else _snap(noise)
    try:
        if op == 'calc_rdm_unbalanced':
            rd = calc_rdm_unbalanced(ds, method=method, descriptor=desc, noise=noise,
                                     cv_descriptor='fold' if cv else None, weighting=weighting)
        else:
            rd = calc_rdm(ds, method=method, descriptor=desc, noise=noise, cv_descriptor='fold' if cv else None)
        out = ('ok', fingerprint({'d': np.asarray(rd.dissimilarities), 'pd': rd.pattern_descriptors,
                                  'rd': rd.rdm_descriptors, 'desc': rd.descriptors,
                                  'measure': rd.dissimilarity_measure}),
               np.asarray(rd.dissimilarities).tolist(), repr(rd.pattern_descriptors))
    except _PASS:
        raise
    except Exception as e:  # noqa: BLE001
        out = ('raises', type(e).__name__, None, None)
    _args_unchanged(ctx, op, case, ds, before, [('noise', noise, nsnap)])
    return out


def _run_seq(case, ctx):
    """call menu entry `first`, then entry `second`, on ONE Dataset object (and one precision array): the
    second result must be what the same call returns on a fresh Dataset"""
    labels, folds, n = _structure(case)
    n_ch = case['P']
    base = _data(ctx.seed, n, n_ch, case['fill'], True)
    rows = [list(r) for r in base]
    for c in case['mask']:
        rows[c // n_ch][c % n_ch] = ref.NAN
    X = np.array(rows, dtype=float)
    first, second = SEQ_MENU[case['first']], SEQ_MENU[case['second']]
    key = (ctx.seed, json.dumps(_runner.jsonable(dict(case, first=None))), case['second'])
    fresh = _SEQ_FRESH.get(key)
    if fresh is None:
        if len(_SEQ_FRESH) > 4096:
            _SEQ_FRESH.clear()
        fresh = _SEQ_FRESH[key] = _seq_call(ctx, case, _dataset(X.copy(), labels, folds), _prec(ctx.seed, n_ch), second)
    ds = _dataset(X.copy(), labels, folds)
    prec = _prec(ctx.seed, n_ch)
    _seq_call(ctx, case, ds, prec, first)
    got = _seq_call(ctx, case, ds, prec, second)
    ctx.case(case, nontrivial=fresh[0] == 'ok')
    ctx.outcome(fresh[1])
    if got[:2] != fresh[:2]:
        ctx.fail('%s|sequence|depends-on-earlier-call' % second[0], case,
                 'after %r on the same Dataset object, %r gives %r %r; on a fresh Dataset it gives %r %r' % (
                     first, second, got[2] or got[:2], got[3], fresh[2] or fresh[:2], fresh[3]))


def _run_structured(case, ctx):
    labels, folds, n = _structure(case)
    n_ch = case['P']
    method = case['method']
    mask = case['mask']
    has_nan = bool(mask)
    if _oob_class(case) and not (EXPLORE_OOB or (case.get('probe') and IN_CHILD)):
        ctx.count(KNOWN_SKIP)
        ctx.note(KNOWN_SKIP, 'configuration class precision + missing channel (mahalanobis / crossnobis with a '
                 'precision matrix and at least one NaN cell): the compiled kernel reads past a heap buffer; '
                 'executed only in the child process of shard oob_probe (counters.executed_in_child_process), '
                 'the count of generated-but-skipped cases is counters.%s' % KNOWN_SKIP)
        return
    lab_eff = list(range(n)) if labels is None else labels
    crossval = ref.crossvalidated(method, folds)
    cls = _cls(case, crossval)
    prior = case.get('prior') or [1, 0.1]
    base = _data(ctx.seed, n, n_ch, case['fill'], method in ('poisson', 'poisson_cv'))
    scale = float(case.get('scale') or 1.0)
    if scale != 1.0:
        base = [[v * scale for v in r] for r in base]
    typed = None
    if case.get('dtype'):
        typed = _typed(base, case['dtype'], method in ('poisson', 'poisson_cv'))
        base = typed.astype(np.float64).tolist()        # exactly the values the typed array holds
    rows = [list(r) for r in base]
    for c in mask:
        rows[c // n_ch][c % n_ch] = ref.NAN
    pscale = float(case.get('pscale') or 1.0)
    prec = _prec_form(ctx.seed, n_ch, case['prec'], pscale)
    precl = None if prec is None else prec.tolist()
    try:
        want = ref.unbalanced(rows, lab_eff, folds, method, case['weighting'], precl, prior[0], prior[1])
    except Exception as e:  # noqa: BLE001
        _fail_exc(ctx, 'reference|%s' % cls, case, e)
        return
    X = np.array(rows, dtype=float) if typed is None else typed      # the array handed to the library
    got = _lib_full(ctx, case, X.copy(), labels, folds, None if prec is None else prec.copy(), cls)
    if got is None:
        ctx.case(case, nontrivial=False)
        return
    ok, judged, finite = _judge(ctx, case, got, want, cls)
    ctx.case(case, nontrivial=finite > 0)
    ctx.count('mask=%s' % _mask_kind(mask, n, n_ch))
    # ---- dtype / layout invariance
    for v in case.get('variants') or []:
        if v == 'F':
            Xv = np.asfortranarray(X)
        elif v == 'int':
            Xv = np.array(rows, dtype=np.int64)
        elif v == 'intF':
            Xv = np.asfortranarray(np.array(rows, dtype=np.int64))
        else:
            raise ValueError(v)
        pv = None if prec is None else (np.asfortranarray(prec) if v.endswith('F') else prec.copy())
        sub = dict(case, variant=v)
        gv = _lib_full(ctx, sub, Xv, labels, folds, pv, cls)
        ctx.case(sub, nontrivial=finite > 0)
        if gv is not None and not _same_result(got, gv, TOL_INV, None, _unit(case)):
            what = 'layout=F|differs-from-C-order' if v == 'F' else 'dtype=int64|differs-from-float64'
            ctx.fail('calc_rdm_unbalanced|%s' % what, sub, 'float64 C-ordered input gives %r %r, variant %s gives %r %r' % (
                got[0], got[1].tolist(), v, gv[0], gv[1].tolist()))
    # ---- single-pair helper
    full = None
    if ok and judged:
        full = got[1]
    _helper(ctx, case, X, rows, lab_eff, folds, want, prec, crossval, full)
    if not ok:
        ctx.count('derived_oracles_skipped_after_primary_failure')
        return
    # ---- balanced estimator
    bk = _balanced_kind(case, lab_eff, folds, has_nan)
    if bk is not None and len(want['order']) >= 2:
        _vs_calc_rdm(ctx, case, X, labels, folds, prec, got, bk, _defined(want))
    # ---- the estimate is linear in the precision: d(c*P) == c * d(P)
    if pscale != 1.0 and prec is not None and method in ('mahalanobis', 'crossnobis'):
        sub = dict(case, oracle='precision-scaling-law')
        g1 = _lib_full(ctx, sub, X.copy(), labels, folds, _prec_form(ctx.seed, n_ch, case['prec']), cls)
        ctx.case(sub, nontrivial=finite > 0)
        if g1 is not None and not _same_result(got, (g1[0], g1[1] * pscale), TOL, _defined(want), _unit(case)):
            ctx.fail('calc_rdm_unbalanced|precision-scale|violates-d(cP)=c*d(P)', sub,
                     'precision P gives %r, %g * P gives %r (expected %r)' % (
                         g1[1].tolist(), pscale, got[1].tolist(), (g1[1] * pscale).tolist()))
    # ---- a channel missing everywhere == that channel deleted
    ch = _whole_channel(mask, n, n_ch) if has_nan else None
    if ch is not None and n_ch >= 2:
        keep = [c for c in range(n_ch) if c != ch]
        sub = dict(case, oracle='channel-deleted')
        Xd = np.ascontiguousarray(np.array(base, dtype=float)[:, keep])
        pd = None if prec is None else np.ascontiguousarray(prec[np.ix_(keep, keep)])
        gd = _lib_full(ctx, sub, Xd, labels, folds, pd, cls)
        ctx.case(sub, nontrivial=finite > 0)
        ctx.count('channel_deleted_comparisons')
        if gd is not None and not _same_result(got, gd, TOL, _defined(want), _unit(case)):
            ctx.fail('calc_rdm_unbalanced|channel-missing-everywhere|differs-from-channel-deleted', sub,
                     'channel %d NaN in every observation gives %r, the data set without that channel gives %r' % (
                         ch, got[1].tolist(), gd[1].tolist()))


# ----------------------------------------------------------------------------- child process (known over-read)
def _probe_cases(tier):
    """a handful of cases of the class precision + missing channel; every condition keeps a valid
    self-product (>= 2 observations in different folds under cross-validation), so each deviation is
    the kernel's and carries the signature of this class"""
    out = []
    for method, fold, parts in (('mahalanobis', None, ([0, 1, 0, 2, 1], [0, 1, 2], [0, 0, 1, 1])),
                                ('crossnobis', 'occ', ([0, 1, 0, 1, 1], [0, 0, 1, 1])),
                                ('crossnobis', None, ([0, 1, 0, 1, 1], [0, 0, 1, 1]))):
        for part in parts:
            n = len(part)
            for mask in ([1], [n * 3 - 1], [0, 4], [o * 3 + 1 for o in range(n)]):
                for weighting in W2 if method == 'crossnobis' else ('number',):
                    out.append({'kind': 'lab', 'probe': True, 'P': 3, 'fill': 0, 'mask': mask, 'method': method,
                                'weighting': weighting, 'prec': 'spd', 'variants': [],
                                'design': {'type': 'lab', 'part': part, 'naming': 'desc', 'fold': fold}})
    return out


def _child_main():
    """runs in the child: execute the given cases (incl. the over-reading class) and print the findings"""
    import warnings
    warnings.filterwarnings('ignore')
    _runner.bind_repo()
    req = json.loads(sys.stdin.read())
    ctx = _runner.Ctx(PROPERTY, req['tier'], req['seed'])
    for case in req['cases']:
        _run_structured(case, ctx)
    print('C15CHILD' + json.dumps({'fails': ctx.fails, 'evaluations': ctx.evaluations,
                                   'distinct': len(ctx.distinct), 'counters': dict(ctx.counters),
                                   'maxdev': ctx.maxdev}))


def _run_in_child(cases, ctx):
    env = dict(os.environ, C15_CHILD='1', VERIF_REPO=_runner.REPO)
    code = ('import sys; sys.path.insert(0, %r); from checks import c15; c15._child_main()' % _runner.VERIF)
    req = json.dumps({'tier': ctx.tier, 'seed': ctx.seed, 'cases': _runner.jsonable(cases)})
    sig_crash = 'calc_rdm_unbalanced|precision,missing-channel|value-mismatch'
    try:
        p = subprocess.run([sys.executable, '-c', code], input=req, capture_output=True, text=True,
                           env=env, timeout=300, cwd=_runner.VERIF)
    except subprocess.TimeoutExpired:
        raise _runner.HarnessError('C15 child process timed out')
    line = [ln for ln in p.stdout.splitlines() if ln.startswith('C15CHILD')]
    if p.returncode < 0 or (p.returncode != 0 and 'Segmentation' in p.stderr):
        ctx.case(cases[0])
        ctx.fail(sig_crash, cases[0], 'child process executing the class precision + missing channel died with '
                 'return code %d (out-of-bounds read in the compiled kernel)' % p.returncode)
        return
    if p.returncode != 0 or not line:
        raise _runner.HarnessError('C15 child process failed (%d): %s' % (p.returncode, p.stderr[-2000:]))
    res = json.loads(line[0][len('C15CHILD'):])
    ctx.evaluations += res['evaluations']
    for i in range(res['distinct']):
        ctx.distinct.add(_runner.h64(['child', i, cases[0]]))
    ctx.last_case = cases[-1]
    ctx.count('executed_in_child_process', res['evaluations'])
    ctx.count('helper_calls', res['counters'].get('helper_calls', 0))
    for sig, f in res['fails'].items():
        for _ in range(f['count']):
            ctx.fail(sig, f['case'], f['msg'])
    if not res['fails']:
        ctx.note('oob_probe', 'the class precision + missing channel agreed with the reference in the child '
                 'process: it is no longer defective - run with C15_EXPLORE_OOB=1 to explore it')


# ----------------------------------------------------------------------------- enumeration
W2 = ('number', 'equal')


def _configs(fold, has_nan, tier):
    """(method, prec) for one fold variant"""
    th = tier == 'thorough'
    if fold is None:
        return [('euclidean', 'none'), ('correlation', 'none'), ('mahalanobis', 'none'), ('mahalanobis', 'spd'),
                ('poisson', 'none'), ('crossnobis', 'none'), ('crossnobis', 'spd'), ('poisson_cv', 'none')]
    if fold == 'occ':
        out = [('crossnobis', 'none'), ('crossnobis', 'spd'), ('poisson_cv', 'none'), ('euclidean', 'none'),
               ('correlation', 'none')]
        if not has_nan:
            out += [('mahalanobis', 'none'), ('mahalanobis', 'spd'), ('poisson', 'none')]
        return out
    out = [('crossnobis', 'none'), ('crossnobis', 'spd'), ('poisson_cv', 'none')]
    if th or fold.startswith('fp'):
        out += [('euclidean', 'none')]
    if th:
        out += [('correlation', 'none')]
    return out


def shards(tier, seed):
    th = tier == 'thorough'
    out = [{'kind': 'oob_probe'}]
    for n_ch in (2, 3):
        out.append({'kind': 'lab', 'ns': [1, 2], 'P': n_ch, 'parts': None})
        for n in (3, 4):
            for p in range(combi.BELL[n]):
                out.append({'kind': 'lab', 'ns': [n], 'P': n_ch, 'parts': [p, p + 1]})
        for p in range(combi.BELL[5]):
            if n_ch == 3:   # the largest blocks: one shard per fold variant
                for fv in (0, 1, 2):
                    out.append({'kind': 'lab', 'ns': [5], 'P': n_ch, 'parts': [p, p + 1], 'foldvariant': fv})
            else:
                out.append({'kind': 'lab', 'ns': [5], 'P': n_ch, 'parts': [p, p + 1]})
        if th:
            for p in range(0, combi.BELL[6], 3):
                out.append({'kind': 'lab', 'ns': [6], 'P': n_ch, 'parts': [p, min(combi.BELL[6], p + 3)]})
    if th:
        out.append({'kind': 'lab', 'ns': [1, 2, 3], 'P': 4, 'parts': None})
        for p in range(combi.BELL[4]):
            out.append({'kind': 'lab', 'ns': [4], 'P': 4, 'parts': [p, p + 1]})
    # descriptor=None on datasets that already carry 'index' / 'cv_desc' / 'conds' descriptors
    for n_ch in (2, 3):
        out.append({'kind': 'extra', 'ns': [2, 3], 'P': n_ch})
        out.append({'kind': 'extra', 'ns': [4], 'P': n_ch})
        if th:
            out.append({'kind': 'extra', 'ns': [5], 'P': n_ch})
    # ordered pairs of calls on one Dataset object; data scales and large / close-together descriptor values
    for n in ((2, 3, 4, 5, 6) if th else (2, 3, 4, 5)):
        step = 1 if n <= 4 else (13 if n == 5 else 29)
        for p in range(0, combi.BELL[n], step) if n >= 4 else [None]:
            out.append({'kind': 'seq', 'ns': [n], 'P': 3, 'parts': None if p is None else [p, min(combi.BELL[n], p + step)]})
    for n_ch in ((2, 3) if th else (3,)):
        out.append({'kind': 'scale', 'ns': [1, 2, 3], 'P': n_ch, 'parts': None})
        for p in range(0, combi.BELL[4], 3):
            out.append({'kind': 'scale', 'ns': [4], 'P': n_ch, 'parts': [p, min(combi.BELL[4], p + 3)]})
        if th:
            for p in range(0, combi.BELL[5], 4):
                out.append({'kind': 'scale', 'ns': [5], 'P': n_ch, 'parts': [p, min(combi.BELL[5], p + 4)]})
        out.append({'kind': 'scalebal', 'P': n_ch})
        out.append({'kind': 'dtype', 'P': n_ch, 'ns': [2, 3, 4]})
        out.append({'kind': 'dtype', 'P': n_ch, 'ns': [5]})
        out.append({'kind': 'dtype', 'P': n_ch, 'ns': []})
        out.append({'kind': 'pscale', 'ns': [1, 2, 3], 'P': n_ch})
        for p in range(0, combi.BELL[4], 5):
            out.append({'kind': 'pscale', 'ns': [4], 'P': n_ch, 'parts': [p, min(combi.BELL[4], p + 5)]})
        if th:
            for p in range(0, combi.BELL[5], 13):
                out.append({'kind': 'pscale', 'ns': [5], 'P': n_ch, 'parts': [p, min(combi.BELL[5], p + 13)]})
    # input forms: single object / list / tuple of datasets x noise forms x cv_descriptor x descriptor
    for K in (2, 3):
        out.append({'kind': 'list', 'K': K, 'P': 3, 'len': 1})
        nfirst = len(_k_partitions(K, 5 if th else 4))
        for p in range(0, nfirst, 3 if th else 4):
            out.append({'kind': 'list', 'K': K, 'P': 3, 'len': 2, 'first': [p, min(nfirst, p + (3 if th else 4))]})
        out.append({'kind': 'list', 'K': K, 'P': 3, 'len': 3})
    # every labeling x every fold partition
    for n_ch in (2, 3):
        out.append({'kind': 'foldpart', 'ns': [2, 3], 'P': n_ch, 'parts': None})
        for p in range(combi.BELL[4]):
            out.append({'kind': 'foldpart', 'ns': [4], 'P': n_ch, 'parts': [p, p + 1]})
        if th:
            for p in range(combi.BELL[5]):
                out.append({'kind': 'foldpart', 'ns': [5], 'P': n_ch, 'parts': [p, p + 1]})
    # fold-balanced designs
    designs = [(K, M, R) for R in (1, 2) for K in (2, 3) for M in (2, 3)]
    if th:
        designs += [(4, 2, 1), (4, 3, 1), (2, 4, 1), (3, 4, 1), (4, 4, 1)]
    for K, M, R in designs:
        for n_ch in (2, 3):
            for order in ('byfold', 'bycond', 'rev', 'mix'):
                out.append({'kind': 'bal', 'K': K, 'M': M, 'R': R, 'P': n_ch, 'order': order})
    return out


def _k_partitions(K, nmax):
    """every set partition of n in K..nmax observations into exactly K conditions"""
    return [p for n in range(K, nmax + 1) for p in _partitions(n) if max(p) + 1 == K]


def _variants(fill, has_nan, idx, tier):
    if fill == 'int' and not has_nan:
        return ['int', 'intF', 'F']
    if tier == 'thorough' or idx % 3 == 0:
        return ['F']
    return []


def run_shard(shard, ctx):
    kind = shard['kind']
    th = ctx.tier == 'thorough'
    if kind == 'oob_probe':
        run_case(shard, ctx)
        return
    n_ch = shard['P']
    if kind == 'lab':
        rot = ['desc', 'str', 'asc']
        for n in shard['ns']:
            parts = _partitions(n)
            lo, hi = shard['parts'] or [0, len(parts)]
            maxw = 2 if n <= 5 else (2 if n_ch == 2 else 1)
            masks = _masks(n, n_ch, maxw)
            for pidx in range(lo, hi):
                part = parts[pidx]
                k = max(part) + 1
                tags = _naming_tags(k)
                if k == n and n >= 2:
                    tags = tags + ['index']
                idx = 0
                for mi, mask in enumerate(masks):
                    has_nan = bool(mask)
                    if has_nan:
                        namings = [rot[(mi + pidx) % 3]]
                        fills = [0, 1] if (th and n <= 4) else [0]
                    else:
                        namings = tags
                        fills = [0, 'int'] + ([1, 2] if th else [])
                    for naming in namings:
                        for fill in fills:
                            for fv, fold in enumerate((None, 'occ', 'alt')):
                                if shard.get('foldvariant') is not None and shard['foldvariant'] != fv:
                                    continue
                                if naming == 'index' and fold == 'occ':
                                    continue
                                for method, prec in _configs(fold, has_nan, ctx.tier):
                                    if n_ch == 4 and method != 'correlation':
                                        continue
                                    for weighting in W2:
                                        idx += 1
                                        case = {'kind': 'lab', 'P': n_ch, 'fill': fill, 'mask': mask,
                                                'method': method, 'weighting': weighting, 'prec': prec,
                                                'variants': _variants(fill, has_nan, idx, ctx.tier),
                                                'design': {'type': 'lab', 'part': part, 'naming': naming,
                                                           'fold': fold}}
                                        if th and fill == 1 and method in ('poisson', 'poisson_cv'):
                                            case['prior'] = [2, 0.5]
                                        run_case(case, ctx)
    elif kind == 'extra':
        # descriptor=None on a dataset that already carries an obs descriptor called 'index' / 'cv_desc' /
        # 'conds': repeated values (every partition as the value pattern, ints and strings) and distinct
        # permuted values; the result must have one condition per observation, labelled 0..n-1
        for n in shard['ns']:
            parts = _partitions(n)
            idx = 0
            for pidx, part in enumerate(parts):
                k = max(part) + 1
                extras = [[name, 'part'] for name in ('index', 'cv_desc', 'conds')] + [['index', 'str']]
                if k == n:
                    extras += [['index', 'rev'], ['index', 'rot'], ['cv_desc', 'rev']]
                for extra in extras:
                    masks = [[]] + ([[0], [n * n_ch - 1]] if extra[0] == 'index' else [])
                    for mask in masks:
                        for fold in (None, 'alt'):
                            for method, prec in _configs(fold, bool(mask), ctx.tier):
                                if fold == 'alt' and (method, prec) != ('crossnobis', 'none'):
                                    continue
                                for weighting in W2:
                                    idx += 1
                                    for fill in ([0, 'int'] if (th and not mask) else [0]):
                                        run_case({'kind': 'lab', 'P': n_ch, 'fill': fill, 'mask': mask,
                                                  'method': method, 'weighting': weighting, 'prec': prec,
                                                  'variants': _variants(fill, bool(mask), idx, ctx.tier),
                                                  'design': {'type': 'lab', 'part': part, 'naming': 'index',
                                                             'fold': fold, 'extra': extra}}, ctx)
    elif kind == 'list':
        K = shard['K']
        pool = _k_partitions(K, 5 if th else 4)
        if shard['len'] == 1:
            structs = [[p] for p in pool]
        elif shard['len'] == 2:
            lo, hi = shard['first']
            structs = [[p, q] for p in pool[lo:hi] for q in pool]
        else:       # triples: every partition once in every position
            structs = [[pool[i], pool[(i + 3) % len(pool)], pool[(2 * i + 1) % len(pool)]] for i in range(len(pool))]
        methods = ['euclidean', 'correlation', 'mahalanobis', 'crossnobis', 'poisson', 'poisson_cv']
        for si, parts in enumerate(structs):
            namings = ['str'] * 3 if si % 4 == 3 else ['desc', 'asc', 'desc']
            members = [{'part': part, 'naming': namings[r], 'fold': 'occ' if r % 2 == 0 else 'alt'}
                       for r, part in enumerate(parts)]
            same_n = len(set(len(p) for p in parts)) == 1
            forms = LIST_FORMS if len(parts) > 1 else (
                [('single', nf) for nf in ('none', 'shared2d')] +
                [('list', nf) for nf in ('none', 'shared2d', 'perlist', 'array3d')] + [('tuple', 'pertuple')])
            for fi, forms_i in enumerate(forms):
                for desc in (('cond', None) if same_n else ('cond',)):
                    if desc is None and (fi + si) % 2:
                        continue        # descriptor=None (equal n_obs only) on every second form
                    # every method on every 4th structure, two rotating methods elsewhere
                    msel = methods if si % 4 == 0 else [methods[(si + fi) % 6], methods[(si + fi + 3) % 6]]
                    for mask in ([], [0]) if (fi + si) % 3 == 0 else ([],):
                        for method in msel:
                            for weighting in W2:
                                for cv in (False, True):
                                    case = {'kind': 'list', 'P': n_ch, 'members': members, 'forms': list(forms_i),
                                            'desc': desc, 'cv': cv, 'method': method, 'weighting': weighting,
                                            'mask': mask}
                                    if method in ('poisson', 'poisson_cv'):
                                        case['prior'] = [2, 0.5]
                                    run_case(case, ctx)
    elif kind == 'seq':
        for n in shard['ns']:
            parts = _partitions(n)
            lo, hi = shard['parts'] or [0, len(parts)]
            for pidx in range(lo, hi):
                for mask in ([], [0]) if (n <= 4 or th) else ([],):
                    menu = _seq_menu(bool(mask))
                    for first in menu:
                        for second in menu:
                            run_case({'kind': 'seq', 'P': n_ch, 'fill': 0, 'mask': mask, 'first': first,
                                      'second': second,
                                      'design': {'type': 'lab', 'part': parts[pidx], 'naming': 'desc',
                                                 'fold': 'occ'}}, ctx)
    elif kind == 'scale':
        # (label naming, fold values, data scale): the two data scales with small descriptors, six-digit int
        # and time-stamp like float descriptors at scale 1 and combined with a data scale
        combos = [('desc', 'occ', SCALES[0]), ('desc', 'occ', SCALES[1]), ('big6', 'occbig', 1.0),
                  ('bigf', 'occflt', 1.0), ('bigf', 'occflt', SCALES[1])] + (
                      [('big6', 'occbig', SCALES[0])] if th else [])
        for n in shard['ns']:
            parts = _partitions(n)
            lo, hi = shard['parts'] or [0, len(parts)]
            masks = [[], [0], [n * n_ch - 1], [o * n_ch for o in range(n)], list(range(n_ch))]
            masks = [m for i, m in enumerate(masks) if m not in masks[:i]]
            for pidx in range(lo, hi):
                idx = 0
                for mask in masks:
                    has_nan = bool(mask)
                    for naming, foldtag, scale in combos:
                        for fold in (None, foldtag):
                            for method, prec in _configs('occ' if fold else None, has_nan, ctx.tier):
                                for weighting in W2:
                                    idx += 1
                                    run_case({'kind': 'lab', 'P': n_ch, 'fill': 0, 'mask': mask, 'method': method,
                                              'weighting': weighting, 'prec': prec, 'scale': scale,
                                              'variants': _variants(0, has_nan, idx, ctx.tier),
                                              'design': {'type': 'lab', 'part': parts[pidx], 'naming': naming,
                                                         'fold': fold}}, ctx)
    elif kind == 'dtype':
        # measurement dtypes on the designs where calc_rdm must coincide: repetitions (euclidean, mahalanobis),
        # one observation per condition (every non-cross-validated method, with and without descriptor),
        # fold-balanced designs (crossnobis, poisson_cv); complete data (integers cannot hold NaN)
        def go(design, method, prec, weighting, dt):
            run_case({'kind': design['type'], 'P': n_ch, 'fill': 0 if dt == 'float32' else 'int', 'mask': [],
                      'method': method, 'weighting': weighting, 'prec': prec, 'dtype': dt, 'variants': [],
                      'design': design}, ctx)
        for n in shard['ns']:
            for pidx, part in enumerate(_partitions(n)):
                k = max(part) + 1
                counts = [part.count(g) for g in range(k)]
                for dt in DTYPES:
                    for naming in (['desc', 'index'] if k == n else ['str' if pidx % 2 else 'desc']):
                        d0 = {'type': 'lab', 'part': part, 'naming': naming, 'fold': None}
                        cfgs = [('euclidean', 'none'), ('mahalanobis', 'none'), ('mahalanobis', 'spd')]
                        if k == n:
                            cfgs += [('correlation', 'none'), ('poisson', 'none')]
                        for method, prec in cfgs:
                            go(d0, method, prec, 'number', dt)
                    if len(set(counts)) == 1 and counts[0] >= 2:       # occurrence folds are balanced
                        d1 = {'type': 'lab', 'part': part, 'naming': 'desc', 'fold': 'occ'}
                        for method, prec in (('crossnobis', 'none'), ('crossnobis', 'spd')):
                            for weighting in W2:
                                go(d1, method, prec, weighting, dt)
        if not shard['ns']:
            for K, M, R in [(K, M, R) for R in (1, 2) for K in (2, 3) for M in (2, 3)]:
                for order in ('mix', 'bycond'):
                    d2 = {'type': 'bal', 'K': K, 'M': M, 'R': R, 'order': order,
                          'naming': 'desc' if order == 'mix' else 'str', 'foldnames': 'int'}
                    for dt in DTYPES:
                        for method, prec in (('crossnobis', 'none'), ('crossnobis', 'spd'), ('poisson_cv', 'none')):
                            for weighting in W2:
                                go(d2, method, prec, weighting, dt)
    elif kind == 'pscale':
        # precision matrices at scales 1e-10, 1e-6, 1e6 (full / diagonal / nearly diagonal), with the data
        # scaled inversely (values stay O(1)) and not; diagonal / nearly diagonal also at scale 1
        combos = [(form, ps, ds) for form in ('spd', 'diag', 'near') for ps in PSCALES
                  for ds in (1.0, ps ** -0.5)] + [('diag', 1.0, 1.0), ('near', 1.0, 1.0)]
        idx = 0
        for n in shard['ns']:
            parts = _partitions(n)
            lo, hi = shard.get('parts') or [0, len(parts)]
            for pidx in range(lo, hi):
                for form, ps, dscale in combos:
                    for method in ('mahalanobis', 'crossnobis'):
                        for fold in (None, 'occ'):
                            for weighting in W2:
                                idx += 1
                                run_case({'kind': 'lab', 'P': n_ch, 'fill': 0, 'mask': [], 'method': method,
                                          'weighting': weighting, 'prec': form, 'pscale': ps, 'scale': dscale,
                                          'variants': _variants(0, False, idx, ctx.tier),
                                          'design': {'type': 'lab', 'part': parts[pidx],
                                                     'naming': 'desc' if idx % 2 else 'str', 'fold': fold}}, ctx)
        if shard['ns'][0] == 1:
            for K, M in ((2, 2), (3, 2), (2, 3), (3, 3)):
                for form, ps, dscale in combos:
                    for weighting in W2:
                        idx += 1
                        run_case({'kind': 'bal', 'P': n_ch, 'fill': 0, 'mask': [], 'method': 'crossnobis',
                                  'weighting': weighting, 'prec': form, 'pscale': ps, 'scale': dscale,
                                  'variants': _variants(0, False, idx, ctx.tier),
                                  'design': {'type': 'bal', 'K': K, 'M': M, 'R': 1, 'order': 'mix',
                                             'naming': 'desc', 'foldnames': 'int'}}, ctx)
    elif kind == 'scalebal':
        idx = 0
        for K, M, R in ((2, 2, 1), (3, 2, 1), (2, 3, 1), (3, 3, 1), (2, 2, 2)):
            for mask in ([], [0]):
                for naming, foldnames, scale in (('desc', 'int', SCALES[0]), ('desc', 'int', SCALES[1]),
                                                 ('big6', 'big6', 1.0), ('bigf', 'bigf', 1.0),
                                                 ('bigf', 'bigf', SCALES[1]), ('big6', 'big6', SCALES[0])):
                    for method, prec in (('crossnobis', 'none'), ('crossnobis', 'spd'), ('poisson_cv', 'none'),
                                         ('euclidean', 'none'), ('correlation', 'none')):
                        for weighting in W2:
                            idx += 1
                            run_case({'kind': 'bal', 'P': n_ch, 'fill': 0, 'mask': mask, 'method': method,
                                      'weighting': weighting, 'prec': prec, 'scale': scale,
                                      'variants': _variants(0, bool(mask), idx, ctx.tier),
                                      'design': {'type': 'bal', 'K': K, 'M': M, 'R': R, 'order': 'mix',
                                                 'naming': naming, 'foldnames': foldnames}}, ctx)
    elif kind == 'foldpart':
        for n in shard['ns']:
            parts = _partitions(n)
            lo, hi = shard['parts'] or [0, len(parts)]
            masks = _masks(n, n_ch, 2 if (th and n <= 4) else 1)
            for pidx in range(lo, hi):
                part = parts[pidx]
                idx = 0
                for fp in range(len(parts)):
                    for mi, mask in enumerate(masks):
                        for method, prec in _configs('fp', bool(mask), ctx.tier):
                            for weighting in W2:
                                idx += 1
                                case = {'kind': 'lab', 'P': n_ch, 'fill': 0, 'mask': mask, 'method': method,
                                        'weighting': weighting, 'prec': prec,
                                        'variants': [],
                                        'design': {'type': 'lab', 'part': part,
                                                   'naming': 'desc' if (fp + mi) % 2 == 0 else 'str',
                                                   'fold': 'fp%d' % fp}}
                                run_case(case, ctx)
    elif kind == 'bal':
        K, M, R = shard['K'], shard['M'], shard['R']
        n = K * M * R
        maxw = 2 if n <= (9 if th else 6) else 1
        masks = _masks(n, n_ch, maxw)
        idx = 0
        for naming, foldnames in (('desc', 'int'), ('str', 'str'), ('asc', 'flt')):
            for mi, mask in enumerate(masks):
                has_nan = bool(mask)
                fills = [0] if has_nan else ([0, 'int'] + ([1] if th else []))
                for fill in fills:
                    for method, prec in [('crossnobis', 'none'), ('crossnobis', 'spd'), ('poisson_cv', 'none'),
                                         ('euclidean', 'none')] + ([('correlation', 'none')] if th else []):
                        for weighting in W2:
                            idx += 1
                            case = {'kind': 'bal', 'P': n_ch, 'fill': fill, 'mask': mask, 'method': method,
                                    'weighting': weighting, 'prec': prec,
                                    'variants': _variants(fill, has_nan, idx, ctx.tier),
                                    'design': {'type': 'bal', 'K': K, 'M': M, 'R': R, 'order': shard['order'],
                                               'naming': naming, 'foldnames': foldnames}}
                            if fill == 1 and method == 'poisson_cv':
                                case['prior'] = [2, 0.5]
                            run_case(case, ctx)
    else:
        raise ValueError(kind)
