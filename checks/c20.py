"""C20 - importers recover exactly the structure encoded in external names and files
(DESIGN 4/C20).

Five bounded exhaustive explorations of the real importer code, each judged against the
writers / definitions of mc/ref/c20_ref.py:

  bids     every subset of the optional entities x derivative x (suffix, ext) x value spelling:
           parse, identity rebuild, meta / events / table-sibling / mri-sibling look-ups (as
           paths, and through the file objects against marker files in a scratch tree)
  meadows  files written by the harness for every file-name shape, stimulus order, participant
           order / task layout, sort flag
  mne      EpochsArray for every shape and every event-code vector
  design   every assignment of grid onsets to 1-3 conditions x TR x volumes x confound table
           (none, complete, n/a in the first / a middle / the last volume, in two columns at
           different positions, a column that is all n/a)
  spm      every composition of the scans into runs x filter basis widths x data fills

Scratch files live in one private directory per shard (/dev/shm or the system temp dir) that
is removed when the shard ends.
"""
import contextlib
import itertools
import os
import shutil
import tempfile

import numpy as np

from mc import combi
from mc.ref import c20_ref as ref
from mc.util import allclose, fingerprint, maxreldev, rng_for

PROPERTY = 'C20'
LEVEL = 'exploration'
RULE = ('bids: every subset of {ses,task,run,space,desc} x derivative in {none,fmriprep} x 5 '
        '(suffix,ext,modality) x value spellings, one evaluation per (path, operation) with '
        'operation in parse / identity / meta / events / table-sibling / mri-sibling, as relpath '
        'and through the file objects on marker files; meadows: every file-name shape x n_stim x '
        'every stimulus order x every participant order (mat) or task layout (json) x sort flag, one '
        'evaluation per loaded file; mne: every shape in {1,2,3}^3 x every event-code vector x '
        '(sfreq,tmin), one evaluation per EpochsArray (plus one FIF round trip per shape); design: '
        'every assignment of the onset grid to 1-3 conditions (each used) x TR x n_vols x confound '
        'table, one evaluation per make_design_matrix call; spm: every composition of <= 8 scans '
        'into 1-3 runs x every choice of 1-2 filter columns per run x voxel count x fill, one '
        'evaluation per spm_filter / get_residuals call. Non-trivial = the oracle can tell a '
        'wrong answer from a right one (e.g. the data have a component in the filter space); '
        'distinct = distinct case descriptor. bids_seq: every ordered pair (thorough: also every '
        'ordered triple) of files of a small dataset whose files differ from a base file in exactly '
        'one entity, the same look-up (or all look-ups) applied to each in turn through ONE BidsLayout, '
        'one evaluation per look-up. meadows stimulus names come from five alphabets, three of them '
        'with prefix pairs continued by characters on both sides of the dot. calls: per importer family '
        '(meadows, mne, design, spm) every ordered pair of a small menu of unlike inputs - A then B, '
        'and A twice on the very same input (spm: through the same SpmGlm object) - the later answer '
        'judged like any other and compared bit-for-bit with the answer given right after the importer '
        'module was re-initialised; bids_trees: two BidsLayout objects over two trees with the same '
        'relative paths, both orders. Every call is followed by a comparison of the caller-owned '
        'arguments (tables, arrays, dicts, file, file object) with their state before the call. '
        'Values ride on scales 1, 1e6, 1e-8 (meadows, mne, spm, confounds), TR 0.72 next to 1 and 2, '
        'BIDS / stimulus labels include numeric-looking ones (01 / 1 / 010 / 0) and prefixes.')
ASSUMPTIONS = [
    'BIDS labels are alphanumeric (BIDS specification); the path grammar is sub, ses, task, run, '
    'space, desc + suffix + extension with sub-/ses-/modality directories and an optional '
    'derivatives/<pipeline>/ prefix',
    'the entities a look-up is asked to change are: meta -> ext=json; events -> raw dataset '
    '(no derivative), no space, no desc, suffix=events, ext=tsv; table sibling -> desc, suffix, '
    'ext=tsv, no space; mri sibling -> desc, suffix',
    'Meadows .mat files store stimuli as a char matrix of file names (name.ext, blank padded) and '
    'all participants / tasks of one file share one stimulus order; json tree files store '
    'stimulus names without extension; RDM rows are identified by their participant / task '
    'descriptor (row order is not judged)',
    'task_index of a json tree file may be the 0- or 1-based position in the tasks list',
    'confound columns holding a missing value are not regressors (fmriprep derivative columns '
    'start with n/a); the order of the condition columns is not judged',
    'SpmGlm is fed through a patched loadmat (like the repository tests) with 2-D X0 matrices '
    'and an ndarray nscan; fidelity to real SPM.mat files read with simplify_cells is not judged',
    'FIF files store single precision: data read back from disk are compared at 1e-6 of the largest value',
    'event onsets are seconds from the first volume (BIDS); onsets on another clock (e.g. epoch time '
    '1696300000.0) put every event outside the scan, the column is constant and its normalisation '
    'undefined - excluded',
    'a caller-owned argument that is changed by a call is reported as modifies-argument:<arg>; this is '
    'the precondition for judging later calls on the same objects, not a clause of the statement',
]
TOL = 1e-9
TOLERANCES = {'design range/mean': TOL, 'spm projection': TOL, 'mne times vs epochs.times': 0.0,
              'mne times vs tmin + k/sfreq': 1e-9,
              'mne data (object)': 0.0, 'mne data (fif, float32)': '1e-6 of the largest value', 'meadows values': 0.0}
BOUNDS = {
    'quick': {'bids_spellings': ['plain', 'mixed'], 'meadows_n_stim': [3, 4], 'json_layout_len': 3,
              'mne_dims': [1, 2, 3], 'design_grid': [0.0, 3.0, 7.5, 12.0], 'design_dur': [1.0],
              'spm_max_scans': 8, 'spm_voxels': [1, 3], 'spm_fills': 2},
    'thorough': {'bids_spellings': ['plain', 'mixed', 'keywords', 'short'], 'meadows_n_stim': [3, 4, 5],
                 'json_layout_len': 4, 'mne_dims': [1, 2, 3, 4],
                 'design_grid': [0.0, 3.0, 7.5, 12.0, 16.5], 'design_dur': [1.0, 2.0],
                 'spm_max_scans': 10, 'spm_voxels': [1, 2, 3], 'spm_fills': 3},
}

# ----------------------------------------------------------------------------- scratch


def _scratch_base():
    return '/dev/shm' if os.path.isdir('/dev/shm') and os.access('/dev/shm', os.W_OK) else None


@contextlib.contextmanager
def _scratch(root=None):
    if root is not None:
        yield root
        return
    d = tempfile.mkdtemp(prefix='c20_', dir=_scratch_base())
    try:
        yield d
    finally:
        shutil.rmtree(d, ignore_errors=True)


# ------------------------------------------------------------------------------- shards
SPELLINGS = {
    'plain': dict(sub='01', ses='02', task='rest', run='1', space='MNI152NLin2009cAsym', desc='preproc'),
    'mixed': dict(sub='pilot7', ses='pre', task='Tx2', run='003', space='T1w', desc='smoothAROMAnonaggr'),
    'keywords': dict(sub='ses', ses='run', task='sub', run='task1', space='desc', desc='space'),
    'short': dict(sub='a', ses='b', task='c', run='0', space='d', desc='e'),
    # numeric-looking labels: leading zeros, '0', values that are prefixes of the other spelling's
    'numeric_a': dict(sub='1', ses='01', task='1back', run='10', space='2mm', desc='0'),
    'numeric_b': dict(sub='010', ses='1', task='01', run='01', space='10', desc='1'),
}
NUMERIC_SPELLINGS = ['numeric_a', 'numeric_b']
SUFFIXES = [('bold', 'nii.gz', 'func'), ('events', 'tsv', 'func'), ('mask', 'nii.gz', 'anat'),
            ('timeseries', 'tsv', 'func'), ('dseg', 'json', 'anat')]
TABLE_SIBLINGS = [('confounds', 'timeseries'), ('aparcaseg', 'dseg')]
MRI_SIBLINGS = [('brain', 'mask'), ('aparcaseg', 'dseg')]

CONFOUND_TABLES = ['none', 'two', 'nan_first', 'nan_middle', 'nan_last', 'nan_two_columns',
                   'nan_first_and_last', 'all_nan']
MEADOWS_PARTICIPANTS = ['cuddly-bunny', 'able-fly', 'clean-koi']


def _json_layouts(maxlen):
    out = []
    for n in range(1, maxlen + 1):
        for seq in itertools.product('MI', repeat=n):
            if 1 <= seq.count('M') <= 3:
                out.append(''.join(seq))
    # 'P' = a later multiarrange task listing the SAME stimuli in another order: the loader may skip
    # it (it warns about varying stimuli) or load it, but if it loads it the values must sit on the
    # right stimulus pairs
    out += ['MP', 'MPM', 'MIP', 'MMP'][:2 + (maxlen >= 3) * 2]
    return out


def _design_assignments(n_grid, n_cond):
    """every map grid point -> {0 (no event), 1..n_cond} that uses every condition"""
    for a in itertools.product(range(n_cond + 1), repeat=n_grid):
        if all(c in a for c in range(1, n_cond + 1)):
            yield a


def shards(tier, seed):
    b = BOUNDS[tier]
    thorough = tier == 'thorough'
    out = []
    for sp in b['bids_spellings']:
        for deriv in (None, 'fmriprep'):
            for suffix, ext, modality in SUFFIXES:
                out.append({'part': 'bids', 'spelling': sp, 'deriv': deriv, 'suffix': suffix,
                            'ext': ext, 'modality': modality})
    for k, sp in enumerate(NUMERIC_SPELLINGS):
        for deriv in ((None, 'fmriprep') if thorough else (None, 'fmriprep')[k:k + 1]):
            for suffix, ext, modality in (SUFFIXES if thorough else SUFFIXES[:1]):
                out.append({'part': 'bids', 'spelling': sp, 'deriv': deriv, 'suffix': suffix,
                            'ext': ext, 'modality': modality})
    for family in CALL_FAMILIES:
        out.append({'part': 'calls', 'family': family})
    out.append({'part': 'bids_trees'})
    out.append({'part': 'errors'})
    out.append({'part': 'spm_paths'})
    for ne in (2, 3):
        out.append({'part': 'mne_held', 'n_epochs': ne})
    for ds in FMRIPREP_DATASETS:
        out.append({'part': 'fmriprep', 'dataset': ds})
    for lay in SEQ_LAYOUTS:
        n_files = len(_seq_files(lay))
        for op in (SEQ_OPS if (thorough or lay != 'numeric') else ['all']):
            if thorough:
                for first in range(n_files):
                    out.append({'part': 'bids_seq', 'layout': lay, 'op': op, 'length': 3, 'first': [first]})
            out.append({'part': 'bids_seq', 'layout': lay, 'op': op, 'length': 2,
                        'first': list(range(n_files))})
    for shape in ('1p1t', '1pMt', 'Mp1t'):
        for n_stim in b['meadows_n_stim']:
            for sort in (True, False):
                orders = list(itertools.permutations(range(n_stim)))
                for chunk in combi.chunks(orders, max(1, len(orders) // 12)):
                    out.append({'part': 'meadows', 'shape': shape, 'n_stim': n_stim, 'sort': sort,
                                'orders': [list(o) for o in chunk]})
    for ne in b['mne_dims']:
        for nc in b['mne_dims']:
            out.append({'part': 'mne', 'n_epochs': ne, 'n_channel': nc})
    for n_cond in (1, 2, 3):
        for tr in (1.0, 2.0, 0.72):
            for n_vols in (20, 40):
                for conf in CONFOUND_TABLES + ['scaled']:
                    if not thorough:
                        # quick: the unusual TR and the unusual scales are crossed with one
                        # volume count and with each other, not with every n/a table
                        if tr == 0.72 and not (n_vols == 40 and conf == 'scaled'):
                            continue
                        if conf == 'scaled' and tr != 0.72 and not (tr == 1.0 and n_vols == 20):
                            continue
                    firsts = [[f] for f in range(n_cond + 1)] if thorough else [list(range(n_cond + 1))]
                    for first in firsts:
                        out.append({'part': 'design', 'n_cond': n_cond, 'tr': tr, 'n_vols': n_vols,
                                    'conf': conf, 'first': first})
    for total in range(1, b['spm_max_scans'] + 1):
        for runs in (1, 2, 3):
            if runs <= total:
                out.append({'part': 'spm', 'total': total, 'runs': runs})
    if not thorough:
        # interleave the parts so that the slow ones (mne) start early
        out.sort(key=lambda s: {'mne': 0, 'calls': 0, 'meadows': 1, 'bids': 2, 'bids_seq': 2, 'bids_trees': 2, 'fmriprep': -1, 'errors': -1, 'spm_paths': 2, 'mne_held': 0, 'design': 3, 'spm': 4}[s['part']])
    return out


def run_shard(shard, ctx):
    b = BOUNDS[ctx.tier]
    part = shard['part']
    if part == 'bids':
        with _scratch() as root:
            for present in ref.subsets(ref.OPTIONAL_ENTITIES):
                run_case({'part': 'bids', 'spelling': shard['spelling'], 'deriv': shard['deriv'],
                          'suffix': shard['suffix'], 'ext': shard['ext'],
                          'modality': shard['modality'], 'present': list(present)}, ctx, root)
    elif part == 'calls':
        with _scratch() as root:
            menu = _call_menu(shard['family'])
            for i in range(len(menu)):
                for j in range(len(menu)):
                    run_case({'part': 'calls', 'family': shard['family'], 'pair': [i, j]}, ctx, root)
    elif part == 'spm_paths':
        for group in SPM_DIR_SPELLINGS:
            for spelling in range(len(SPM_DIR_SPELLINGS[group])):
                for style in SPM_STORED_STYLES:
                    for via in ('relocate_file', 'rawdata_files', 'get_betas'):
                        run_case({'part': 'spm_paths', 'group': group, 'spelling': spelling, 'style': style,
                                  'via': via}, ctx)
    elif part == 'mne_held':
        ne = shard['n_epochs']
        for nc in ((1, 2) if ne == 2 else (2,)):
            for held in MNE_HOLDERS:
                run_case({'part': 'mne_held', 'n_epochs': ne, 'n_channel': nc, 'held': held, 'reject': False,
                          'bad': []}, ctx)
                for bad in ref.subsets(range(ne)):
                    if len(bad) < ne:
                        run_case({'part': 'mne_held', 'n_epochs': ne, 'n_channel': nc, 'held': held,
                                  'reject': True, 'bad': list(bad)}, ctx)
    elif part == 'errors':
        with _scratch() as root:
            for kind in ERROR_KINDS:
                run_case({'part': 'errors', 'kind': kind}, ctx, root)
    elif part == 'fmriprep':
        with _scratch() as root:
            for case in _fmriprep_cases(shard['dataset']):
                run_case(case, ctx, root)
    elif part == 'bids_trees':
        with _scratch() as root:
            for lay in (SEQ_LAYOUTS if ctx.tier == 'thorough' else SEQ_LAYOUTS[:2]):
                for idx in range(len(_seq_files(lay))):
                    for order in ('AB', 'BA'):
                        run_case({'part': 'bids_trees', 'layout': lay, 'file': idx, 'order': order}, ctx, root)
    elif part == 'bids_seq':
        with _scratch() as root:
            n_files = len(_seq_files(shard['layout']))
            for seq in itertools.permutations(range(n_files), shard['length']):
                if seq[0] in shard['first']:
                    run_case({'part': 'bids_seq', 'layout': shard['layout'], 'op': shard['op'],
                              'seq': list(seq)}, ctx, root)
    elif part == 'meadows':
        with _scratch() as root:
            for case in _meadows_cases(shard, b, ctx.tier):
                run_case(case, ctx, root)
    elif part == 'mne':
        with _scratch() as root:
            ne, nc = shard['n_epochs'], shard['n_channel']
            # every shape x every event-code vector; the timing menu is dealt out cyclically (quick:
            # 2 timings per (shape, codes), thorough: 4), so that every shard sees every timing
            per = 4 if ctx.tier == 'thorough' else 2
            k = 3 * nc + ne
            for nt in b['mne_dims']:
                for codes in itertools.product((11, 12, 13), repeat=ne):
                    for _ in range(per):
                        sfreq, first = MNE_TIMING[k % len(MNE_TIMING)]
                        k += 1
                        run_case({'part': 'mne', 'shape': [ne, nc, nt], 'codes': list(codes),
                                  'sfreq': sfreq, 'tmin': first / sfreq, 'via': 'object'}, ctx, root)
                for fname in ('sub-01_run-02_task-abc_epo.fif', 'plain-epo.fif'):
                    sfreq, first = MNE_TIMING[(k + 5) % len(MNE_TIMING)]
                    k += 1
                    run_case({'part': 'mne', 'shape': [ne, nc, nt],
                              'codes': [(11, 13, 12, 11)[i % 4] for i in range(ne)],
                              'sfreq': sfreq, 'tmin': first / sfreq, 'via': 'fif', 'fname': fname}, ctx, root)
    elif part == 'design':
        grid = b['design_grid']
        k = CONFOUND_TABLES.index(shard['conf']) if shard['conf'] in CONFOUND_TABLES else len(CONFOUND_TABLES)
        for assign in _design_assignments(len(grid), shard['n_cond']):
            if assign[0] not in shard['first']:
                continue
            for dur in b['design_dur']:
                for rows in (('onset', 'reversed') if ctx.tier == 'thorough' else ('onset',)):
                    # the sets of condition names are dealt out over the assignments and the shards
                    k += 1
                    run_case({'part': 'design', 'grid': grid, 'assign': list(assign),
                              'tr': shard['tr'], 'n_vols': shard['n_vols'], 'conf': shard['conf'],
                              'dur': dur, 'rows': rows, 'names': k % len(COND_NAME_SETS)}, ctx)
    elif part == 'spm':
        for nscans in combi.compositions(shard['total'], shard['runs']):
            for ncols in itertools.product((1, 2), repeat=shard['runs']):
                for nvox in b['spm_voxels']:
                    for fill in range(b['spm_fills']):
                        for route in ('spm_filter', 'get_residuals'):
                            run_case({'part': 'spm', 'nscans': list(nscans), 'ncols': list(ncols),
                                      'n_voxels': nvox, 'fill': fill, 'route': route}, ctx)
                if set(ncols) == {1}:
                    run_case({'part': 'spm', 'nscans': list(nscans), 'ncols': list(ncols), 'n_voxels': 2,
                              'fill': 0, 'route': 'get_betas'}, ctx)
    else:
        raise ValueError(part)


def run_case(case, ctx, root=None):
    part = case['part']
    before = ctx.evaluations
    try:
        _run_case(case, ctx, root)
    finally:
        ctx.count('evaluations ' + part, ctx.evaluations - before)


def _run_case(case, ctx, root=None):
    part = case['part']
    if part == 'bids':
        with _scratch(root) as d:
            _bids_case(case, ctx, d)
    elif part == 'bids_seq':
        with _scratch(root) as d:
            _bids_seq_case(case, ctx, d)
    elif part == 'bids_trees':
        with _scratch(root) as d:
            _bids_trees_case(case, ctx, d)
    elif part == 'fmriprep':
        with _scratch(root) as d:
            _fmriprep_case(case, ctx, d)
    elif part == 'errors':
        with _scratch(root) as d:
            _errors_case(case, ctx, d)
    elif part == 'spm_paths':
        _spm_paths_case(case, ctx)
    elif part == 'mne_held':
        _mne_held_case(case, ctx)
    elif part == 'calls':
        with _scratch(root) as d:
            _calls_case(case, ctx, d)
    elif part == 'meadows':
        with _scratch(root) as d:
            _meadows_case(case, ctx, d)
    elif part == 'mne':
        with _scratch(root) as d:
            _mne_case(case, ctx, d)
    elif part == 'design':
        _design_case(case, ctx)
    elif part == 'spm':
        _spm_case(case, ctx)
    else:
        raise ValueError(part)


# --------------------------------------------------------------------------------- BIDS
class _Image:
    def __init__(self, path):
        self.path = path

    def get_fdata(self):
        return self.path


class _NibabelStub:
    """stands in for nibabel: load(path).get_fdata() hands back the path that was opened"""

    @staticmethod
    def load(path):
        return _Image(path)


def _path_diff(expected, got):
    """failure kind from two relative paths, in terms of entity *names* only"""
    e_dir, e_name = os.path.split(os.path.normpath(expected))
    g_dir, g_name = os.path.split(os.path.normpath(str(got)))
    kinds = []
    if e_dir != g_dir:
        kinds.append('directory')
    e_seg, g_seg = e_name.split('_'), g_name.split('_')
    e_keys = [s.split('-')[0] for s in e_seg[:-1]]
    g_keys = [s.split('-')[0] for s in g_seg[:-1]]
    missing = [k for k in e_keys if k not in g_keys]
    extra = [k for k in g_keys if k not in e_keys]
    if missing:
        kinds.append('missing:' + '+'.join(k if k in ref.FNAME_ENTITIES else '?' for k in missing))
    if extra:
        kinds.append('extra:' + '+'.join(k if k in ref.FNAME_ENTITIES else '?' for k in extra))
    if not missing and not extra:
        if e_keys != g_keys:
            kinds.append('entity-order')
        elif e_seg[:-1] != g_seg[:-1]:
            kinds.append('value:' + '+'.join(k for k, a, c in zip(e_keys, e_seg, g_seg) if a != c))
    if e_seg[-1] != g_seg[-1]:
        kinds.append('suffix-ext')
    return ','.join(kinds) or 'path'


def _bids_file(relpath, layout, ext):
    from rsatoolbox.io import bids
    if ext == 'tsv':
        return bids.BidsTableFile(relpath, layout)
    if ext == 'json':
        return bids.BidsJsonFile(relpath, layout)
    return bids.BidsMriFile(relpath, layout, _NibabelStub)


def _write_marker(root, relpath, tag=''):
    path = os.path.join(root, relpath)
    os.makedirs(os.path.dirname(path), exist_ok=True)
    if relpath.endswith('.json'):
        with open(path, 'w') as fh:
            fh.write('{"marker": "%s%s"}' % (tag, relpath))
    elif relpath.endswith('.tsv'):
        with open(path, 'w') as fh:
            fh.write('marker\tn\n%s%s\t1\n' % (tag, relpath))
    else:
        with open(path, 'w') as fh:
            fh.write(tag + relpath)
    return path


def _bids_case(case, ctx, root):
    from rsatoolbox.io import bids
    ent = ref.bids_entities(case['present'], SPELLINGS[case['spelling']], case['suffix'],
                            case['ext'], case['modality'], case['deriv'])
    relpath = ref.bids_relpath(ent)
    klass = 'derivative' if case['deriv'] else 'raw'
    layout = bids.BidsLayout(root, nibabel=_NibabelStub)

    # ---- parse
    sub = dict(case, op='parse')
    ctx.case(sub)
    base = None
    parsed_ok = True
    with ctx.guard('BidsFile.parse|%s' % klass, sub):
        base = _bids_file(relpath, layout, case['ext'])
        for key in ref.ALL_KEYS:
            got = getattr(base, key, '<no attribute>')
            if got != ent[key]:
                parsed_ok = False
                ctx.fail('BidsFile.parse|%s|entity=%s' % (klass, key), sub,
                         'path %s: %s parsed as %r, written %r' % (relpath, key, got, ent[key]))
        if os.path.normpath(str(base.relpath)) != os.path.normpath(relpath):
            ctx.fail('BidsFile.parse|%s|relpath' % klass, sub, '%r vs %r' % (base.relpath, relpath))
        ctx.outcome(('parse', tuple(getattr(base, k, None) is None for k in ref.ALL_KEYS)))
    if base is None or not parsed_ok:
        ctx.count('bids look-ups skipped because the path was already parsed wrongly')
        return

    # ---- look-ups as paths
    lookups = [('identity', 'find_mri_sibling_of', None, None), ('meta', 'find_meta_for', None, None),
               ('events', 'find_events_for', None, None)]
    lookups += [('table_sibling', 'find_table_sibling_of', d, s) for d, s in TABLE_SIBLINGS]
    lookups += [('mri_sibling', 'find_mri_sibling_of', d, s) for d, s in MRI_SIBLINGS]
    path_ok = {}
    for lookup, method, desc, suffix in lookups:
        sub = dict(case, op=lookup, desc=desc, sibling_suffix=suffix)
        ctx.case(sub)
        want_ent = ref.with_changes(ent, ref.lookup_changes(lookup, desc, suffix))
        want = ref.bids_relpath(want_ent)
        sigp = 'BidsLayout.%s%s|relpath' % (method, '(identity)' if lookup == 'identity' else '')
        path_ok[(lookup, desc, suffix)] = False
        with ctx.guard(sigp, sub):
            if lookup == 'identity':
                found = layout.find_mri_sibling_of(base, desc=base.desc, suffix=base.suffix)
            elif lookup in ('meta', 'events'):
                found = getattr(layout, method)(base)
            else:
                found = getattr(layout, method)(base, desc=desc, suffix=suffix)
            got = os.path.normpath(str(found.relpath))
            ctx.outcome((lookup, tuple(ref.changed_keys(ent, want_ent))))
            if got != os.path.normpath(want):
                ctx.fail('%s|%s' % (sigp, _path_diff(want, got)), sub,
                         'base %s: got %s, expected %s' % (relpath, got, want))
                continue
            path_ok[(lookup, desc, suffix)] = True
            # the object that comes back must describe the path it carries
            for key in ref.ALL_KEYS:
                if getattr(found, key, '<no attribute>') != want_ent[key]:
                    ctx.fail('%s|returned-object-entity=%s' % (sigp, key), sub,
                             'returned %s reports %s=%r' % (got, key, getattr(found, key, None)))

    # ---- the file object handed to the look-ups is the caller's: it must still describe its path
    after = {k: getattr(base, k, '<no attribute>') for k in ref.ALL_KEYS}
    changed = [k for k in ref.ALL_KEYS if after[k] != ent[k]]
    if changed or os.path.normpath(str(base.relpath)) != os.path.normpath(relpath):
        ctx.fail('BidsLayout.find_*|relpath|modifies-argument:base', dict(case, op='look-ups'),
                 'after the look-ups the base file %s reports %r (relpath %r)' % (
                     relpath, {k: after[k] for k in changed}, base.relpath))

    # ---- the same look-ups through the file objects, against marker files on disk
    mri = bids.BidsMriFile(relpath, layout, _NibabelStub)
    disk = [('meta', 'BidsFile.get_meta', None, None), ('events', 'BidsMriFile.get_events', None, None)]
    disk += [('table_sibling', 'BidsFile.get_table_sibling', d, s) for d, s in TABLE_SIBLINGS[:1]]
    disk += [('mri_sibling', 'BidsMriFile.get_mri_sibling', d, s) for d, s in MRI_SIBLINGS[:1]]
    for lookup, name, desc, suffix in disk:
        sub = dict(case, op='disk:' + lookup, desc=desc, sibling_suffix=suffix)
        if not path_ok.get((lookup, desc, suffix)):
            ctx.count('bids disk look-ups skipped because the path look-up already failed')
            continue
        ctx.case(sub)
        want = ref.bids_relpath(ref.with_changes(ent, ref.lookup_changes(lookup, desc, suffix)))
        wpath = _write_marker(root, want)
        sigp = '%s|disk' % name
        try:
            with ctx.guard(sigp, sub):
                if lookup == 'meta':
                    got = mri.get_meta().get('marker')
                elif lookup == 'events':
                    got = mri.get_events()['marker'][0]
                elif lookup == 'table_sibling':
                    got = mri.get_table_sibling(desc=desc, suffix=suffix).get_frame()['marker'][0]
                else:
                    got = os.path.relpath(mri.get_mri_sibling(desc=desc, suffix=suffix).get_data(), root)
                if os.path.normpath(str(got)) != os.path.normpath(want):
                    ctx.fail(sigp + '|wrong-file', sub, 'opened %r, expected %r' % (got, want))
        finally:
            os.remove(wpath)


# ------------------------------------------------- BIDS: sequences of look-ups on ONE layout
SEQ_LAYOUTS = ['deriv_full', 'raw_task', 'numeric']
SEQ_OPS = ['find_meta_for', 'get_meta', 'find_events_for', 'get_events', 'get_table_sibling',
           'get_mri_sibling', 'all']
_SEQ_LOOKUP = {'find_meta_for': ('meta', None, None), 'get_meta': ('meta', None, None),
               'find_events_for': ('events', None, None), 'get_events': ('events', None, None),
               'get_table_sibling': ('table_sibling',) + TABLE_SIBLINGS[0],
               'get_mri_sibling': ('mri_sibling',) + MRI_SIBLINGS[0]}
_SEQ_READY = set()


def _seq_files(name):
    """a small dataset: one file plus every file that differs from it in exactly one entity
    (another value of each entity it has, another suffix, desc present / absent, raw /
    derivative)"""
    v, alt = SPELLINGS['plain'], SPELLINGS['mixed']
    if name == 'deriv_full':
        base = ref.bids_entities(ref.OPTIONAL_ENTITIES, v, 'bold', 'nii.gz', 'func', 'fmriprep')
    elif name == 'raw_task':
        base = ref.bids_entities(('task',), v, 'bold', 'nii.gz', 'func', None)
    elif name == 'numeric':
        # numeric-looking labels and labels that are prefixes of one another: sub 01 / 1 / 010,
        # run 1 / 01 / 10, task rest / rest2, desc pre / preproc
        base = ref.bids_entities(('task', 'run', 'desc'), dict(sub='01', task='rest', run='1', desc='pre'),
                                 'bold', 'nii.gz', 'func', 'fmriprep')
        return [base] + [ref.with_changes(base, ch) for ch in (
            {'sub': '1'}, {'sub': '010'}, {'run': '01'}, {'run': '10'}, {'task': 'rest2'},
            {'desc': 'preproc'}, {'desc': 'p'})]
    else:
        raise ValueError(name)
    files = [base]
    for key in ref.FNAME_ENTITIES:
        if base[key] is not None:
            files.append(ref.with_changes(base, {key: alt[key]}))
    files.append(ref.with_changes(base, {'suffix': 'boldref'}))
    if base['desc'] is None:
        files.append(ref.with_changes(base, {'desc': v['desc']}))
        files.append(ref.with_changes(base, {'desc': alt['desc']}))
    else:
        files.append(ref.with_changes(base, {'desc': None}))
    files.append(ref.with_changes(base, {'derivative': None if base['derivative'] else 'fmriprep'}))
    return files


def _bids_seq_case(case, ctx, root):
    """the look-up `op` applied to the files seq[0], seq[1], ... through one BidsLayout; every
    answer must be the one the file would get on its own"""
    from rsatoolbox.io import bids
    files = _seq_files(case['layout'])
    key = (root, case['layout'])
    if key not in _SEQ_READY:
        for ent in files:
            for lookup, desc, suffix in set(_SEQ_LOOKUP.values()):
                _write_marker(root, ref.bids_relpath(ref.with_changes(ent, ref.lookup_changes(lookup, desc, suffix))))
        _SEQ_READY.add(key)
    layout = bids.BidsLayout(root, nibabel=_NibabelStub)
    ops = [o for o in SEQ_OPS if o != 'all'] if case['op'] == 'all' else [case['op']]
    for pos, idx in enumerate(case['seq']):
        ent = files[idx]
        relpath = ref.bids_relpath(ent)
        for op in ops:
            lookup, desc, suffix = _SEQ_LOOKUP[op]
            sub = dict(case, position=pos, lookup=op)
            ctx.case(sub, nontrivial=pos > 0 or len(ops) > 1)
            want_ent = ref.with_changes(ent, ref.lookup_changes(lookup, desc, suffix))
            want = ref.bids_relpath(want_ent)
            when = 'first-look-up' if pos == 0 and op == ops[0] else 'after-earlier-look-ups'
            owner = 'BidsLayout' if op.startswith('find_') else ('BidsFile' if op in ('get_meta', 'get_table_sibling') else 'BidsMriFile')
            sigp = '%s.%s|%s' % (owner, op, when)
            with ctx.guard(sigp, sub):
                base = bids.BidsMriFile(relpath, layout, _NibabelStub)     # a fresh file object
                if op == 'find_meta_for':
                    found = layout.find_meta_for(base)
                    got = found.relpath
                elif op == 'find_events_for':
                    found = layout.find_events_for(base)
                    got = found.relpath
                elif op == 'get_meta':
                    found, got = None, base.get_meta().get('marker')
                elif op == 'get_events':
                    found, got = None, base.get_events()['marker'][0]
                elif op == 'get_table_sibling':
                    found = base.get_table_sibling(desc=desc, suffix=suffix)
                    got = found.get_frame()['marker'][0]
                else:
                    found = base.get_mri_sibling(desc=desc, suffix=suffix)
                    got = os.path.relpath(found.get_data(), root)
                got = os.path.normpath(str(got))
                ctx.outcome(('seq', op, pos, tuple(ref.changed_keys(ent, want_ent))))
                if got != os.path.normpath(want):
                    ctx.fail('%s|%s' % (sigp, _path_diff(want, got)), sub,
                             'look-ups on one layout for %r: %s of %s answered %s, expected %s' % (
                                 [ref.bids_relpath(files[i]) for i in case['seq'][:pos + 1]], op, relpath,
                                 got, want))
                    continue
                if found is not None:
                    for k in ref.ALL_KEYS:
                        if getattr(found, k, '<no attribute>') != want_ent[k]:
                            ctx.fail('%s|returned-object-entity=%s' % (sigp, k), sub,
                                     'returned %s reports %s=%r' % (got, k, getattr(found, k, None)))


def _bids_trees_case(case, ctx, root):
    """two BidsLayout objects over two different trees that hold the same relative paths: each
    must read its own tree, whichever was constructed / used first"""
    from rsatoolbox.io import bids
    files = _seq_files(case['layout'])
    ent = files[case['file']]
    relpath = ref.bids_relpath(ent)
    roots = {t: os.path.join(root, 'tree' + t) for t in 'AB'}
    key = (root, case['layout'], 'trees')
    if key not in _SEQ_READY:
        for t in 'AB':
            for e in files:
                for lookup, desc, suffix in set(_SEQ_LOOKUP.values()):
                    _write_marker(roots[t], ref.bids_relpath(
                        ref.with_changes(e, ref.lookup_changes(lookup, desc, suffix))), tag=t + ':')
        _SEQ_READY.add(key)
    layouts = {t: bids.BidsLayout(roots[t], nibabel=_NibabelStub) for t in case['order']}
    for op in ('get_meta', 'get_events', 'get_table_sibling', 'get_mri_sibling'):
        lookup, desc, suffix = _SEQ_LOOKUP[op]
        want = ref.bids_relpath(ref.with_changes(ent, ref.lookup_changes(lookup, desc, suffix)))
        for pos, t in enumerate(case['order']):
            sub = dict(case, lookup=op, tree=t)
            ctx.case(sub)
            sigp = '%s|two-layouts,%s' % (op, 'first-layout' if pos == 0 else 'second-layout')
            with ctx.guard(sigp, sub):
                base = bids.BidsMriFile(relpath, layouts[t], _NibabelStub)
                if op == 'get_meta':
                    got = base.get_meta().get('marker')
                elif op == 'get_events':
                    got = base.get_events()['marker'][0]
                elif op == 'get_table_sibling':
                    got = base.get_table_sibling(desc=desc, suffix=suffix).get_frame()['marker'][0]
                else:
                    got = base.get_mri_sibling(desc=desc, suffix=suffix).get_data()
                    got = t + ':' + os.path.relpath(got, roots[t]) if str(got).startswith(roots[t] + os.sep) \
                        else 'other-tree:' + str(got)
                if str(got) != t + ':' + want:
                    ctx.fail(sigp + '|wrong-tree-or-file', sub,
                             'layout over tree %s answered %r for %s, expected %r' % (t, got, relpath, t + ':' + want))


# ------------------------------------------- a small fmriprep dataset on disk (mock nibabel)
FMRIPREP_DATASETS = {'ses_space': dict(ses='02', space='MNI152NLin2009cAsym'), 'plain': dict(ses=None, space=None)}
FP_DESCS = ['preproc', 'pre', 'brain', 'confounds', 'aparcaseg', 'absent']
FP_TASKS = [None, ['rest'], ['rest2'], ['rest', 'rest2'], ['rest2', 'rest'], ['nothere']]
FP_CONFOUNDS = ['global_signal', 'csf', 'white_matter', 'trans_x', 'trans_y', 'trans_z', 'rot_x', 'rot_y', 'rot_z']
VOL_SHAPE, N_T = (2, 2, 1), 3
_FP_READY = {}


class _ArrayImage:
    def __init__(self, arr):
        self._arr = arr
        self.shape = arr.shape

    def get_fdata(self):
        return np.array(self._arr, dtype=float)


class _DataNibabel:
    """mock nibabel whose load(path) gives the array the harness registered for that path (every
    file has its own values, so an answer tells WHICH file was read); unknown paths give -1"""

    def __init__(self, registry):
        self.registry = registry
        self.loaded = []

    def load(self, path):
        self.loaded.append(path)
        arr = self.registry.get(os.path.normpath(path))
        return _ArrayImage(arr if arr is not None else -np.ones(VOL_SHAPE + (N_T,)))


def _fmriprep_entities(name):
    """entity dicts of every file of the dataset"""
    extra = FMRIPREP_DATASETS[name]
    out = []
    for sub in ('01', '02'):
        for task in ('rest', 'rest2'):
            present = ['task', 'run'] + [k for k in ('ses', 'space') if extra[k]]
            vals = dict(sub=sub, task=task, run='1', ses=extra['ses'], space=extra['space'])
            for desc in ('preproc', 'pre'):
                bold = ref.bids_entities(present + ['desc'], dict(vals, desc=desc), 'bold', 'nii.gz', 'func', 'fmriprep')
                out += [bold, ref.with_changes(bold, {'ext': 'json'})]
            base = ref.bids_entities(present + ['desc'], dict(vals, desc='preproc'), 'bold', 'nii.gz', 'func', 'fmriprep')
            out.append(ref.with_changes(base, ref.lookup_changes('mri_sibling', 'brain', 'mask')))
            out.append(ref.with_changes(base, ref.lookup_changes('mri_sibling', 'aparcaseg', 'dseg')))
            out.append(ref.with_changes(base, ref.lookup_changes('table_sibling', 'confounds', 'timeseries')))
            out.append(ref.with_changes(base, ref.lookup_changes('events')))
    # the same recording in another pipeline: never to be found under 'fmriprep'
    out.append(ref.bids_entities(['task', 'run', 'desc'], dict(sub='01', task='rest', run='1', desc='preproc'),
                                 'bold', 'nii.gz', 'func', 'otherpipe'))
    return out


def _fmriprep_build(root, name):
    """write the dataset below root (once per scratch directory); returns (entities, registry)"""
    key = (root, name)
    if key in _FP_READY:
        return _FP_READY[key]
    base = os.path.join(root, 'fp_' + name)
    ents = _fmriprep_entities(name)
    registry = {}
    n_vox = int(np.prod(VOL_SHAPE))
    for k, ent in enumerate(ents):
        rel = ref.bids_relpath(ent)
        path = os.path.normpath(os.path.join(base, rel))
        os.makedirs(os.path.dirname(path), exist_ok=True)
        if ent['ext'] == 'json':
            with open(path, 'w') as fh:
                fh.write('{"marker": "%s", "RepetitionTime": %d}' % (rel, k))
        elif ent['suffix'] == 'events':
            with open(path, 'w') as fh:
                fh.write('onset\tduration\ttrial_type\tmarker\n0.0\t1.0\ta\t%s\n2.5\t1.0\tb\t%s\n' % (rel, rel))
        elif ent['suffix'] == 'timeseries':
            cols = FP_CONFOUNDS[::-1] + ['extra', 'trans_x_derivative1']
            with open(path, 'w') as fh:
                fh.write('\t'.join(cols) + '\n')
                for r in range(N_T):
                    vals = ['%r' % (100.0 * k + FP_CONFOUNDS.index(c) + 0.001 * r) if c in FP_CONFOUNDS else
                            ('n/a' if (c != 'extra' and r == 0) else '%r' % (-1.0 - r)) for c in cols]
                    fh.write('\t'.join(vals) + '\n')
        else:
            open(path, 'w').close()
            if ent['suffix'] == 'bold':
                arr = np.zeros(VOL_SHAPE + (N_T,))
                for v, idx in enumerate(np.ndindex(*VOL_SHAPE)):
                    for t in range(N_T):
                        arr[idx + (t,)] = 1000 * k + 10 * v + t
            elif ent['suffix'] == 'mask':
                bits = [((k + 5) >> i) & 1 for i in range(n_vox)]
                if sum(bits) in (0, n_vox):
                    bits = [1, 0, 1, 0][:n_vox]
                arr = np.array(bits, dtype=float).reshape(VOL_SHAPE)
            else:                               # dseg: parcel numbers 1..3
                arr = np.array([1 + (k + 2 * v) % 3 for v in range(n_vox)], dtype=float).reshape(VOL_SHAPE)
            registry[path] = arr
    keypath = os.path.join(base, 'derivatives', 'fmriprep', 'desc-aparcaseg_dseg.tsv')
    with open(keypath, 'w') as fh:
        fh.write('index\tname\n1\tparcel-one\n2\tparcel-two\n3\tparcel-three\n')
    _FP_READY[key] = (base, ents, registry)
    return _FP_READY[key]


def _fmriprep_cases(name):
    for desc in FP_DESCS:
        for tasks in FP_TASKS:
            yield {'part': 'fmriprep', 'dataset': name, 'op': 'find_mri_derivative_files', 'desc': desc, 'tasks': tasks}
    yield {'part': 'fmriprep', 'dataset': name, 'op': 'find_mri_derivative_files', 'derivative': 'nosuchpipe',
           'desc': 'preproc', 'tasks': None}
    for tasks in FP_TASKS:
        yield {'part': 'fmriprep', 'dataset': name, 'op': 'find_fmriprep_runs', 'tasks': tasks}
    n_bold = sum(1 for e in _fmriprep_entities(name) if e['suffix'] == 'bold' and e['ext'] == 'nii.gz'
                 and e['derivative'] == 'fmriprep')
    for i in range(n_bold):
        for acc in FP_ACCESSORS:
            yield {'part': 'fmriprep', 'dataset': name, 'op': 'run:' + acc, 'bold': i}


FP_ACCESSORS = ['entities', 'get_data', 'get_data_masked', 'get_mask', 'get_events', 'get_meta', 'get_confounds',
                'get_confounds_named', 'get_parcellation', 'to_descriptors', 'to_descriptors_masked', 'repr']


class _Observer:
    """The statement speaks about parsing, rebuilding and the sibling / events / metadata look-ups, not
    about which files the derivative FINDER enumerates.  On the pinned tree the finder filters by substring
    ('desc-pre' also returns 'desc-preproc' files, 'task-rest' also 'task-rest2', a task list can return a
    file twice) - worth a maintainer's attention, but demanding exact entity matching here would be more
    than the property states.  The finder is therefore executed (so that the accessors are judged on what it
    returns) and its filter behaviour is recorded as an observation in the evidence, never as a violation."""

    def __init__(self, ctx):
        self.ctx = ctx

    def fail(self, sig, case, msg):
        self.ctx.count('observation:' + sig)
        self.ctx.note('observation:' + sig, msg[:300])


def _judge_found(ctx, sigp, case, got, want, ents_by_path, desc, tasks, sorted_required):
    ctx = _Observer(ctx)
    extra = [g for g in got if g not in want]
    missing = [w for w in want if w not in got]
    if len(set(got)) != len(got):
        ctx.fail(sigp + '|file-returned-twice', case, 'returned %r' % got)
    for g in sorted(set(extra)):
        ent = ents_by_path.get(g)
        if ent is None:
            kind = 'not-a-file-of-the-dataset'
        elif ent['ext'] == 'json':
            kind = 'json-side-car'
        elif ent.get('desc') != desc:
            kind = 'other-desc'
        elif tasks is not None and ent.get('task') not in tasks:
            kind = 'other-task'
        else:
            kind = 'other-pipeline'
        ctx.fail('%s|returns-file-of-%s' % (sigp, kind), case,
                 'asked desc=%r tasks=%r: returned %s (all: %r; expected %r)' % (desc, tasks, g, got, want))
    if missing:
        ctx.fail(sigp + '|file-missing', case, 'asked desc=%r tasks=%r: %r not returned (got %r)' % (
            desc, tasks, missing, got))
    if not extra and not missing and sorted_required and got != sorted(got):
        ctx.fail(sigp + '|not-sorted', case, 'returned %r' % got)


def _fmriprep_case(case, ctx, root):
    import sys
    import types
    from rsatoolbox.io import bids, fmriprep
    base, ents, registry = _fmriprep_build(root, case['dataset'])
    ents_by_path = {os.path.normpath(ref.bids_relpath(e)): e for e in ents}
    nib = _DataNibabel(registry)
    op = case['op']
    ctx.case(case)
    if op == 'find_mri_derivative_files':
        deriv = case.get('derivative', 'fmriprep')
        desc, tasks = case['desc'], case['tasks']
        sigp = 'BidsLayout.find_mri_derivative_files|%s' % ('all-tasks' if tasks is None else 'task-list')
        layout = bids.BidsLayout(base, nibabel=nib)
        if deriv != 'fmriprep':
            try:
                out = layout.find_mri_derivative_files(derivative=deriv, desc=desc, tasks=tasks)
            except ValueError:
                ctx.outcome(('find', 'no-such-derivative', 'ValueError'))
                return
            with ctx.guard(sigp, case):
                if list(out):
                    ctx.fail(sigp + '|returns-file-of-other-pipeline', case, 'no such derivative, returned %r' % (out,))
            return
        with ctx.guard(sigp, case):
            out = layout.find_mri_derivative_files(derivative=deriv, desc=desc, tasks=tasks)
            got = [os.path.normpath(str(f.relpath)) for f in out]
            want = ref.derivative_files(ents, deriv, desc, tasks)
            ctx.outcome(('find', desc, tuple(tasks or ()), len(want)))
            _judge_found(ctx, sigp, case, got, want, ents_by_path, desc, tasks, tasks is None)
            for f, g in zip(out, got):
                ent = ents_by_path.get(g)
                for key in (ref.ALL_KEYS if ent else ()):
                    if getattr(f, key, '<no attribute>') != ent[key]:
                        ctx.fail('%s|returned-object-entity=%s' % (sigp, key), case,
                                 '%s reports %s=%r' % (g, key, getattr(f, key, None)))
        return
    if op == 'find_fmriprep_runs':
        tasks = case['tasks']
        sigp = 'find_fmriprep_runs|%s' % ('all-tasks' if tasks is None else 'task-list')
        fake = types.ModuleType('nibabel')
        fake.load = nib.load
        had = sys.modules.get('nibabel')
        sys.modules['nibabel'] = fake
        try:
            with ctx.guard(sigp, case):
                runs = fmriprep.find_fmriprep_runs(base, tasks=tasks)
                got = [os.path.normpath(str(r.boldFile.relpath)) for r in runs]
                want = [p for p in ref.derivative_files(ents, 'fmriprep', 'preproc', tasks)
                        if ents_by_path[p]['suffix'] == 'bold']
                ctx.outcome(('runs', tuple(tasks or ()), len(want)))
                _judge_found(ctx, sigp, case, got, want, ents_by_path, 'preproc', tasks, tasks is None)
                for r, g in zip(runs, got):
                    if g in want and float(np.asarray(r.get_data())[0, 0]) != float(
                            registry[os.path.normpath(os.path.join(base, g))].reshape(-1, N_T)[0, 0]):
                        ctx.fail(sigp + '|run-reads-another-file', case, 'run of %s' % g)
        finally:
            if had is None:
                sys.modules.pop('nibabel', None)
            else:
                sys.modules['nibabel'] = had
        return
    # ---- accessors of one run
    bolds = [e for e in ents if e['suffix'] == 'bold' and e['ext'] == 'nii.gz' and e['derivative'] == 'fmriprep']
    ent = bolds[case['bold']]
    rel = ref.bids_relpath(ent)

    def path_of(lookup, desc=None, suffix=None):
        return os.path.normpath(os.path.join(base, ref.bids_relpath(
            ref.with_changes(ent, ref.lookup_changes(lookup, desc, suffix)))))

    acc = op.split(':', 1)[1]
    sigp = 'FmriprepRun.%s|%s' % (acc, 'desc-is-prefix-of-another' if ent['desc'] == 'pre' else 'plain')
    layout = bids.BidsLayout(base, nibabel=nib)
    bold_arr = registry[os.path.normpath(os.path.join(base, rel))]
    mask_arr = registry[path_of('mri_sibling', 'brain', 'mask')].astype(bool)
    parc_arr = registry[path_of('mri_sibling', 'aparcaseg', 'dseg')].astype(int)
    names = {1: 'parcel-one', 2: 'parcel-two', 3: 'parcel-three'}
    k_conf = [i for i, e in enumerate(ents) if os.path.normpath(os.path.join(base, ref.bids_relpath(e))) ==
              path_of('table_sibling', 'confounds', 'timeseries')][0]
    with ctx.guard(sigp, case):
        run = fmriprep.FmriprepRun(bids.BidsMriFile(rel, layout, nib))
        ctx.outcome(('run', acc, case['bold'] % 2))

        def mismatch(what, got, want):
            ctx.fail('%s|%s' % (sigp, what), case, 'run %s: got %r, expected %r' % (rel, got, want))
        if acc == 'entities':
            for key in ('sub', 'ses', 'run'):
                if getattr(run, key) != ent[key]:
                    mismatch('entity=' + key, getattr(run, key), ent[key])
            dd = run.get_dataset_descriptors()
            for key in ('sub', 'ses', 'run', 'task'):
                if (dd.get(key) if ent[key] else None) != ent[key] or (not ent[key] and key in dd):
                    mismatch('dataset-descriptor=' + key, dd.get(key), ent[key])
        elif acc == 'get_data':
            got = np.asarray(run.get_data())
            if got.shape != (bold_arr.size // N_T, N_T) or not np.array_equal(got, bold_arr.reshape(-1, N_T)):
                mismatch('wrong-data', got.tolist(), bold_arr.reshape(-1, N_T).tolist())
        elif acc == 'get_data_masked':
            got = np.asarray(run.get_data(masked=True))
            want = np.array([bold_arr[idx] for idx in np.ndindex(*VOL_SHAPE) if mask_arr[idx]])
            if got.shape != want.shape or not np.array_equal(got, want):
                mismatch('not-the-mask-voxels', got.tolist(), want.tolist())
        elif acc == 'get_mask':
            got = np.asarray(run.get_mask())
            if got.dtype != bool or not np.array_equal(got, mask_arr):
                mismatch('wrong-mask', got.tolist(), mask_arr.tolist())
        elif acc == 'get_events':
            got = run.get_events()
            want = os.path.normpath(ref.bids_relpath(ref.with_changes(ent, ref.lookup_changes('events'))))
            if list(got['marker']) != [want, want] or list(got['trial_type']) != ['a', 'b']:
                mismatch('wrong-file', list(got.get('marker', [])), want)
        elif acc == 'get_meta':
            got = run.get_meta()
            want = os.path.normpath(ref.bids_relpath(ref.with_changes(ent, ref.lookup_changes('meta'))))
            if got.get('marker') != want:
                mismatch('wrong-file', got.get('marker'), want)
        elif acc in ('get_confounds', 'get_confounds_named'):
            cols = FP_CONFOUNDS if acc == 'get_confounds' else ['rot_z', 'trans_x']
            got = run.get_confounds() if acc == 'get_confounds' else run.get_confounds(cf_names=list(cols))
            want = [[100.0 * k_conf + FP_CONFOUNDS.index(c) + 0.001 * r for c in cols] for r in range(N_T)]
            if list(got.columns) != list(cols):
                mismatch('columns', list(got.columns), list(cols))
            elif not np.array_equal(np.asarray(got.values, dtype=float), np.array(want)):
                mismatch('wrong-file-or-values', got.values.tolist(), want)
        elif acc == 'get_parcellation':
            got = np.asarray(run.get_parcellation())
            if not np.array_equal(got, parc_arr):
                mismatch('wrong-file', got.tolist(), parc_arr.tolist())
            lab = run.get_parcellation_labels()
            if [str(lab.loc[i]['name']) for i in (1, 2, 3)] != [names[i] for i in (1, 2, 3)]:
                mismatch('labels', lab.to_dict(), names)
        elif acc in ('to_descriptors', 'to_descriptors_masked'):
            masked = acc.endswith('masked')
            d = run.to_descriptors(collapse_by_trial_type=False, masked=masked)
            want_ch = [names[int(parc_arr[idx])] for idx in np.ndindex(*VOL_SHAPE) if (mask_arr[idx] or not masked)]
            got_ch = [str(v) for v in d['channel_descriptors'].get('aparcaseg', [])]
            if got_ch != want_ch:
                mismatch('channel-labels', got_ch, want_ch)
            if [str(v) for v in d['obs_descriptors'].get('trial_type', [])] != ['a', 'b']:
                mismatch('trial_type', d['obs_descriptors'], ['a', 'b'])
            for key in ('sub', 'ses', 'run', 'task'):
                if ent[key] and d['descriptors'].get(key) != ent[key]:
                    mismatch('dataset-descriptor=' + key, d['descriptors'].get(key), ent[key])
        elif acc == 'repr':
            text = repr(run)
            tail = os.path.relpath(rel, os.path.join('derivatives', 'fmriprep'))
            if tail not in text:
                mismatch('repr', text, tail)
        else:
            raise ValueError(acc)


# ---------------------------------------------- SpmGlm: every spelling of one GLM directory
def _spm_dir_spellings():
    import pathlib
    a = '/data/my proj/glm_firstlevel'
    r = 'proj/glm_firstlevel'
    return {'absolute': [a, a + '/', a + '/.', a + '//', '/data//my proj/glm_firstlevel', '/data/./my proj/glm_firstlevel/',
                         '/data/other/../my proj/glm_firstlevel', pathlib.Path(a)],
            'relative': [r, r + '/', './' + r, r + '/.', 'proj//glm_firstlevel', pathlib.Path(r)],
            # a GLM directory named without any parent: the project is the working directory
            'bare': ['glm_firstlevel', 'glm_firstlevel/', './glm_firstlevel']}


SPM_DIR_SPELLINGS = _spm_dir_spellings()
SPM_PROJECT = {'absolute': '/data/my proj', 'relative': 'proj', 'bare': '.'}
# file names as SPM stores them on the machine that estimated the GLM (',<volume>' + two blanks)
SPM_STORED_STYLES = {'posix': '/Users/jdoe/DoeLab Dropbox/the_proj/func/uas01_run%02d.nii,%d  ',
                     'windows': 'c:\\bla\\dip\\the_proj\\func\\uas01_run%02d.nii,%d  ',
                     'posix_subdir': '/mnt/x/the_proj/func/sub-01/run%02d.nii,%d  '}


def _spm_paths_case(case, ctx):
    """relocate_file / rawdata_files / the beta image paths must name the same location for every
    spelling of the GLM directory: <project>/func/... with <project> the parent of the GLM directory"""
    import posixpath
    from unittest.mock import patch
    from rsatoolbox.io import spm as rspm
    ctx.case(case)
    spelled = SPM_DIR_SPELLINGS[case['group']][case['spelling']]
    project = SPM_PROJECT[case['group']]
    template = SPM_STORED_STYLES[case['style']]
    stored = [template % (r, v) for r in (1, 2) for v in (1, 12)]
    tails = [t.replace('\\', '/') for t in stored]
    tails = [t[t.index('func/'):] for t in tails]
    want = [project + '/' + t for t in tails]
    via = case['via']
    sigp = 'SpmGlm.%s|%s-glm-dir' % (via, case['group'])

    def same_place(got, exp):
        gp, gsep, gv = str(got).rpartition(',')
        ep, esep, ev = exp.rpartition(',')
        return gv == ev and posixpath.normpath(gp) == posixpath.normpath(ep)

    with ctx.guard(sigp, case):
        nitools = _NitoolsStub(None)
        glm = rspm.SpmGlm(spelled, nitools)
        ctx.outcome(('spm-path', case['group'], via))
        if via == 'relocate_file':
            got = [glm.relocate_file(s_) for s_ in stored]
        else:
            stub = {'SPM': {'nscan': np.array([2, 2]), 'Vbeta': [dict(fname='beta_0001.nii'), dict(fname='beta_0002.nii')],
                            'xY': {'P': list(stored)},
                            'xX': {'name': ['Sn(1) a*bf(1)', 'Sn(2) a*bf(1)'], 'K': [dict(X0=np.ones((2, 1)) / np.sqrt(2))] * 2,
                                   'iC': np.array([1, 2]), 'xKXs': dict(X=np.zeros((4, 2))), 'erdf': 1.0,
                                   'W': np.eye(4), 'pKX': np.zeros((2, 4))}}}
            with patch.object(rspm, 'loadmat', return_value=stub) as lm:
                glm.get_info_from_spm_mat()
                mat = str(lm.call_args[0][0])
            if posixpath.normpath(mat) != posixpath.normpath(project + '/glm_firstlevel/SPM.mat'):
                ctx.fail(sigp + '|SPM.mat-location', case, 'reads %r for directory %r' % (mat, str(spelled)))
            if via == 'rawdata_files':
                got = list(glm.rawdata_files)
            else:
                glm.get_betas('roi.nii')
                got = list(nitools.calls[-1])
                want = [project + '/glm_firstlevel/' + n for n in ('beta_0001.nii', 'beta_0002.nii', 'ResMS.nii')]
                same_place = lambda g, e: posixpath.normpath(str(g)) == posixpath.normpath(e)   # noqa: E731
        if len(got) != len(want) or not all(same_place(g, e) for g, e in zip(got, want)):
            # a directory name without parent is outside what the docstring of relocate_file describes
            # ('paths to directory containing SPM files'): recorded, not judged
            (_Observer(ctx) if case['group'] == 'bare' else ctx).fail(sigp + '|other-location', case, 'GLM directory spelled %r: %r, expected the place %r' % (
                str(spelled), got, want))


# -------------------------------------------------- MNE: epochs in the ways a user holds them
MNE_HOLDERS = ['raw_preload', 'raw_lazy']


def _mne_held_case(case, ctx):
    """mne.Epochs cut from a Raw, preloaded or lazily loaded, without and with a rejection threshold
    that drops the epochs in `bad`: the dataset must be that of an independently built, preloaded
    Epochs object after drop_bad (data, event codes, channel names, times)"""
    import mne
    from rsatoolbox.io import mne as rmne
    mne.set_log_level('error')
    ne, nc, bad = case['n_epochs'], case['n_channel'], case['bad']
    ctx.case(case, nontrivial=bool(bad) or case['held'] == 'raw_lazy')
    g = rng_for(ctx.seed, 'mne_held', ne, nc)
    names = CH_NAMES[:nc]
    sfreq = 100.0
    info = mne.create_info(list(names), sfreq, 'eeg')
    signal = np.round(g.normal(size=(nc, 150 * (ne + 1))), 3) * 1e-6
    samples = [100 + 150 * i for i in range(ne)]
    for i in bad:
        signal[:, samples[i] + 2:samples[i] + 6] += 1e-3            # an artefact inside epoch i
    events = np.array([[s_, 0, (13, 11, 12)[i % 3]] for i, s_ in enumerate(samples)])
    reject = dict(eeg=1e-4) if case['reject'] else None

    def make(preload):
        raw = mne.io.RawArray(signal.copy(), info.copy())
        return mne.Epochs(raw, events.copy(), tmin=-0.05, tmax=0.1, baseline=None, reject=reject, preload=preload)

    want = make(True)
    want.drop_bad()
    want_data = want.get_data()
    want_codes = [int(v) for v in want.events[:, 2]]
    kept = [i for i in range(ne) if i not in bad]
    if want_codes != [(13, 11, 12)[i % 3] for i in kept]:
        raise AssertionError('harness: the reference epochs are %r, planned %r' % (want_codes, kept))
    sigp = 'mne.dataset_from_epochs|held=%s,%s' % (case['held'], 'some-epochs-rejected' if bad else (
        'reject-threshold' if reject else 'no-rejection'))
    with ctx.guard(sigp, case):
        ds = rmne.dataset_from_epochs(make(case['held'] == 'raw_preload'))
        meas = np.asarray(ds.measurements)
        ctx.outcome(('mne-held', case['held'], len(bad), ne))
        if meas.shape != want_data.shape:
            ctx.fail(sigp + '|shape', case, 'measurements %r, epochs %r' % (meas.shape, want_data.shape))
            return
        if not np.array_equal(meas, want_data):
            ctx.fail(sigp + '|data', case, 'measurements differ from the epochs data (max abs dev %g)'
                     % float(np.abs(meas - want_data).max()))
        ev = ds.obs_descriptors.get('event')
        if ev is None or [int(v) for v in ev] != want_codes:
            ctx.fail(sigp + '|event-codes', case, 'event %r, the epochs that remain have %r' % (ev, want_codes))
        ch = ds.channel_descriptors.get('name')
        if ch is None or [str(v) for v in ch] != names:
            ctx.fail(sigp + '|channel-names', case, 'name %r, channels %r' % (ch, names))
        tm = ds.time_descriptors.get('time')
        if tm is None or not np.array_equal(np.asarray(tm, dtype=float), np.asarray(want.times, dtype=float)):
            ctx.fail(sigp + '|times-not-the-epochs-times', case, 'time %r, epochs.times %r' % (tm, want.times.tolist()))


# ------------------------------------------------ documented refusals (docstring 'Raises:')
ERROR_KINDS = ['meadows:unsupported-file-type', 'meadows:mat-missing-variable', 'meadows:multi-participant-json',
               'meadows:single-task-json', 'meadows:json-without-task-list', 'optional:nibabel-missing',
               'optional:nitools-missing']


def _errors_case(case, ctx, root):
    """inputs the importers document as refused: the documented exception, not a wrong object"""
    import importlib.util
    import json
    from scipy.io import savemat
    kind = case['kind']
    ctx.case(case)
    sigp = 'documented-refusal|%s' % kind
    fam, what = kind.split(':')
    if fam == 'meadows':
        from rsatoolbox.io import meadows
        if what == 'unsupported-file-type':
            fpath = os.path.join(root, 'Meadows_myExp_v_v1_cuddly-bunny_3_1D.csv')
            open(fpath, 'w').close()
        elif what == 'mat-missing-variable':
            fpath = os.path.join(root, 'Meadows_myExp_v_v1_cuddly-bunny_3_1D.mat')
            savemat(fpath, {'stimuli': np.array(['a.png', 'b.png', 'c.png'])})
        else:
            name = {'multi-participant-json': 'Meadows_myExp_v_v1_arrangement_tree.json',
                    'single-task-json': 'Meadows_myExp_v_v1_cuddly-bunny_3_tree.json',
                    'json-without-task-list': 'Meadows_myExp_v_v1_cuddly-bunny_tree.json'}[what]
            fpath = os.path.join(root, name)
            with open(fpath, 'w') as fh:
                json.dump({'tasks': {'not': 'a list'}} if what == 'json-without-task-list' else {'tasks': []}, fh)
        try:
            try:
                out = meadows.load_rdms(fpath)
            except ValueError:
                ctx.outcome(('refused', kind))
                return
            except Exception as e:          # noqa: BLE001 - any other exception type is the finding
                ctx.fail(sigp + '|other-exception', case, '%s: %s' % (type(e).__name__, e))
                return
            ctx.fail(sigp + '|not-refused', case, 'returned %r' % (out,))
        finally:
            os.remove(fpath)
        return
    module = 'nibabel' if what.startswith('nibabel') else 'nitools'
    if importlib.util.find_spec(module) is not None:
        ctx.exclude('%s is installed: the missing-dependency route does not exist' % module)
        return
    from rsatoolbox.io.optional import OptionalImportMissingException
    try:
        if module == 'nibabel':
            from rsatoolbox.io import bids
            os.makedirs(os.path.join(root, 'derivatives', 'fmriprep'), exist_ok=True)
            bids.BidsLayout(root).find_mri_derivative_files('fmriprep', 'preproc')
        else:
            from rsatoolbox.io import spm
            spm.SpmGlm(os.path.join(root, 'glm'))
    except OptionalImportMissingException as e:
        ctx.outcome(('refused', kind))
        if module not in str(e):
            ctx.fail(sigp + '|message-does-not-name-the-dependency', case, str(e))
        return
    except Exception as e:                  # noqa: BLE001
        ctx.fail(sigp + '|other-exception', case, '%s: %s' % (type(e).__name__, e))
        return
    ctx.fail(sigp + '|not-refused', case, 'no exception without %s' % module)


# ------------------------------------------------------- sequences of importer calls
class _TagCtx:
    """forwards to a Ctx and writes a tag into the configuration class of every signature"""

    def __init__(self, ctx, tag):
        object.__setattr__(self, '_c', ctx)
        object.__setattr__(self, '_t', tag)

    def __getattr__(self, k):
        return getattr(self._c, k)

    def __setattr__(self, k, v):
        setattr(self._c, k, v)

    def _sig(self, sig):
        head, sep, rest = sig.partition('|')
        return '%s|%s,%s' % (head, self._t, rest) if sep else '%s|%s' % (sig, self._t)

    def fail(self, sig, case, msg=''):
        self._c.fail(self._sig(sig), case, msg)

    def guard(self, sigprefix, case):
        return self._c.guard(self._sig(sigprefix), case)


CALL_FAMILIES = ['meadows', 'mne', 'design', 'spm']


def _call_menu(family):
    """a few unlike inputs per importer; the 'calls' part runs every ordered pair (A then B in one
    process, and A twice on the very same input) and judges the later answer like a fresh one"""
    if family == 'meadows':
        out = []
        for sort in (True, False):
            out += [
                {'part': 'meadows', 'shape': '1p1t', 'n_stim': 3, 'sort': sort, 'order': [2, 0, 1],
                 'names': 'png', 'participant': 'cuddly-bunny', 'task_index': 3},
                # same file name as the one before, other content
                {'part': 'meadows', 'shape': '1p1t', 'n_stim': 3, 'sort': sort, 'order': [1, 2, 0],
                 'names': 'prefix_low', 'participant': 'cuddly-bunny', 'task_index': 3},
                {'part': 'meadows', 'shape': 'Mp1t', 'n_stim': 3, 'sort': sort, 'order': [1, 0, 2],
                 'names': 'png', 'participants': ['able-fly', 'cuddly-bunny'], 'interleaved': False,
                 'task_name': 'arrangement'},
                {'part': 'meadows', 'shape': '1pMt', 'n_stim': 3, 'sort': sort, 'order': [2, 1, 0],
                 'layout': 'MIM', 'participant': 'informed-mole', 'names': 'prefix'}]
        return out
    if family == 'mne':
        return [{'part': 'mne', 'shape': [2, 2, 3], 'codes': [11, 12], 'sfreq': 20.0, 'tmin': 0.0, 'via': 'object'},
                {'part': 'mne', 'shape': [3, 1, 2], 'codes': [13, 11, 12], 'sfreq': 100.0, 'tmin': -0.02,
                 'via': 'object'},
                {'part': 'mne', 'shape': [2, 2, 3], 'codes': [12, 11], 'sfreq': 20.0, 'tmin': -0.1, 'via': 'fif',
                 'fname': 'sub-01_run-02_task-abc_epo.fif'}]
    if family == 'design':
        grid = BOUNDS['quick']['design_grid']
        return [{'part': 'design', 'grid': grid, 'assign': [1, 0, 2, 0], 'tr': 1.0, 'n_vols': 20, 'conf': 'two',
                 'dur': 1.0, 'rows': 'onset'},
                {'part': 'design', 'grid': grid, 'assign': [2, 1, 0, 1], 'tr': 2.0, 'n_vols': 40,
                 'conf': 'nan_middle', 'dur': 1.0, 'rows': 'onset'},
                {'part': 'design', 'grid': grid, 'assign': [1, 1, 0, 0], 'tr': 0.72, 'n_vols': 40, 'conf': 'none',
                 'dur': 0.5, 'rows': 'onset'},
                {'part': 'design', 'grid': grid, 'assign': [0, 1, 2, 3], 'tr': 1.0, 'n_vols': 40, 'conf': 'scaled',
                 'dur': 2.0, 'rows': 'reversed'}]
    if family == 'spm':
        out = []
        for nscans, ncols in (([3, 4], [1, 2]), ([5], [2]), ([2, 2, 3], [1, 1, 2])):
            for route in ('spm_filter', 'get_residuals'):
                for fill in (0, 1, 2):
                    out.append({'part': 'spm', 'nscans': nscans, 'ncols': ncols, 'n_voxels': 2, 'fill': fill,
                                'route': route})
        return out
    raise ValueError(family)


_LAST = {}                 # bit-level fingerprint of the last importer result (set by the case functions)
_CALL_MODULES = {'meadows': ('rsatoolbox.io.meadows', 'meadows.load_rdms'),
                 'mne': ('rsatoolbox.io.mne', 'mne.dataset_from_epochs/read_epochs'),
                 'design': ('rsatoolbox.io.fmriprep', 'make_design_matrix'),
                 'spm': ('rsatoolbox.io.spm', 'SpmGlm')}


def _calls_case(case, ctx, root):
    """A then B (or A twice on the very same input) in one process: the later answer is judged
    like any other, and must be bit-identical to the answer of a call made right after the
    importer module was re-initialised (importlib.reload: module-level state gone)"""
    import importlib
    from mc.runner import Ctx
    menu = _call_menu(case['family'])
    i, j = case['pair']
    a, b = menu[i], menu[j]
    same = i == j
    tag = 'same-input-twice' if same else 'after-another-call'
    if case['family'] == 'spm':
        # the state lives in the SpmGlm object: earlier data go through the SAME object
        if (a['nscans'], a['ncols'], a['route']) != (b['nscans'], b['ncols'], b['route']):
            return
        first, second = None, dict(b, prior_fills=[a['fill']])
    elif same:
        first, second = None, dict(a, twice=True)
    else:
        first, second = a, b
    modname, op = _CALL_MODULES[case['family']]
    module = importlib.import_module(modname)
    importlib.reload(module)
    _LAST.pop('fp', None)
    _run_case(b, Ctx(ctx.prop, ctx.tier, ctx.seed), root)        # the fresh answer (not judged here)
    fresh = _LAST.pop('fp', None)
    importlib.reload(module)
    if first is not None:
        _run_case(first, ctx, root)
    _LAST.pop('fp', None)
    _run_case(second, _TagCtx(ctx, tag), root)
    later = _LAST.pop('fp', None)
    if fresh is not None and later is not None and fresh != later:
        ctx.fail('%s|%s|differs-from-fresh-call' % (op, tag), case,
                 'input %r: the answer after %s is not bit-identical to the answer of a fresh call' % (
                     b, 'the same call' if same else 'a call with %r' % (a,)))


# ------------------------------------------------------------------------------ Meadows
# stimulus-name alphabets.  The 'prefix_*' sets hold names of which one is a strict prefix of
# others, continued by characters from both sides of '.' in ASCII (' ' '(' '-' < '.' < digits <
# '_' < letters): the order of the *labels* (names without extension) then differs from the
# order of the raw file names.
MAT_NAMES = {'png': ['stim002.png', 'stim010.png', 'stim101.png', 'stim118.png', 'stim120.png'],
             'ragged': ['a.png', 'bb.jpg', 'ccc.png', 'd10.png', 'e.jpeg'],
             'prefix_low': ['dog.jpg', 'dog (2).jpg', 'dog-inv.jpg', 'cat.jpg', 'dog(1).jpg'],
             'prefix_high': ['face.png', 'face_inv.png', 'face2.png', 'facet.png', 'fac.png'],
             'prefix_mixed': ['a.png', 'a-b.png', 'a_b.png', 'a b.png', 'a1.png'],
             # numeric-looking labels, prefixes of one another, alphabetical != numerical order
             'numeric': ['1.png', '10.png', '01.png', '100.png', '2.png']}
MAT_NAME_SETS = ['png', 'ragged', 'prefix_low', 'prefix_high', 'prefix_mixed', 'numeric']
MEADOWS_SCALES = [1.0, 1e6, 1e-8]
JSON_NAMES = {'plain': ['ant', 'beach', 'fireplace', 'river', 'stone'],
              'prefix': ['dog', 'dog (2)', 'dog_b', 'dog-inv', 'dog2']}


def _meadows_cases(shard, b, tier):
    shape, n_stim, sort = shard['shape'], shard['n_stim'], shard['sort']
    for order in shard['orders']:
        base = {'part': 'meadows', 'shape': shape, 'n_stim': n_stim, 'sort': sort, 'order': list(order)}
        if shape == '1p1t':
            for k, names in enumerate(MAT_NAME_SETS):
                for participant, tidx in (('cuddly-bunny', 3), ('able-fly', 12)):
                    # dissimilarities at unusual scales ride along (one scale per name set and file)
                    scale = MEADOWS_SCALES[(k + tidx + sum(order)) % 3] if tier == 'thorough' or tidx == 12 else 1.0
                    yield dict(base, names=names, participant=participant, task_index=tidx, scale=scale)
        elif shape == 'Mp1t':
            # the stimuli_* and the rdmutv_* variables are two groups paired by participant name:
            # each group is written in its own order (every pair of orders for n_stim == 3 and in
            # the thorough tier; same and reversed order otherwise), block-wise and interleaved
            full = tier == 'thorough' or n_stim == 3
            for n_p in (1, 2, 3):
                for porder in itertools.permutations(range(n_p)):
                    uorders = list(itertools.permutations(range(n_p))) if full else \
                        [tuple(range(n_p)), tuple(range(n_p))[::-1]][:max(1, min(2, n_p))]
                    variants = [(inter, 'png', 'arrangement', uo) for uo in uorders
                                for inter in ((False, True) if full else (False,))]
                    if tier == 'thorough' or list(porder) == sorted(porder):
                        rev = tuple(range(n_p))[::-1]
                        variants.append((True, 'ragged', 'ma1', rev))
                        variants += [(k % 2 == 1, ns, 'arrangement', rev)
                                     for k, ns in enumerate(MAT_NAME_SETS) if ns.startswith('prefix')]
                    for inter, names, tname, uorder in variants:
                        yield dict(base, names=names, participants=[MEADOWS_PARTICIPANTS[i] for i in porder],
                                   interleaved=inter, task_name=tname, utv_order=list(uorder))
        else:
            for layout in _json_layouts(b['json_layout_len']):
                for names in sorted(JSON_NAMES):
                    yield dict(base, layout=layout, participant='informed-mole', names=names)


def _utv(file_labels, base_labels, r, seed):
    """self-describing dissimilarities in file order: code of (record r, pair of base indices)
    plus a seed dependent fraction"""
    g = rng_for(seed, 'meadows', r, len(base_labels))
    jitter = {}
    for i, j in ref.pair_list(len(base_labels)):
        jitter[(i, j)] = float(np.round(g.uniform(0, 0.0009), 6))
    out = []
    for a, c in ref.pair_list(len(file_labels)):
        i, j = sorted((base_labels.index(file_labels[a]), base_labels.index(file_labels[c])))
        out.append((100 * (r + 1) + 10 * i + j) / 1000.0 + jitter[(i, j)])
    return out


def _meadows_case(case, ctx, root):
    from rsatoolbox.io import meadows
    shape, n, order, sort = case['shape'], case['n_stim'], case['order'], case['sort']
    scale = float(case.get('scale', 1.0))
    ctx.case(case, nontrivial=True)
    klass = 'shape=%s,sort=%s' % (shape, sort)
    sigp = 'meadows.load_rdms|' + klass
    expected = []          # list of (row key descriptor, key value, utv in file order, extra descriptors)
    optional = []          # tasks the loader may skip: (key, value, utv in the task's own order, its labels)
    if shape == '1pMt':
        base_labels = JSON_NAMES[case.get('names', 'plain')][:n]
        file_labels = [base_labels[i] for i in order]
        labels_out = list(file_labels)
        tasks, r = [], 0
        positions = []
        for k, kind in enumerate(case['layout']):
            if kind in 'MP':
                name = 'ma%d' % (r + 1)
                t_labels = list(file_labels) if kind == 'M' else list(file_labels)[::-1]
                u = _utv(t_labels, base_labels, r, ctx.seed)
                tasks.append({'name': name, 'task_type': 'multiarrange', 'stimuli': t_labels, 'rdm': u})
                if kind == 'M':
                    expected.append(('task', name, u, {'participant': case['participant']}))
                    positions.append(k)
                else:
                    optional.append(('task', name, u, t_labels))
                r += 1
            else:
                tasks.append({'name': 'gi%d' % k, 'task_type': 'info'})
        fname = ref.meadows_filename('1pMt', 'twoMaTasks', 1, 'tree', 'json',
                                     participant=case['participant'])
        fpath = os.path.join(root, fname)
        ref.write_json_tree(fpath, tasks, rdm_first=(len(case['layout']) + sum(order)) % 2 == 1)
    else:
        base_files = MAT_NAMES[case['names']][:n]
        file_files = [base_files[i] for i in order]
        base_labels = [ref.stimulus_label(f) for f in base_files]
        file_labels = [ref.stimulus_label(f) for f in file_files]
        if shape == '1p1t':
            u = [v * scale for v in _utv(file_labels, base_labels, 0, ctx.seed)]
            fname = ref.meadows_filename('1p1t', 'myExp', 1, '1D', 'mat',
                                         participant=case['participant'], task_index=case['task_index'])
            fpath = os.path.join(root, fname)
            ref.write_mat_single(fpath, file_files, u)
            expected.append(('participant', case['participant'], u, {'task_index': case['task_index']}))
        else:
            utvs = []
            for p in case['participants']:
                r = MEADOWS_PARTICIPANTS.index(p)
                u = _utv(file_labels, base_labels, r, ctx.seed)
                utvs.append(u)
                expected.append(('participant', p, u, {'task': case['task_name']}))
            fname = ref.meadows_filename('Mp1t', 'myExp', 2, '1D', 'mat', task_name=case['task_name'])
            fpath = os.path.join(root, fname)
            ref.write_mat_multi(fpath, case['participants'], file_files, utvs, case['interleaved'],
                                case.get('utv_order'))
    try:
        with ctx.guard(sigp, case):
            with open(fpath, 'rb') as fh:
                content = fh.read()
            if case.get('twice'):
                meadows.load_rdms(fpath, sort=sort)
            rdms = meadows.load_rdms(fpath, sort=sort)
            with open(fpath, 'rb') as fh:
                if fh.read() != content:
                    ctx.fail(sigp + '|modifies-argument:file', case, 'the results file was rewritten by the loader')
            if not (len(expected) <= rdms.n_rdm <= len(expected) + len(optional)):
                ctx.fail(sigp + '|n_rdms', case, '%d RDMs for %d records' % (rdms.n_rdm, len(expected)))
                return
            conds = [str(c) for c in rdms.pattern_descriptors.get('conds', [])]
            _LAST['fp'] = fingerprint([conds, np.asarray(rdms.dissimilarities),
                                       {k: [str(v) for v in vals] for k, vals in rdms.rdm_descriptors.items()}])
            want_labels = sorted(file_labels) if sort else list(file_labels)
            ctx.outcome(('meadows', shape, tuple(np.argsort(file_labels).tolist()), sort))
            if sorted(conds) != sorted(file_labels):
                ctx.fail(sigp + '|stimulus-labels', case, 'labels %r, file has %r' % (conds, file_labels))
                return
            if conds != want_labels:
                ctx.fail(sigp + '|stimulus-label-order', case, 'labels %r, expected %r' % (conds, want_labels))
            dis = np.asarray(rdms.dissimilarities, dtype=float)
            for key, value, u, extra in expected:
                col = [str(v) for v in rdms.rdm_descriptors.get(key, [])]
                rows = [i for i, v in enumerate(col) if v == value]
                if len(rows) != 1:
                    ctx.fail('%s|%s-descriptor' % (sigp, key), case,
                             '%s descriptor %r, expected one entry %r' % (key, col, value))
                    continue
                row = rows[0]
                # values: by label pair (independent of order), then as a vector in the expected order
                want_pairs = ref.pair_values(file_labels, u)
                got_pairs = ref.pair_values(conds, dis[row])
                bad = [sorted(k) for k in want_pairs if want_pairs[k] != got_pairs[k]]
                if bad:
                    ctx.fail(sigp + '|value-label-association', case,
                             '%s=%s: pairs %r carry another value than in the file (labels %r, '
                             'values %r; file order %r, values %r)' % (key, value, bad[:3], conds,
                                                                      dis[row].tolist(), file_labels, u))
                elif conds == want_labels:
                    want_vec = ref.sorted_utv(file_labels, u)[1] if sort else u
                    if not np.array_equal(dis[row], np.asarray(want_vec, dtype=float)):
                        ctx.fail(sigp + '|vector', case, '%r vs %r' % (dis[row].tolist(), want_vec))
                for dk, dv in extra.items():
                    got = rdms.rdm_descriptors.get(dk)
                    if got is None or len(got) != rdms.n_rdm or str(got[row]) != str(dv):
                        ctx.fail('%s|%s-descriptor' % (sigp, dk), case,
                                 '%s descriptor %r, expected %r for %s=%s' % (dk, got, dv, key, value))
            for key, value, u, t_labels in optional:
                col = [str(v) for v in rdms.rdm_descriptors.get(key, [])]
                for row in [i for i, v in enumerate(col) if v == value]:
                    want_pairs = ref.pair_values(t_labels, u)
                    got_pairs = ref.pair_values(conds, dis[row])
                    bad = [sorted(k) for k in want_pairs if want_pairs[k] != got_pairs[k]]
                    if bad:
                        ctx.fail(sigp + ',task-with-other-stimulus-order|value-label-association', case,
                                 '%s=%s lists its stimuli as %r; loaded under labels %r the pairs %r carry another '
                                 'value than in the file' % (key, value, t_labels, conds, bad[:3]))
            if shape == '1pMt' and not optional:
                got = rdms.rdm_descriptors.get('task_index')
                if got is not None:
                    by_task = {str(t): int(i) for t, i in zip(rdms.rdm_descriptors.get('task', []), got)}
                    want0 = {e[1]: p for e, p in zip(expected, positions)}
                    want1 = {e[1]: p + 1 for e, p in zip(expected, positions)}
                    if by_task != want0 and by_task != want1:
                        ctx.fail(sigp + '|task_index-descriptor', case,
                                 'task_index %r, positions in file %r' % (by_task, want0))
    finally:
        if os.path.exists(fpath):
            os.remove(fpath)


# ---------------------------------------------------------------------------------- MNE
CH_NAMES = ['A1', 'X32', 'Cz', 'MEG 0113']
# (sampling rate, first sample): tmin = first / sfreq.  20 / 100 / 1000 Hz put every sample on the
# millisecond grid, 128 / 256 / 512 / 600 Hz do not; first = 0 and a negative start
MNE_TIMING = [(sf, first) for sf in (20.0, 100.0, 128.0, 256.0, 512.0, 600.0, 1000.0)
              for first in (0, -(int(sf) // 10 + 1))]


def _mne_case(case, ctx, root):
    import mne
    from rsatoolbox.io import mne as rmne
    mne.set_log_level('error')
    ne, nc, nt = case['shape']
    via = case['via']
    ctx.case(case)
    g = rng_for(ctx.seed, 'mne', ne, nc, nt)
    data = np.zeros((ne, nc, nt))
    for e in range(ne):
        for c in range(nc):
            for t in range(nt):
                data[e, c, t] = 100 * (e + 1) + 10 * c + t
    if via == 'object':
        data = data + np.round(g.uniform(0, 0.5, size=data.shape), 4)
    # physical scales: arbitrary units, volts of an EEG (1e-6), large numbers close together (1e6 + ...)
    data = data * (1.0, 1e-6, 1e6)[(ne + 2 * nc + nt + len(str(case['codes']))) % 3]
    codes = [int(c) for c in case['codes']]
    if via == 'fif':
        codes = [1000000 + c for c in codes]          # large event codes close together
    events = np.array([[10 * (i + 1), 50 + i, code] for i, code in enumerate(codes)], dtype=int)
    descriptors = {'subject': 'p07', 'session': 2}
    names = CH_NAMES[:nc]
    info = mne.create_info(ch_names=list(names), ch_types='eeg', sfreq=case['sfreq'])
    epochs = mne.EpochsArray(data.copy(), info, events.copy(), tmin=case['tmin'])
    sigp = 'mne.%s|%s' % ('dataset_from_epochs' if via == 'object' else 'read_epochs', via)
    fpath = None
    try:
        with ctx.guard(sigp, case):
            if via == 'object':
                if case.get('twice'):
                    rmne.dataset_from_epochs(epochs, descriptors)
                ds = rmne.dataset_from_epochs(epochs, descriptors)
                tol = 0.0
                if descriptors != {'subject': 'p07', 'session': 2}:
                    ctx.fail(sigp + '|modifies-argument:descriptors', case, 'descriptors dict now %r' % descriptors)
                if not (np.array_equal(epochs.get_data(), data) and np.array_equal(epochs.events, events)
                        and list(epochs.ch_names) == list(names)):
                    ctx.fail(sigp + '|modifies-argument:epochs', case, 'the epochs object changed during the call')
            else:
                fpath = os.path.join(root, case['fname'])
                epochs.save(fpath, overwrite=True, verbose='error')
                if case.get('twice'):
                    rmne.read_epochs(fpath)
                ds = rmne.read_epochs(fpath)
                tol = 1e-6
            meas = np.asarray(ds.measurements)
            _LAST['fp'] = fingerprint([meas] + [{k: [str(v) for v in vals] for k, vals in d.items()} for d in (
                ds.obs_descriptors, ds.channel_descriptors, ds.time_descriptors)])
            if meas.shape != (ne, nc, nt):
                ctx.fail(sigp + '|shape', case, 'measurements %r for epochs %r' % (meas.shape, (ne, nc, nt)))
                return
            ctx.dev('mne data ' + via, maxreldev(meas, data))
            if not (np.array_equal(meas, data) if tol == 0.0 else
                    float(np.abs(meas - data).max()) <= tol * float(np.abs(data).max())):
                ctx.fail(sigp + '|data', case, 'measurements differ from the epochs data (max rel dev %g)'
                         % maxreldev(meas, data))
            ev = ds.obs_descriptors.get('event')
            if ev is None or [int(v) for v in ev] != codes:
                ctx.fail(sigp + '|event-codes', case, 'event %r, codes %r' % (ev, codes))
            ch = ds.channel_descriptors.get('name')
            if ch is None or [str(v) for v in ch] != names:
                ctx.fail(sigp + '|channel-names', case, 'name %r, channels %r' % (ch, names))
            tm = ds.time_descriptors.get('time')
            want_t = ref.epoch_times(nt, case['sfreq'], case['tmin'])
            if tm is None or np.shape(tm) != (nt,):
                ctx.fail(sigp + '|times', case, 'time %r, expected %r' % (tm, want_t))
            else:
                tm = np.asarray(tm, dtype=float)
                # the time descriptor is a copy of the epochs' sample times: bit for bit
                src = np.asarray(epochs.times if via == 'object' else
                                 mne.read_epochs(fpath, preload=False, verbose='error').times, dtype=float)
                ctx.dev('mne times', float(np.abs(tm - src).max()) if src.shape == tm.shape else float('inf'))
                if not np.array_equal(tm, src):
                    ctx.fail(sigp + '|times-not-the-epochs-times', case,
                             'sfreq %r, tmin %r: time %r, epochs.times %r' % (case['sfreq'], case['tmin'],
                                                                              tm.tolist(), src.tolist()))
                # and, independently of mne, tmin + k / sfreq (within float rounding; FIF stores sfreq
                # and the first sample, not the times)
                elif not allclose(tm, want_t, 1e-9):
                    ctx.fail(sigp + '|times', case, 'time %r, expected %r' % (tm.tolist(), want_t))
            ctx.outcome(('mne', tuple(case['shape']), tuple(case['codes'])))
    finally:
        if fpath and os.path.exists(fpath):
            os.remove(fpath)


# ------------------------------------------------------------------------ design matrix
COND_NAMES = ['zeta', 'alpha', 'mid']       # first appearance order != sorted order
# names of conditions 1, 2, 3.  Which condition appears first in the table is enumerated by the
# onset assignments (every surjection), so every order of first appearance relative to the
# alphabet occurs for each set; prefixes, digits, upper / lower case
COND_NAME_SETS = [COND_NAMES, ['face', 'Face', 'face2'], ['9', '10', '1b'], ['tool', 'house', 'face']]


class _Sibling:
    """image / table next to the bold file: one voxel, one parcel"""

    def get_data(self):
        return np.ones((1, 1, 1))

    def get_key(self):
        return self

    _frame = None

    def get_frame(self):
        if _Sibling._frame is None:
            import pandas
            _Sibling._frame = pandas.DataFrame({'index': [1], 'name': ['parcel']})
        return _Sibling._frame.copy()


class _BoldStub:
    """stands in for the BidsMriFile of a run whose events table is `events`"""
    sub, ses, run, task = '01', None, '1', 'main'

    def __init__(self, events):
        self._events = events

    def get_events(self):
        return self._events

    def get_mri_sibling(self, desc, suffix):
        return _Sibling()



def _confound_table(kind, n_vols, g):
    """dict column name -> values (table order) for every kind of CONFOUND_TABLES; a missing
    value (n/a) sits in the first, a middle or the last volume, in one or two columns at
    different positions of the table, or fills a whole column"""
    if kind == 'none':
        return None
    c1 = np.round(g.normal(size=n_vols), 4)
    c2 = np.round(np.cumsum(g.normal(size=n_vols)), 4) + 3.0
    c3 = np.round(g.normal(size=n_vols) * 2.0 - 1.0, 4)
    d = np.concatenate([[np.nan], np.diff(c1)])
    mid, last = c3.copy(), c3.copy()
    mid[n_vols // 2] = np.nan
    last[n_vols - 1] = np.nan
    if kind == 'two':
        return {'trans_x': c1, 'rot_z': c2}
    if kind in ('nan_first', 'three_nan'):
        return {'trans_x': c1, 'trans_x_derivative1': d, 'rot_z': c2}
    if kind == 'nan_middle':
        return {'trans_x': c1, 'csf': mid, 'rot_z': c2}
    if kind == 'nan_last':
        return {'trans_x': c1, 'rot_z': c2, 'csf': last}
    if kind == 'nan_two_columns':
        return {'trans_x_derivative1': d, 'trans_x': c1, 'csf': mid, 'rot_z': c2}
    if kind == 'nan_first_and_last':
        return {'csf': last, 'trans_x': c1, 'rot_z': c2, 'trans_x_derivative1': d}
    if kind == 'all_nan':
        return {'trans_x': c1, 'motion_outlier': np.full(n_vols, np.nan), 'rot_z': c2}
    if kind == 'scaled':
        # tiny values, huge values, large numbers close together, and one incomplete column
        return {'trans_x': c1 * 1e-8, 'rot_z': c2 * 1e6, 'global_signal': c3 + 1e6, 'csf': mid * 1e6}
    raise ValueError(kind)


def _design_case(case, ctx):
    import pandas
    from rsatoolbox.io.fmriprep import make_design_matrix
    grid, assign, tr, n_vols = case['grid'], case['assign'], case['tr'], case['n_vols']
    cond_names = COND_NAME_SETS[case.get('names', 0)]
    rows = [(on, cond_names[a - 1]) for on, a in zip(grid, assign) if a]
    if case.get('rows') == 'reversed':
        rows = rows[::-1]
    onsets = [r[0] for r in rows]
    types = [r[1] for r in rows]
    if max(onsets) + tr > tr * (n_vols - 1):
        ctx.case(case, nontrivial=False)
        ctx.exclude('an event has no volume after its onset (constant column, normalisation undefined)')
        return
    ctx.case(case)
    events = pandas.DataFrame({'onset': onsets, 'duration': [case['dur']] * len(rows), 'trial_type': types})
    g = rng_for(ctx.seed, 'design', n_vols)
    conf_cols = _confound_table(case['conf'], n_vols, g)
    conf = None if conf_cols is None else pandas.DataFrame(conf_cols)
    want = ref.design_expectation(onsets, types, tr, n_vols,
                                  None if conf_cols is None else [list(v) for v in conf_cols.values()])
    sigp = 'make_design_matrix|conf=%s' % case['conf']
    with ctx.guard(sigp, case):
        # snapshots of the caller's tables, taken from the harness' own lists (cheaper than pandas copies)
        events0 = [[float(o), float(case['dur']), t] for o, t in zip(onsets, types)]
        conf0 = None if conf_cols is None else np.column_stack([np.asarray(v, dtype=float) for v in conf_cols.values()])
        if case.get('twice'):
            make_design_matrix(events, tr, n_vols, conf)
        dm, mask, dof = make_design_matrix(events, tr, n_vols, conf)
        if not (events.values.tolist() == events0 and list(events.columns) == ['onset', 'duration', 'trial_type']
                and list(events.index) == list(range(len(rows)))):
            ctx.fail('%s|modifies-argument:events' % sigp, case, 'the events table handed in was changed')
        if conf is not None and not (conf.shape == conf0.shape and list(conf.columns) == list(conf_cols)
                                     and np.array_equal(conf.values, conf0, equal_nan=True)
                                     and list(conf.index) == list(range(n_vols))):
            ctx.fail('%s|modifies-argument:confounds' % sigp, case, 'the confounds table handed in was changed')
        dm = np.asarray(dm, dtype=float)
        mask = np.asarray(mask)
        _LAST['fp'] = fingerprint([dm, mask, float(dof)])
        ctx.outcome(('design', dm.shape, tuple(bool(m) for m in mask.tolist()), int(dof)))
        if dm.ndim != 2 or dm.shape[0] != n_vols:
            ctx.fail(sigp + '|shape-volumes', case, 'shape %r for %d volumes' % (dm.shape, n_vols))
            return
        if mask.shape != (dm.shape[1],) or mask.dtype != bool:
            ctx.fail(sigp + '|mask-shape', case, 'mask %r for matrix %r' % (mask.shape, dm.shape))
            return
        n_pred = int(mask.sum())
        if n_pred != want['n_cond']:
            ctx.fail(sigp + '|condition-columns', case,
                     '%d flagged predictor columns for %d conditions' % (n_pred, want['n_cond']))
        if dm.shape[1] - n_pred != want['n_conf']:
            ctx.fail(sigp + '|confound-columns', case, '%d confound columns, %d confounds without missing '
                     'value' % (dm.shape[1] - n_pred, want['n_conf']))
        if int(dof) != n_vols - dm.shape[1] or dof != int(dof):
            ctx.fail(sigp + '|dof', case, 'dof %r for %d volumes and %d columns' % (dof, n_vols, dm.shape[1]))
        if not np.isfinite(dm).all():
            bad = [c for c in range(dm.shape[1]) if not np.isfinite(dm[:, c]).all()]
            ctx.fail(sigp + '|non-finite-%s-column' % ('confound' if not mask[bad[0]] else 'condition'),
                     case, 'design matrix columns %r hold NaN / inf (mask %r)' % (bad, mask.tolist()))
            return
        pred = dm[:, mask]
        for c in range(pred.shape[1]):
            rng_ = float(pred[:, c].max() - pred[:, c].min())
            mean = float(pred[:, c].mean())
            ctx.dev('design range', abs(rng_ - 1.0))
            ctx.dev('design mean', abs(mean))
            if abs(rng_ - 1.0) > TOL:
                ctx.fail(sigp + '|condition-column-range', case, 'column %d: max-min = %r' % (c, rng_))
            if abs(mean) > TOL:
                ctx.fail(sigp + '|condition-column-mean', case, 'column %d: mean = %r' % (c, mean))
        if n_pred == want['n_cond']:
            first = [ref.departure_index(pred[:, c]) for c in range(pred.shape[1])]
            first = sorted(first, key=lambda v: (v is None, v))
            if first != want['first_response']:
                ctx.fail(sigp + '|condition-column-timing', case,
                         'columns start to respond at volumes %r, first onsets imply %r' % (
                             first, want['first_response']))
        if n_pred == want['n_cond']:
            _design_columns_vs_labels(case, ctx, sigp, events, onsets, types, pred, tr, n_vols)
        if conf_cols is not None and dm.shape[1] - n_pred == want['n_conf']:
            clean = [v for v in conf_cols.values() if not np.isnan(v).any()]
            got = dm[:, ~mask]
            for c, src in enumerate(clean):
                # the comparison is limited by the conditioning of the column (offset / spread)
                spread = float(np.max(src) - np.min(src))
                tol_c = max(1e-9, 1e-13 * float(np.abs(src).max()) / spread) if spread > 0 else 1e-9
                if not ref.affine_related(src, got[:, c], tol_c):
                    ctx.fail(sigp + '|confound-column-content', case,
                             'confound column %d is not the given confound up to shift and scale' % c)


def _design_columns_vs_labels(case, ctx, sigp, events, onsets, types, pred, tr, n_vols):
    """the design matrix carries no labels; the library names its condition columns through
    FmriprepRun.get_obs_descriptors / to_descriptors (collapse_by_trial_type=True).  Column c
    must be the regressor of the condition that labelling gives to position c."""
    from rsatoolbox.io.fmriprep import FmriprepRun
    from rsatoolbox.io.hrf import HRF          # the tabulated response (data), sampled every 0.1 s
    conds = sorted(set(types))
    run = FmriprepRun(_BoldStub(events))
    labellings = {}
    with ctx.guard('FmriprepRun.get_obs_descriptors|collapse_by_trial_type', case):
        labellings['get_obs_descriptors'] = [str(v) for v in run.get_obs_descriptors(
            collapse_by_trial_type=True)['trial_type']]
    if case.get('names', 0) == 0 or ctx.tier == 'thorough':
        # the second accessor goes through the (stubbed) parcellation files: one name set in quick
        with ctx.guard('FmriprepRun.to_descriptors|collapse_by_trial_type', case):
            labellings['to_descriptors'] = [str(v) for v in run.to_descriptors(
                collapse_by_trial_type=True)['obs_descriptors']['trial_type']]
    if len(labellings) == 2 and labellings['get_obs_descriptors'] != labellings['to_descriptors']:
        ctx.fail('FmriprepRun.to_descriptors|collapse_by_trial_type|differs-from-get_obs_descriptors', case,
                 '%r' % labellings)
    for accessor, labels in labellings.items():
        if sorted(labels) != conds:
            ctx.fail('FmriprepRun.%s|collapse_by_trial_type|not-the-conditions' % accessor, case,
                     'labels %r for conditions %r' % (labels, conds))
            continue
        if accessor != 'get_obs_descriptors' and labels == labellings.get('get_obs_descriptors'):
            continue            # the same naming: judged once
        for c, cond in enumerate(labels):
            own = [o for o, t in zip(onsets, types) if t == cond]
            want_first = ref.first_volume_after(min(own), tr, n_vols)
            got_first = ref.departure_index(pred[:, c])
            if got_first != want_first:
                ctx.fail('make_design_matrix|columns-vs-%s|column-is-not-the-labelled-condition' % accessor, case,
                         'column %d is labelled %r (first onset %r -> first response at volume %r) but starts '
                         'to respond at volume %r; labels %r, events %r' % (
                             c, cond, min(own), want_first, got_first, labels, list(zip(onsets, types))))
                continue
            if accessor != 'get_obs_descriptors':
                continue
            reg = ref.block_regressor(tuple(HRF.tolist()), 0.1, own, case['dur'], tr, n_vols)
            if reg is None:
                continue
            r = ref.correlation(pred[:, c], reg)
            ctx.dev('design 1-corr with own regressor', 1.0 - r)
            if not r >= 0.9:
                ctx.fail('make_design_matrix|columns-vs-%s|column-is-not-the-regressor-of-its-condition' % accessor, case,
                         'column %d (%r): correlation %.3f with the regressor computed from the response '
                         'table' % (c, cond, r))


# ---------------------------------------------------------------------------------- SPM
class _NitoolsStub:
    def __init__(self, data):
        self.data = data
        self.calls = []

    def get_mask_coords(self, mask):
        return ('coords', mask)

    def sample_images(self, files, coords, use_dataobj=False):
        self.calls.append(list(files))
        if self.data is None:
            # one row per image, the values say which image it is: beta_0007.nii -> 7.x, ResMS.nii -> 999.x
            rows = []
            for f in files:
                name = os.path.basename(str(f))
                code = 999.0 if name.startswith('ResMS') else float(int(''.join(ch for ch in name if ch.isdigit()) or -1))
                rows.append([code + 0.25 * p for p in range(2)])
            return np.array(rows)
        return np.array(self.data, copy=True)


def _spm_data(nscans, nvox, fill, seed):
    total = sum(nscans)
    if fill == 0:
        # integer-typed, like raw scanner data
        y = np.array([[((3 * t + 5 * p + (t * t) % 3) % 4) - 1 for p in range(nvox)]
                      for t in range(total)], dtype=np.int16)
        y[:, 0] += 1            # a mean, so that every run has a component in a constant regressor
        return y
    g = rng_for(seed, 'spm', total, nvox, fill)
    y = np.round(g.normal(size=(total, nvox)) + 0.5 * fill, 3)
    # one scale per run structure: ordinary, raw scanner units (1e6), tiny (1e-8)
    return y * (1.0, 1e6, 1e-8)[(total + 2 * len(nscans) + nscans[0] + fill) % 3]


def _spm_case(case, ctx):
    from unittest.mock import patch
    from rsatoolbox.io import spm as rspm
    nscans, ncols, nvox = case['nscans'], case['ncols'], case['n_voxels']
    bases = [ref.filter_basis(n, k) for n, k in zip(nscans, ncols)]
    if any(b is None for b in bases):
        ctx.case(case, nontrivial=False)
        ctx.exclude('more filter columns than scans in a run')
        return
    total, runs = sum(nscans), len(nscans)
    y = _spm_data(nscans, nvox, case['fill'], ctx.seed)
    want = ref.filtered_reference(y, nscans, bases)
    nontrivial = float(np.abs(want - y).max()) > 1e-6 * (float(np.abs(y).max()) or 1.0)
    ctx.case(case, nontrivial=nontrivial)
    bounds = ref.run_bounds(nscans)
    # design: one regressor per run, already filtered (SPM stores the filtered design)
    x = np.zeros((total, runs))
    for r, ((a, b), x0) in enumerate(zip(bounds, bases)):
        raw = np.array([[float((t % 3) == 1) + 0.25 * t] for t in range(b - a)])
        x[a:b, r] = ref.project_out(raw, x0)[:, 0]
    x[np.abs(x) < 1e-12] = 0.0
    stub = {'SPM': {
        'nscan': np.array(nscans, dtype=int),
        'Vbeta': [dict(fname='beta_%04d.nii' % (r + 1)) for r in range(runs)],
        'xY': {'P': ['/home/jdoe/proj/func/run%02d.nii,%d  ' % (r + 1, i + 1)
                     for r, n in enumerate(nscans) for i in range(n)]},
        'xX': {'name': ['Sn(%d) stim*bf(1)' % (r + 1) for r in range(runs)],
               'K': [dict(X0=b.copy()) for b in bases],
               'iC': np.arange(1, runs + 1),
               'xKXs': dict(X=x.copy()),
               'erdf': float(total - runs - sum(ncols)),
               'W': np.eye(total),
               'pKX': np.linalg.pinv(x)}}}
    route = case['route']
    sigp = 'SpmGlm.%s|any' % route
    if route == 'get_betas':
        # regressors of interest: all but the first run's (when there is more than one)
        stub['SPM']['xX']['iC'] = np.arange(2, runs + 1) if runs > 1 else np.array([1])
        with ctx.guard(sigp, case):
            nitools = _NitoolsStub(None)
            with patch.object(rspm, 'loadmat', return_value=stub):
                glm = rspm.SpmGlm('/scratch/proj/glm_firstlevel', nitools)
                glm.get_info_from_spm_mat()
            betas, resms, info = glm.get_betas('roi_mask.nii')
            want_runs = list(range(2, runs + 1)) if runs > 1 else [1]
            ctx.outcome(('spm-betas', runs))
            if [round(float(v)) for v in np.asarray(betas)[:, 0]] != want_runs or np.asarray(betas).shape != (len(want_runs), 2):
                ctx.fail(sigp + '|not-the-beta-images-of-interest', case, 'rows %r for regressors of interest %r' % (
                    np.asarray(betas).tolist(), want_runs))
            if [float(v) for v in np.asarray(resms)] != [999.0, 999.25]:
                ctx.fail(sigp + '|not-the-ResMS-image', case, 'resms %r' % (resms,))
            if [int(v) for v in info['run_number']] != want_runs or [str(v) for v in info['reg_name']] != ['stim*bf(1)'] * len(want_runs):
                ctx.fail(sigp + '|descriptors', case, 'info %r for runs %r' % (info, want_runs))
            files = nitools.calls[-1] if nitools.calls else []
            if [os.path.basename(f) for f in files] != ['beta_%04d.nii' % r for r in want_runs] + ['ResMS.nii'] or \
                    any(os.path.dirname(f) != '/scratch/proj/glm_firstlevel' for f in files):
                ctx.fail(sigp + '|image-paths', case, 'sampled %r' % files)
        return
    scale = float(np.abs(y).max()) or 1.0
    with ctx.guard(sigp, case):
        nitools = _NitoolsStub(y)
        with patch.object(rspm, 'loadmat', return_value=stub):
            glm = rspm.SpmGlm('/scratch/proj/glm_firstlevel', nitools)
            glm.get_info_from_spm_mat()
        for pf in case.get('prior_fills', []):
            # earlier data through the SAME object: they must leave no trace
            yp = _spm_data(nscans, nvox, pf, ctx.seed)
            if route == 'spm_filter':
                glm.spm_filter(np.array(yp, copy=True))
            else:
                nitools.data = yp
                glm.get_residuals('roi_mask.nii')
        nitools.data = y
        if route == 'spm_filter':
            y_in = np.array(y, copy=True)
            out = np.asarray(glm.spm_filter(y_in), dtype=float)
            ref_out = want
            if y_in.dtype != y.dtype or not np.array_equal(y_in, y):
                ctx.fail(sigp + '|modifies-argument:data', case, 'the array handed to spm_filter was changed')
        else:
            out = np.asarray(glm.get_residuals('roi_mask.nii')[0], dtype=float)
            ref_out = want - x @ (np.linalg.pinv(x) @ want)
        for k, (b0, b1) in enumerate(zip(bases, stub['SPM']['xX']['K'])):
            if not np.array_equal(b0, b1['X0']):
                ctx.fail(sigp + '|modifies-argument:X0', case, 'filter matrix of run %d was changed' % k)
        _LAST['fp'] = fingerprint(out)
        if out.shape != y.shape:
            ctx.fail(sigp + '|shape', case, 'shape %r for data %r' % (out.shape, y.shape))
            return
        ctx.outcome(('spm', runs, tuple(ncols), bool(nontrivial)))
        if route == 'spm_filter' and nontrivial and np.array_equal(out, y):
            ctx.fail(sigp + '|returned-input-unchanged', case,
                     'nscans %r, %r filter columns: the returned array equals the input although the '
                     'data have a component in the filter regressors (max |X0\' Y| = %.3g)' % (
                         nscans, ncols, max(float(np.abs(b.T @ y[a:c]).max())
                                            for (a, c), b in zip(bounds, bases))))
            return
        remains = 0.0
        for (a, c), b in zip(bounds, bases):
            remains = max(remains, float(np.abs(b.T @ out[a:c, :]).max()))
        ctx.dev('spm X0\'out', remains / scale)
        if remains > 1e-9 * scale * total:
            ctx.fail(sigp + '|filter-component-remains', case,
                     'nscans %r, %r filter columns: max |X0\' out| = %.3g' % (nscans, ncols, remains))
            return
        ctx.dev('spm out-ref', maxreldev(out, ref_out))
        if not np.allclose(out, ref_out, rtol=0, atol=1e-9 * scale * total):
            worst = [r for r, (a, c) in enumerate(bounds)
                     if not np.allclose(out[a:c], ref_out[a:c], rtol=0, atol=1e-9 * scale * total)]
            ctx.fail(sigp + '|differs-from-projection', case,
                     'nscans %r, %r filter columns: runs %r differ from Y - X0 X0\' Y (max abs dev %.3g)'
                     % (nscans, ncols, worst, float(np.abs(out - ref_out).max())))
